package main

import (
	"fmt"
	"go/constant"
	"go/token"
	"go/types"
	"sort"
	"strings"

	"golang.org/x/tools/go/ssa"
)

// Path-sensitive forward dataflow over SSA (engines E4, E5, E6 share it).
//
// Domain: SSA value -> Val (affine form over entry symbols, structured opaque term, or
// comparison atom); abstract store: location (canonical access path) -> Val with strong
// updates on identical paths and field-wide havoc for everything that may alias. The
// analysis is partitioned by branch decisions (one partition per acyclic CFG path through
// a loop-free region); loops are not unrolled: a loop is summarised as one event that
// havocs its write set, and its body can be summarised separately for a fresh element.
// Calls to small loop-free module functions are inlined up to a bound; any other call is an
// event that havocs the callee's transitive write set.

type Event struct {
	Kind   string // "call", "store", "mapupdate", "loop", "defer", "go", "panic", "send"
	Instr  ssa.Instruction
	Callee string        // resolved name (fnKey for module functions, full path for others)
	Fn     *ssa.Function // unique module callee, if resolved
	Args   []*Val        // receiver first for invokes / methods
	Loc    string        // store: location
	FKey   string        // store: typed field key
	Val    *Val          // store: value stored
	Res    *Val          // call: result value
	Loop   *Loop
	Depth  int
	Pos    string
	InFn   *ssa.Function
	Fresh  bool // store into an object allocated on this path
}

func (e *Event) String() string {
	switch e.Kind {
	case "store":
		return fmt.Sprintf("%s := %s", e.Loc, e.Val)
	case "call", "defer", "go":
		var as []string
		for _, a := range e.Args {
			as = append(as, a.String())
		}
		return fmt.Sprintf("%s %s(%s)", e.Kind, e.Callee, strings.Join(as, ", "))
	case "loop":
		return fmt.Sprintf("loop@%d", e.Loop.Header.Index)
	}
	return e.Kind
}

type PathSum struct {
	Conds    []Cond
	Events   []*Event
	Store    map[string]*Val
	Ret      []*Val
	RetInstr *ssa.Return
	End      string // "return", "panic", "continue", "exit:<blk>", "cut:<why>"
	Blocks   []int
}

func (ps *PathSum) CondString() string {
	var ss []string
	for _, c := range ps.Conds {
		ss = append(ss, c.String())
	}
	return strings.Join(ss, " && ")
}

// Calls returns the call events whose callee name has the given suffix.
func (ps *PathSum) Calls(suffix string) []*Event {
	var out []*Event
	for _, e := range ps.Events {
		if (e.Kind == "call" || e.Kind == "defer") && strings.HasSuffix(e.Callee, suffix) {
			out = append(out, e)
		}
	}
	return out
}

type state struct {
	env     map[ssa.Value]*Val
	store   map[string]*Val
	lockey  map[string]string // loc -> typed field key
	havoc   map[string]int    // field key -> havoc generation
	fresh   map[string]bool   // bases allocated on this path
	conds   []Cond
	events  []*Event
	blocks  []int
	epoch   int
	nfresh  int
	onstack map[*ssa.Function]bool
	written map[string]bool // typed field keys written or havocked so far
}

func newState() *state {
	return &state{env: map[ssa.Value]*Val{}, store: map[string]*Val{}, lockey: map[string]string{},
		havoc: map[string]int{}, fresh: map[string]bool{}, onstack: map[*ssa.Function]bool{}, written: map[string]bool{}}
}

func (s *state) clone() *state {
	n := &state{env: make(map[ssa.Value]*Val, len(s.env)), store: make(map[string]*Val, len(s.store)),
		lockey: make(map[string]string, len(s.lockey)), havoc: make(map[string]int, len(s.havoc)),
		fresh: make(map[string]bool, len(s.fresh)), onstack: make(map[*ssa.Function]bool, len(s.onstack)),
		epoch: s.epoch, nfresh: s.nfresh, written: make(map[string]bool, len(s.written))}
	for k := range s.written {
		n.written[k] = true
	}
	for k, v := range s.env {
		n.env[k] = v
	}
	for k, v := range s.store {
		n.store[k] = v
	}
	for k, v := range s.lockey {
		n.lockey[k] = v
	}
	for k, v := range s.havoc {
		n.havoc[k] = v
	}
	for k, v := range s.fresh {
		n.fresh[k] = v
	}
	for k, v := range s.onstack {
		n.onstack[k] = v
	}
	n.conds = append([]Cond(nil), s.conds...)
	n.events = append([]*Event(nil), s.events...)
	n.blocks = append([]int(nil), s.blocks...)
	return n
}

type Summ struct {
	P        *Prog
	Ix       *Index
	MaxDepth int
	MaxPaths int
	// NoInline lists functions never inlined (by fnKey); Intrinsic gives aliases.
	NoInline map[string]bool
	// EngineAliases enables the single-game alias normalisation (*GameState -> "GS",
	// player.state / Player.State() -> "PS(x)").
	EngineAliases bool
	// NilFns: functions whose single error result is always nil (their "if err != nil" edges are dead).
	NilFns map[*ssa.Function]bool
	// InlineFilter, when set, must also accept a callee for it to be inlined.
	InlineFilter func(fn *ssa.Function) bool
	// AlwaysInline: small effect-free guard helpers (they only test CheckAction / the current
	// event and return a bool or an error) are inlined whatever the depth bound, so that a
	// guard extracted into a helper is seen as the guard it is.
	AlwaysInline map[*ssa.Function]bool
	// HelperInline, when set, names package-private helpers that are inlined even if they
	// contain loops (their loops become loop events of the caller's summary): a body moved
	// into a helper is analysed where it is used.
	HelperInline func(fn *ssa.Function) bool

	paths   []*PathSum
	cut     string
	nframes int
	loopsOf map[*ssa.Function][]*Loop
}

func newSumm(p *Prog, depth int) *Summ {
	if p.nilFns == nil {
		p.nilFns = alwaysNilFns(p)
	}
	if p.guardHelpers == nil {
		p.guardHelpers = findGuardHelpers(p)
	}
	ni := map[string]bool{}
	// the action guard is an anchor of the rules (an atom CheckAction(recv, "x")): it stays a call
	// whatever its body looks like (a loop today, slices.Contains tomorrow)
	for _, fn := range p.Funcs {
		if fn.Name() == "CheckAction" && fn.Signature.Recv() != nil && fn.Pkg != nil && shortPkg(fn.Pkg.Pkg.Path()) == "pokerface" {
			ni[fnKey(fn)] = true
		}
	}
	return &Summ{P: p, Ix: p.Index(), MaxDepth: depth, MaxPaths: 4096, NoInline: ni,
		EngineAliases: true, loopsOf: map[*ssa.Function][]*Loop{}, NilFns: p.nilFns, AlwaysInline: p.guardHelpers}
}

// findGuardHelpers: unexported, loop-free, effect-free functions of at most 6 blocks that
// call a method named CheckAction or compare Status.CurrentEvent, and return a bool or an error.
func findGuardHelpers(p *Prog) map[*ssa.Function]bool {
	out := map[*ssa.Function]bool{}
	ix := p.Index()
	for _, fn := range p.Funcs {
		if fn.Parent() != nil || token.IsExported(fn.Name()) || len(fn.Blocks) > 6 || len(findLoops(fn)) > 0 {
			continue
		}
		res := fn.Signature.Results()
		if res.Len() != 1 {
			continue
		}
		rt := typeShort(res.At(0).Type())
		if rt != "error" && rt != "bool" {
			continue
		}
		if fi := ix.Info[fn]; fi == nil || len(fi.TWrites) > 0 {
			continue
		}
		guard := false
		for _, b := range fn.Blocks {
			for _, in := range b.Instrs {
				switch x := in.(type) {
				case ssa.CallInstruction:
					cc := x.Common()
					n := ""
					if cc.IsInvoke() {
						n = cc.Method.Name()
					} else if f := cc.StaticCallee(); f != nil {
						n = f.Name()
					}
					if n == "CheckAction" {
						guard = true
					}
				case *ssa.BinOp:
					if loadsField(x.X, "pokerface.Status.CurrentEvent") || loadsField(x.Y, "pokerface.Status.CurrentEvent") {
						guard = true
					}
				}
			}
		}
		if guard {
			out[fn] = true
		}
	}
	return out
}

func (s *Summ) loops(fn *ssa.Function) []*Loop {
	if l, ok := s.loopsOf[fn]; ok {
		return l
	}
	l := findLoops(fn)
	s.loopsOf[fn] = l
	return l
}

type frame struct {
	fn     *ssa.Function
	id     int
	depth  int
	bodyOf *Loop           // when summarising a loop body: the loop
	stopAt *ssa.BasicBlock // preState: stop when this block is reached
	onStop func(*state)
}

type cont func(st *state, ret []*Val, ri *ssa.Return, end string)

// Function summarises fn: one PathSum per partition. err != "" means the analysis gave up
// (too many paths).
func (s *Summ) Function(fn *ssa.Function) ([]*PathSum, string) {
	s.paths = nil
	s.cut = ""
	st := newState()
	s.bindParams(fn, st, nil)
	st.onstack[fn] = true
	fr := &frame{fn: fn}
	s.execBlock(fr, fn.Blocks[0], nil, st, func(st *state, ret []*Val, ri *ssa.Return, end string) {
		s.emit(st, ret, ri, end)
	})
	return s.paths, s.cut
}

// LoopBody summarises one iteration of loop l of fn for a fresh element: paths start at the
// loop header and end when control returns to the header ("continue"), leaves the loop
// ("exit:<block>") or returns.
func (s *Summ) LoopBody(fn *ssa.Function, l *Loop) ([]*PathSum, string) {
	st := s.preState(fn, l)
	s.paths = nil
	s.cut = ""
	if st == nil {
		st = newState()
		s.bindParams(fn, st, nil)
	}
	st.onstack[fn] = true
	fr := &frame{fn: fn, bodyOf: l}
	s.execBlock(fr, l.Header, nil, st, func(st *state, ret []*Val, ri *ssa.Return, end string) {
		s.emit(st, ret, ri, end)
	})
	return s.paths, s.cut
}

// preState evaluates the code before loop l when exactly one path leads from the function
// entry to the loop header, so that values computed before the loop keep their meaning
// inside the body summary. What the loop itself may write is forgotten (an arbitrary
// iteration is summarised).
func (s *Summ) preState(fn *ssa.Function, l *Loop) *state {
	// only for outermost loops reached without passing another loop
	var got []*state
	s.paths = nil
	s.cut = ""
	st := newState()
	s.bindParams(fn, st, nil)
	st.onstack[fn] = true
	fr := &frame{fn: fn, stopAt: l.Header, onStop: func(x *state) { got = append(got, x) }}
	s.execBlock(fr, fn.Blocks[0], nil, st, func(*state, []*Val, *ssa.Return, string) {})
	s.paths = nil
	cut := s.cut
	s.cut = ""
	if cut != "" || len(got) != 1 {
		return nil
	}
	pre := got[0]
	pre.conds = nil
	pre.events = nil
	pre.blocks = nil
	pre.onstack = map[*ssa.Function]bool{}
	// forget what the loop writes
	for blk := range l.Blocks {
		for _, in := range blk.Instrs {
			switch x := in.(type) {
			case *ssa.Store:
				if _, isAlloc := x.Addr.(*ssa.Alloc); isAlloc {
					a := s.val(pre, x.Addr)
					if a.K == KAddr {
						delete(pre.store, a.S)
					}
					continue
				}
				s.forgetKey(pre, accessKey(x.Addr))
			case *ssa.MapUpdate:
				s.forgetKey(pre, "map:"+typeShort(x.Map.Type()))
			case ssa.CallInstruction:
				for _, t := range s.Ix.targets(fn, x.Common()) {
					if ti := s.Ix.Info[t]; ti != nil {
						for kx := range ti.TWrites {
							s.forgetKey(pre, kx)
						}
					}
				}
			}
		}
	}
	pre.epoch = 0
	pre.written = map[string]bool{}
	pre.havoc = map[string]int{}
	return pre
}

func (s *Summ) forgetKey(st *state, key string) {
	for loc, fk := range st.lockey {
		if fk == key {
			delete(st.store, loc)
		}
	}
}

func (s *Summ) emit(st *state, ret []*Val, ri *ssa.Return, end string) {
	if len(s.paths) >= s.MaxPaths {
		s.cut = fmt.Sprintf("more than %d paths", s.MaxPaths)
		return
	}
	s.paths = append(s.paths, &PathSum{Conds: st.conds, Events: st.events, Store: st.store, Ret: ret, RetInstr: ri, End: end, Blocks: st.blocks})
}

func (s *Summ) bindParams(fn *ssa.Function, st *state, args []*Val) {
	for i, p := range fn.Params {
		if args != nil && i < len(args) {
			st.env[p] = args[i]
			continue
		}
		name := "param:" + p.Name()
		if fn.Signature.Recv() != nil && i == 0 {
			name = "recv"
		}
		st.env[p] = s.symFor(name, p.Type())
	}
	for _, fv := range fn.FreeVars {
		if _, ok := st.env[fv]; !ok {
			st.env[fv] = vAddr("free:" + fv.Name())
		}
	}
}

func isIntType(t types.Type) bool {
	b, ok := t.Underlying().(*types.Basic)
	return ok && b.Info()&types.IsInteger != 0
}
func isBoolType(t types.Type) bool {
	b, ok := t.Underlying().(*types.Basic)
	return ok && b.Info()&types.IsBoolean != 0
}

func (s *Summ) symFor(name string, t types.Type) *Val {
	if isIntType(t) {
		v := vAff(affTerm(name))
		v.Typ = typeShort(t)
		return v
	}
	if isBoolType(t) {
		return vAtom(&Atom{Op: "b", L: name}, false)
	}
	v := vSym(name)
	v.Typ = typeShort(t)
	return s.alias(v, t)
}

// alias normalises pointer-valued symbols of the engine package.
func (s *Summ) alias(v *Val, t types.Type) *Val {
	if !s.EngineAliases || v.K != KSym {
		return v
	}
	ts := typeShort(t)
	switch ts {
	case "*pokerface.GameState":
		if v.Op == "" || v.Op == "call" { // loaded or returned by a getter
			return &Val{K: KSym, S: "GS", Typ: ts}
		}
	case "*pokerface.PlayerState":
		if strings.HasSuffix(v.S, ".state") {
			return &Val{K: KSym, S: "PS(" + strings.TrimSuffix(v.S, ".state") + ")", Typ: ts}
		}
	}
	return v
}

func (s *Summ) val(st *state, v ssa.Value) *Val {
	if x, ok := st.env[v]; ok {
		return x
	}
	switch c := v.(type) {
	case *ssa.Const:
		return constVal(c)
	case *ssa.Global:
		pk := ""
		if c.Pkg != nil {
			pk = shortPkg(c.Pkg.Pkg.Path()) + "."
		}
		return vAddr("global:" + pk + c.Name())
	case *ssa.Function:
		return vSym("func:" + fnKey(c))
	case *ssa.Builtin:
		return vSym("builtin:" + c.Name())
	case *ssa.Parameter:
		return s.symFor("param:"+c.Name(), c.Type())
	case *ssa.FreeVar:
		return vAddr("free:" + c.Name())
	}
	// a value not computed on this path (defined in a summarised loop, or in code skipped)
	name := "undef:" + v.Name()
	if in, ok := v.(ssa.Instruction); ok && in.Parent() != nil {
		name = "loopval:" + in.Parent().Name() + "." + v.Name()
	}
	return s.symFor(name, v.Type())
}

func constVal(c *ssa.Const) *Val {
	if c.Value == nil {
		return vConst("nil")
	}
	switch c.Value.Kind() {
	case constant.Int:
		if i, ok := constant.Int64Val(c.Value); ok {
			return vInt(i)
		}
	case constant.Bool:
		if constant.BoolVal(c.Value) {
			return vConst("true")
		}
		return vConst("false")
	case constant.String:
		return vConst(fmt.Sprintf("%q", constant.StringVal(c.Value)))
	}
	return vConst(c.Value.ExactString())
}

// ---------------------------------------------------------------------------------------

func (s *Summ) execBlock(fr *frame, b *ssa.BasicBlock, from *ssa.BasicBlock, st *state, k cont) {
	if s.cut != "" {
		return
	}
	loops := s.loops(fr.fn)
	if fr.stopAt != nil && fr.depth == 0 && b == fr.stopAt {
		if from == nil || !innermostContains(loops, fr.stopAt, from) {
			fr.onStop(st)
		}
		return
	}
	// loop-body mode: returning to the header or leaving the loop ends the path
	if fr.bodyOf != nil && fr.depth == 0 {
		l := fr.bodyOf
		if b == l.Header && from != nil {
			// values flowing around the back edge into the header's phis
			for _, in := range b.Instrs {
				if phi, ok := in.(*ssa.Phi); ok {
					st.store["backedge:"+phi.Name()] = s.phi(phi, from, st)
				}
			}
			k(st, nil, nil, "continue")
			return
		}
		if !l.Blocks[b] {
			// leaving the loop: if the exit block simply returns, evaluate it for the value
			if ret, ok := b.Instrs[len(b.Instrs)-1].(*ssa.Return); ok && len(b.Instrs) <= 8 && len(b.Preds) >= 1 {
				onlyPure := true
				for _, in := range b.Instrs[:len(b.Instrs)-1] {
					switch in.(type) {
					case *ssa.Phi, *ssa.DebugRef, *ssa.MakeInterface, *ssa.UnOp, *ssa.ChangeInterface:
					default:
						onlyPure = false
					}
				}
				if onlyPure {
					for _, in := range b.Instrs[:len(b.Instrs)-1] {
						s.execInstrSimple(fr, in, from, st)
					}
					var rv []*Val
					for _, r := range ret.Results {
						rv = append(rv, s.val(st, r))
					}
					k(st, rv, ret, fmt.Sprintf("exit-return:%d", b.Index))
					return
				}
			}
			k(st, nil, nil, fmt.Sprintf("exit:%d", b.Index))
			return
		}
	}
	// entering a loop (other than the one whose body we are summarising at its header)
	for _, l := range loops {
		if l.Header != b {
			continue
		}
		if fr.bodyOf == l && fr.depth == 0 {
			break
		}
		if from != nil && l.Blocks[from] {
			// back edge inside a summarised region: should not happen (we never walk loop bodies)
			k(st, nil, nil, "cut:backedge")
			return
		}
		s.enterLoop(fr, l, st, k)
		return
	}
	// guard against irreducible revisits
	cnt := 0
	for _, x := range st.blocks {
		if x == blockID(fr, b) {
			cnt++
		}
	}
	if cnt > 0 && fr.bodyOf == nil {
		k(st, nil, nil, "cut:revisit")
		return
	}
	st.blocks = append(st.blocks, blockID(fr, b))
	s.execFrom(fr, b, 0, from, st, k)
}

// innermostContains: is block x inside the loop headed by header?
func innermostContains(loops []*Loop, header, x *ssa.BasicBlock) bool {
	for _, l := range loops {
		if l.Header == header && l.Blocks[x] {
			return true
		}
	}
	return false
}

func blockID(fr *frame, b *ssa.BasicBlock) int { return fr.id*100000 + b.Index }

func (s *Summ) enterLoop(fr *frame, l *Loop, st *state, k cont) {
	ev := &Event{Kind: "loop", Loop: l, Depth: fr.depth, InFn: fr.fn, Pos: s.P.InstrPos(l.Header.Instrs[len(l.Header.Instrs)-1])}
	st.events = append(st.events, ev)
	st.epoch++
	// havoc everything the loop may write
	for blk := range l.Blocks {
		for _, in := range blk.Instrs {
			s.havocInstr(fr.fn, in, st)
		}
	}
	for _, ex := range l.Exits {
		ns := st
		if len(l.Exits) > 1 {
			ns = st.clone()
			ns.conds = append(ns.conds, Cond{V: vAtom(&Atom{Op: "b", L: fmt.Sprintf("loop@%d.exit→%d", l.Header.Index, ex.Index)}, false), Blk: l.Header.Index, NEv: len(ns.events)})
		}
		// predecessor inside the loop for phi resolution
		var from *ssa.BasicBlock
		for _, p := range ex.Preds {
			if l.Blocks[p] {
				from = p
				break
			}
		}
		s.execBlock(fr, ex, from, ns, k)
	}
}

// havocInstr forgets what a (non-executed) instruction may overwrite.
func (s *Summ) havocInstr(fn *ssa.Function, in ssa.Instruction, st *state) {
	switch x := in.(type) {
	case *ssa.Store:
		if _, isAlloc := x.Addr.(*ssa.Alloc); isAlloc {
			return
		}
		s.havocKey(st, accessKey(x.Addr))
	case *ssa.MapUpdate:
		s.havocKey(st, "map:"+typeShort(x.Map.Type()))
	case ssa.CallInstruction:
		for _, t := range s.Ix.targets(fn, x.Common()) {
			if ti := s.Ix.Info[t]; ti != nil {
				for kx := range ti.TWrites {
					s.havocKey(st, kx)
				}
			}
		}
	}
}

func (s *Summ) havocKey(st *state, key string) {
	st.havoc[key] = st.epoch + 1
	st.written[key] = true
	for loc, fk := range st.lockey {
		if fk == key {
			delete(st.store, loc)
		}
	}
}

// execInstrSimple evaluates value-producing instructions without control flow or calls.
func (s *Summ) execInstrSimple(fr *frame, in ssa.Instruction, from *ssa.BasicBlock, st *state) {
	switch x := in.(type) {
	case *ssa.Phi:
		st.env[x] = s.phi(x, from, st)
	case *ssa.UnOp:
		st.env[x] = s.unop(fr, x, st)
	case *ssa.MakeInterface:
		st.env[x] = s.val(st, x.X)
	case *ssa.ChangeInterface:
		st.env[x] = s.val(st, x.X)
	}
}

func (s *Summ) phi(x *ssa.Phi, from *ssa.BasicBlock, st *state) *Val {
	if from != nil {
		for i, p := range x.Block().Preds {
			if p == from {
				return s.val(st, x.Edges[i])
			}
		}
	}
	return s.symFor("iter:"+x.Parent().Name()+"."+x.Name(), x.Type())
}

func (s *Summ) execFrom(fr *frame, b *ssa.BasicBlock, idx int, from *ssa.BasicBlock, st *state, k cont) {
	for i := idx; i < len(b.Instrs); i++ {
		if s.cut != "" {
			return
		}
		in := b.Instrs[i]
		switch x := in.(type) {
		case *ssa.DebugRef:
		case *ssa.Phi:
			// all phis of a block read their operands simultaneously
			st.env[x] = s.phi(x, from, st)
		case *ssa.Alloc:
			st.nfresh++
			name := fmt.Sprintf("new%d:%s", st.nfresh, x.Comment)
			st.fresh[name] = true
			st.env[x] = vAddr(name)
		case *ssa.BinOp:
			st.env[x] = s.binop(x, st)
		case *ssa.UnOp:
			st.env[x] = s.unop(fr, x, st)
		case *ssa.FieldAddr:
			base := s.val(st, x.X)
			_, stt := namedStruct(x.X.Type())
			fname := "?"
			if stt != nil {
				fname = stt.Field(x.Field).Name()
			}
			bs := base.S
			if base.K == KAddr {
				bs = base.S
			} else if base.K != KSym {
				bs = base.String()
			}
			a := vAddr(bs + "." + fname)
			a.Typ = fieldKeyOf(x.X, x.Field)
			st.env[x] = a
		case *ssa.Field:
			base := s.val(st, x.X)
			_, stt := namedStruct(x.X.Type())
			fname := "?"
			if stt != nil {
				fname = stt.Field(x.Field).Name()
			}
			if base.K == KSym && base.Op == "struct" && x.Field < len(base.Args) {
				st.env[x] = base.Args[x.Field]
			} else {
				st.env[x] = s.symFor(base.String()+"."+fname, x.Type())
			}
		case *ssa.IndexAddr:
			base := s.val(st, x.X)
			idxv := s.val(st, x.Index)
			bs := base.S
			if base.K != KSym && base.K != KAddr {
				bs = base.String()
			}
			a := vAddr(bs + "[" + idxv.String() + "]")
			a.Typ = "elem:" + typeShort(x.X.Type())
			a.Args = []*Val{base, idxv}
			st.env[x] = a
		case *ssa.Index:
			base := s.val(st, x.X)
			idxv := s.val(st, x.Index)
			st.env[x] = s.symFor(base.String()+"["+idxv.String()+"]", x.Type())
		case *ssa.Lookup:
			m := s.val(st, x.X)
			kx := s.val(st, x.Index)
			r := vOp("lookup", m, kx)
			if x.CommaOk {
				st.env[x] = &Val{K: KTuple, Args: []*Val{s.retype(r, x.Type().(*types.Tuple).At(0).Type()), vAtom(&Atom{Op: "b", L: "has(" + m.String() + ", " + kx.String() + ")"}, false)}}
			} else {
				st.env[x] = s.retype(r, x.Type())
			}
		case *ssa.Slice:
			// slice literal / make([]T, 0) / varargs: a fresh array sliced whole -> list(elems...)
			if al, ok := x.X.(*ssa.Alloc); ok && x.Low == nil {
				if pt, ok := al.Type().(*types.Pointer); ok {
					if at, ok := pt.Elem().Underlying().(*types.Array); ok {
						base := s.val(st, al)
						n := at.Len()
						okHigh := x.High == nil
						if c, isC := x.High.(*ssa.Const); isC {
							if cv, ok2 := constInt(c); ok2 && cv == n {
								okHigh = true
							}
						}
						if base.K == KAddr && st.fresh[base.S] && okHigh && n <= 64 {
							var elems []*Val
							for j := int64(0); j < n; j++ {
								if ev, ok := st.store[fmt.Sprintf("%s[%d]", base.S, j)]; ok {
									elems = append(elems, ev)
								} else {
									elems = append(elems, vConst("zero"))
								}
							}
							st.env[x] = vOp("list", elems...)
							break
						}
					}
				}
			}
			args := []*Val{s.val(st, x.X)}
			for _, o := range []ssa.Value{x.Low, x.High, x.Max} {
				if o == nil {
					args = append(args, vConst("_"))
				} else {
					args = append(args, s.val(st, o))
				}
			}
			st.env[x] = vOp("slice", args...)
		case *ssa.Convert:
			v := s.val(st, x.X)
			if isIntType(x.Type()) && isIntType(x.X.Type()) {
				st.env[x] = v
			} else {
				st.env[x] = s.retype(vOp("conv:"+typeShort(x.Type()), v), x.Type())
			}
		case *ssa.ChangeType:
			st.env[x] = s.val(st, x.X)
		case *ssa.ChangeInterface:
			st.env[x] = s.val(st, x.X)
		case *ssa.MakeInterface:
			st.env[x] = s.val(st, x.X)
		case *ssa.TypeAssert:
			v := s.val(st, x.X)
			if x.CommaOk {
				st.env[x] = &Val{K: KTuple, Args: []*Val{v, vAtom(&Atom{Op: "b", L: "istype(" + v.String() + "," + typeShort(x.AssertedType) + ")"}, false)}}
			} else {
				st.env[x] = v
			}
		case *ssa.Extract:
			t := s.val(st, x.Tuple)
			if t.K == KTuple && x.Index < len(t.Args) {
				st.env[x] = t.Args[x.Index]
			} else {
				st.env[x] = s.symFor(fmt.Sprintf("%s#%d", t.String(), x.Index), x.Type())
			}
		case *ssa.MakeSlice:
			st.nfresh++
			v := vOp("makeslice", s.val(st, x.Len))
			v.Typ = typeShort(x.Type())
			st.env[x] = v
		case *ssa.MakeMap:
			st.nfresh++
			v := vOp("makemap")
			v.S = fmt.Sprintf("makemap#%d", st.nfresh)
			st.fresh[v.S] = true
			st.env[x] = v
		case *ssa.MakeChan:
			st.env[x] = vOp("makechan")
		case *ssa.MakeClosure:
			fn, _ := x.Fn.(*ssa.Function)
			var bs []*Val
			for _, bnd := range x.Bindings {
				bs = append(bs, s.val(st, bnd))
			}
			v := vOp("closure:"+fnKey(fn), bs...)
			st.env[x] = v
		case *ssa.Range:
			st.env[x] = vOp("range", s.val(st, x.X))
		case *ssa.Next:
			// element of a summarised loop body
			it := s.val(st, x.Iter)
			l := innermostLoop(s.loops(fr.fn), b)
			id := 0
			if l != nil {
				id = l.Header.Index
			}
			tt := x.Type().(*types.Tuple)
			parts := []*Val{vAtom(&Atom{Op: "b", L: fmt.Sprintf("next@%d", id)}, false)}
			parts = append(parts, s.symFor(fmt.Sprintf("key@%d:%s", id, it.String()), tt.At(1).Type()))
			parts = append(parts, s.symFor(fmt.Sprintf("elem@%d:%s", id, it.String()), tt.At(2).Type()))
			st.env[x] = &Val{K: KTuple, Args: parts}
		case *ssa.Store:
			s.store(fr, x, st)
		case *ssa.MapUpdate:
			m := s.val(st, x.Map)
			kx := s.val(st, x.Key)
			vv := s.val(st, x.Value)
			_, fresh := rootOf(x.Map)
			ev := &Event{Kind: "mapupdate", Instr: x, Loc: m.String() + "[" + kx.String() + "]", FKey: "map:" + typeShort(x.Map.Type()), Val: vv,
				Args: []*Val{m, kx, vv}, Depth: fr.depth, InFn: fr.fn, Pos: s.P.InstrPos(x), Fresh: fresh || st.fresh[m.S]}
			st.events = append(st.events, ev)
			st.store[ev.Loc] = vv
			st.lockey[ev.Loc] = ev.FKey
			st.epoch++
		case *ssa.Send:
			st.events = append(st.events, &Event{Kind: "send", Instr: x, Depth: fr.depth, InFn: fr.fn, Pos: s.P.InstrPos(x)})
		case *ssa.Go:
			st.events = append(st.events, s.callEvent(fr, "go", x, st))
		case *ssa.Defer:
			st.events = append(st.events, s.callEvent(fr, "defer", x, st))
		case *ssa.RunDefers:
		case *ssa.Panic:
			st.events = append(st.events, &Event{Kind: "panic", Instr: x, Depth: fr.depth, InFn: fr.fn, Pos: s.P.InstrPos(x)})
			k(st, nil, nil, "panic")
			return
		case *ssa.Call:
			s.call(fr, x, b, i, from, st, k)
			return
		case *ssa.Jump:
			s.execBlock(fr, b.Succs[0], b, st, k)
			return
		case *ssa.If:
			cv := asAtom(s.val(st, x.Cond))
			pos := s.P.InstrPos(x)
			if cv.K == KConst {
				if cv.S == "true" {
					s.execBlock(fr, b.Succs[0], b, st, k)
				} else {
					s.execBlock(fr, b.Succs[1], b, st, k)
				}
				return
			}
			// loop-body mode at the header: only follow the edge into the loop
			if fr.bodyOf != nil && fr.depth == 0 && b == fr.bodyOf.Header {
				inT, inF := fr.bodyOf.Blocks[b.Succs[0]], fr.bodyOf.Blocks[b.Succs[1]]
				if inT != inF {
					// the iteration is entered: record the loop condition as a fact of the body
					// (not for range idioms, whose header condition is the bounds test)
					if ri := analyseRange(fr.bodyOf); ri.Kind == "" {
						c2 := cv
						if inF {
							c2 = negate(cv)
						}
						st.conds = append(st.conds, Cond{V: c2, Pos: pos, Blk: blockID(fr, b), Then: inT, NEv: len(st.events)})
					}
					if inT {
						s.execBlock(fr, b.Succs[0], b, st, k)
					} else {
						s.execBlock(fr, b.Succs[1], b, st, k)
					}
					return
				}
			}
			for bi, pol := range []bool{true, false} {
				c := cv
				if !pol {
					c = negate(cv)
				}
				infeasible := false
				for _, pc := range st.conds {
					if contradicts(pc.V, c) {
						infeasible = true
						break
					}
				}
				if infeasible {
					continue
				}
				ns := st.clone()
				ns.conds = append(ns.conds, Cond{V: c, Pos: pos, Blk: blockID(fr, b), Then: pol, NEv: len(ns.events)})
				s.execBlock(fr, b.Succs[bi], b, ns, k)
			}
			return
		case *ssa.Return:
			var rv []*Val
			for _, r := range x.Results {
				rv = append(rv, s.val(st, r))
			}
			k(st, rv, x, "return")
			return
		case *ssa.Select:
			st.env[x] = s.symFor("select", x.Type())
		default:
			if v, ok := in.(ssa.Value); ok {
				st.env[v] = s.symFor("op:"+v.Name(), v.Type())
			}
		}
	}
}

func (s *Summ) retype(v *Val, t types.Type) *Val {
	if isIntType(t) {
		r := vAff(affTerm(v.String()))
		r.Args = []*Val{v}
		return r
	}
	if isBoolType(t) {
		return vAtom(&Atom{Op: "b", L: v.String()}, false)
	}
	v.Typ = typeShort(t)
	return s.alias(v, t)
}

func (s *Summ) binop(x *ssa.BinOp, st *state) *Val {
	l, r := s.val(st, x.X), s.val(st, x.Y)
	intOps := isIntType(x.X.Type()) && isIntType(x.Y.Type())
	switch x.Op {
	case token.ADD:
		if intOps {
			return vAff(l.asAff().add(r.asAff(), 1))
		}
	case token.SUB:
		if intOps {
			return vAff(l.asAff().add(r.asAff(), -1))
		}
	case token.MUL:
		if intOps {
			if c, ok := l.isConstInt(); ok {
				return vAff(r.asAff().scale(c))
			}
			if c, ok := r.isConstInt(); ok {
				return vAff(l.asAff().scale(c))
			}
			a, b := l.String(), r.String()
			if a > b {
				a, b = b, a
			}
			return vAff(affTerm("(" + a + ")*(" + b + ")"))
		}
	case token.LSS, token.LEQ, token.GTR, token.GEQ, token.EQL, token.NEQ:
		if intOps {
			return cmpAtom(x.Op.String(), l.asAff(), r.asAff())
		}
		if x.Op == token.EQL || x.Op == token.NEQ {
			// booleans compared with constants
			if l.K == KAtom && r.K == KConst {
				if (r.S == "true") == (x.Op == token.EQL) {
					return l
				}
				return negate(l)
			}
			if r.K == KAtom && l.K == KConst {
				if (l.S == "true") == (x.Op == token.EQL) {
					return r
				}
				return negate(r)
			}
			// a sentinel error variable (errors.New in init, never reassigned) is never nil
			for _, pr := range [][2]*Val{{l, r}, {r, l}} {
				if pr[0].K == KConst && pr[0].S == "nil" && pr[1].K == KSym && strings.HasPrefix(pr[1].S, "global:") && s.P.isSentinelGlobal(strings.TrimPrefix(pr[1].S, "global:")) {
					if x.Op == token.NEQ {
						return vConst("true")
					}
					return vConst("false")
				}
			}
			if l.K == KConst && r.K == KConst {
				if (l.S == r.S) == (x.Op == token.EQL) {
					return vConst("true")
				}
				return vConst("false")
			}
			return vAtom(isAtom(l.String(), r.String()), x.Op == token.NEQ)
		}
		// float or string ordering: opaque
		return vAtom(&Atom{Op: "b", L: "(" + l.String() + " " + x.Op.String() + " " + r.String() + ")"}, false)
	}
	v := vOp("op"+x.Op.String(), l, r)
	return s.retype(v, x.Type())
}

func (s *Summ) unop(fr *frame, x *ssa.UnOp, st *state) *Val {
	v := s.val(st, x.X)
	switch x.Op {
	case token.MUL: // load
		return s.load(v, x.Type(), st)
	case token.NOT:
		return negate(asAtom(v))
	case token.SUB:
		if isIntType(x.Type()) {
			return vAff(v.asAff().scale(-1))
		}
	}
	return s.retype(vOp("op"+x.Op.String(), v), x.Type())
}

func (s *Summ) load(addr *Val, t types.Type, st *state) *Val {
	if addr.K != KAddr {
		return s.symFor("*("+addr.String()+")", t)
	}
	loc := addr.S
	if v, ok := st.store[loc]; ok {
		return v
	}
	fk := addr.Typ
	if g, ok := st.havoc[fk]; ok && fk != "" {
		return s.symFor(fmt.Sprintf("%s@h%d", loc, g), t)
	}
	// a field of a struct value that was stored as a whole (x := y; x.f): derive from the source
	for i := len(loc) - 1; i > 0; i-- {
		if loc[i] != '.' {
			continue
		}
		if whole, ok := st.store[loc[:i]]; ok && whole.K == KSym && whole.Op == "" {
			return s.symFor(whole.S+loc[i:], t)
		}
	}
	if st.fresh[loc] {
		// zero value of a fresh local
		if isIntType(t) {
			return vInt(0)
		}
	}
	return s.symFor(loc, t)
}

func (s *Summ) store(fr *frame, x *ssa.Store, st *state) {
	addr := s.val(st, x.Addr)
	v := s.val(st, x.Val)
	if addr.K != KAddr {
		st.events = append(st.events, &Event{Kind: "store", Instr: x, Loc: "*(" + addr.String() + ")", Val: v, Depth: fr.depth, InFn: fr.fn, Pos: s.P.InstrPos(x)})
		st.epoch++
		return
	}
	loc := addr.S
	fk := addr.Typ
	if _, isAlloc := x.Addr.(*ssa.Alloc); isAlloc {
		st.store[loc] = v
		return
	}
	base := loc
	if i := strings.IndexAny(loc, ".["); i > 0 {
		base = loc[:i]
	}
	fresh := st.fresh[base]
	// may-alias: same field through a different base
	if fk != "" && !fresh {
		for l2, k2 := range st.lockey {
			if k2 == fk && l2 != loc {
				delete(st.store, l2)
				st.havoc[fk] = st.epoch + 1
			}
		}
	}
	st.store[loc] = v
	if fk != "" {
		st.lockey[loc] = fk
		if !fresh {
			st.written[fk] = true
		}
	}
	st.events = append(st.events, &Event{Kind: "store", Instr: x, Loc: loc, FKey: fk, Val: v, Depth: fr.depth, InFn: fr.fn, Pos: s.P.InstrPos(x), Fresh: fresh})
	st.epoch++
}

func (s *Summ) callEvent(fr *frame, kind string, ci ssa.CallInstruction, st *state) *Event {
	c := ci.Common()
	ev := &Event{Kind: kind, Instr: ci, Depth: fr.depth, InFn: fr.fn, Pos: s.P.InstrPos(ci)}
	if c.IsInvoke() {
		ev.Args = append(ev.Args, s.val(st, c.Value))
	}
	for _, a := range c.Args {
		ev.Args = append(ev.Args, s.val(st, a))
	}
	ts := s.Ix.targets(fr.fn, c)
	var uniq *ssa.Function
	if c.IsInvoke() {
		impls := s.P.Callees(c)
		if len(impls) == 1 {
			uniq = impls[0]
		}
	} else if f := c.StaticCallee(); f != nil {
		uniq = f
	}
	_ = ts
	if uniq != nil && inModule(uniq) {
		ev.Fn = uniq
		ev.Callee = fnKey(uniq)
	} else {
		ev.Callee = extCalleeName(c)
	}
	return ev
}

var intrinsicState = map[string]bool{
	"pokerface.(*player).State": true,
}

func (s *Summ) call(fr *frame, x *ssa.Call, b *ssa.BasicBlock, i int, from *ssa.BasicBlock, st *state, k cont) {
	c := x.Common()
	// builtins
	if bi, ok := c.Value.(*ssa.Builtin); ok {
		var args []*Val
		for _, a := range c.Args {
			args = append(args, s.val(st, a))
		}
		switch bi.Name() {
		case "len", "cap":
			if args[0].K == KConst && isQuoted(args[0].S) {
				st.env[x] = vInt(int64(len(args[0].S) - 2))
			} else if args[0].Op == "makeslice" && len(args[0].Args) == 1 && bi.Name() == "len" {
				st.env[x] = args[0].Args[0]
			} else {
				st.env[x] = vAff(affTerm(bi.Name() + "(" + args[0].String() + ")"))
			}
		case "append":
			if len(args) == 2 && args[0].Op == "list" && args[1].Op == "list" {
				st.env[x] = vOp("list", append(append([]*Val(nil), args[0].Args...), args[1].Args...)...)
			} else {
				st.env[x] = vOp("append", args...)
			}
		case "delete":
			ev := &Event{Kind: "call", Instr: x, Callee: "builtin.delete", Args: args, Depth: fr.depth, InFn: fr.fn, Pos: s.P.InstrPos(x)}
			st.events = append(st.events, ev)
			s.havocKey(st, "map:"+typeShort(c.Args[0].Type()))
			st.epoch++
		default:
			st.env[x] = s.retype(vOp("builtin."+bi.Name(), args...), x.Type())
		}
		s.execFrom(fr, b, i+1, from, st, k)
		return
	}
	ev := s.callEvent(fr, "call", x, st)
	// alias intrinsic: Player.State() / (*player).State()
	if s.EngineAliases && (ev.Callee == "pokerface.(*player).State" || (c.IsInvoke() && c.Method.Name() == "State" && typeShort(x.Type()) == "*pokerface.PlayerState")) {
		st.env[x] = &Val{K: KSym, S: "PS(" + ev.Args[0].String() + ")", Typ: "*pokerface.PlayerState"}
		s.execFrom(fr, b, i+1, from, st, k)
		return
	}
	// inline small loop-free module functions
	helper := ev.Fn != nil && s.HelperInline != nil && fr.depth < 4 && !s.NoInline[ev.Callee] && !st.onstack[ev.Fn] && ev.Fn.Blocks != nil && ev.Fn.Recover == nil && !hasDefer(ev.Fn) && s.HelperInline(ev.Fn)
	if helper || ev.Fn != nil && !s.NoInline[ev.Callee] && !st.onstack[ev.Fn] && s.inlinable(ev.Fn) &&
		((fr.depth < s.MaxDepth && (s.InlineFilter == nil || s.InlineFilter(ev.Fn))) || (s.AlwaysInline[ev.Fn] && fr.depth < s.MaxDepth+2)) {
		callee := ev.Fn
		s.nframes++
		nfr := &frame{fn: callee, depth: fr.depth + 1, id: s.nframes}
		ns := st
		ns.onstack[callee] = true
		// mark the inlined call (no havoc, effects appear as their own events)
		mark := &Event{Kind: "enter", Instr: x, Callee: ev.Callee, Fn: callee, Args: ev.Args, Depth: fr.depth, InFn: fr.fn, Pos: ev.Pos}
		ns.events = append(ns.events, mark)
		s.bindParams(callee, ns, ev.Args)
		s.execBlock(nfr, callee.Blocks[0], nil, ns, func(st2 *state, ret []*Val, ri *ssa.Return, end string) {
			if end != "return" {
				k(st2, ret, ri, end)
				return
			}
			delete(st2.onstack, callee)
			st2.events = append(st2.events, &Event{Kind: "leave", Instr: x, Callee: ev.Callee, Fn: callee, Depth: fr.depth, InFn: fr.fn, Pos: ev.Pos})
			switch len(ret) {
			case 0:
			case 1:
				st2.env[x] = ret[0]
			default:
				st2.env[x] = &Val{K: KTuple, Args: ret}
			}
			s.execFrom(fr, b, i+1, from, st2, k)
		})
		return
	}
	// opaque call: event + havoc of the callee's transitive write set
	st.events = append(st.events, ev)
	wrote := false
	for _, t := range s.Ix.targets(fr.fn, c) {
		if ti := s.Ix.Info[t]; ti != nil {
			for kx := range ti.TWrites {
				s.havocKey(st, kx)
				wrote = true
			}
		}
	}
	if ev.Fn == nil && !pureExternal(ev.Callee) {
		wrote = true
	}
	if ev.Callee == "sort.Slice" || strings.HasPrefix(ev.Callee, "math/rand.") {
		wrote = true
	}
	var as []string
	for _, a := range ev.Args {
		as = append(as, a.String())
	}
	name := ev.Callee + "(" + strings.Join(as, ", ") + ")"
	if st.epoch > 0 && s.readsWritten(fr.fn, c, st) {
		name = fmt.Sprintf("%s@%d", name, st.epoch)
	}
	if wrote {
		st.epoch++
	}
	res := &Val{K: KSym, S: name, Op: "call", Args: ev.Args}
	sig := c.Signature()
	switch sig.Results().Len() {
	case 0:
	case 1:
		r := s.retypeCall(res, sig.Results().At(0).Type())
		if ev.Fn != nil && s.NilFns[ev.Fn] && typeShort(sig.Results().At(0).Type()) == "error" {
			r = vConst("nil")
		}
		st.env[x] = r
		ev.Res = r
	default:
		var parts []*Val
		for j := 0; j < sig.Results().Len(); j++ {
			pj := &Val{K: KSym, S: fmt.Sprintf("%s#%d", name, j), Op: "call", Args: ev.Args}
			parts = append(parts, s.retypeCall(pj, sig.Results().At(j).Type()))
		}
		t := &Val{K: KTuple, Args: parts}
		st.env[x] = t
		ev.Res = t
	}
	s.execFrom(fr, b, i+1, from, st, k)
}

// readsWritten: may the callee observe anything written so far on this path? Unknown
// callees are assumed to.
func (s *Summ) readsWritten(fn *ssa.Function, c *ssa.CallCommon, st *state) bool {
	ts := s.Ix.targets(fn, c)
	if len(ts) == 0 {
		return true
	}
	for _, t := range ts {
		ti := s.Ix.Info[t]
		if ti == nil {
			return true
		}
		for k := range ti.TReads {
			if st.written[k] {
				return true
			}
		}
		for e := range ti.TExt {
			if !pureExternal(e) || strings.HasPrefix(e, "time.") || strings.HasPrefix(e, "math/rand.") {
				return true
			}
		}
	}
	return false
}

func (s *Summ) retypeCall(v *Val, t types.Type) *Val {
	if isIntType(t) {
		r := vAff(affTerm(v.S))
		r.Args = []*Val{v}
		return r
	}
	if isBoolType(t) {
		return vAtom(&Atom{Op: "b", L: v.S}, false)
	}
	v.Typ = typeShort(t)
	return s.alias(v, t)
}

func hasDefer(fn *ssa.Function) bool {
	for _, b := range fn.Blocks {
		for _, in := range b.Instrs {
			if _, ok := in.(*ssa.Defer); ok {
				return true
			}
		}
	}
	return false
}

// privateHelper: an unexported, named function or method of the same package as owner.
func privateHelper(owner, fn *ssa.Function) bool {
	if fn == nil || owner == nil || fn.Parent() != nil || fn.Pkg == nil || owner.Pkg == nil || fn.Pkg != owner.Pkg {
		return false
	}
	return !token.IsExported(fn.Name())
}

func (s *Summ) inlinable(fn *ssa.Function) bool {
	if fn.Blocks == nil || len(fn.Blocks) > 40 {
		return false
	}
	if len(s.loops(fn)) > 0 {
		return false
	}
	if fn.Recover != nil {
		return false
	}
	for _, b := range fn.Blocks {
		for _, in := range b.Instrs {
			if _, ok := in.(*ssa.Defer); ok {
				return false
			}
		}
	}
	return true
}

// ---------------------------------------------------------------------------------------
// helpers over summaries

// storesTo returns the store events on the path whose typed field key matches.
func (ps *PathSum) storesTo(fkey string) []*Event {
	var out []*Event
	for _, e := range ps.Events {
		if (e.Kind == "store" || e.Kind == "mapupdate") && e.FKey == fkey {
			out = append(out, e)
		}
	}
	return out
}

func dumpPaths(paths []*PathSum) []string {
	var out []string
	for i, p := range paths {
		var evs []string
		for _, e := range p.Events {
			if e.Kind == "enter" || e.Kind == "leave" {
				continue
			}
			evs = append(evs, e.String())
		}
		var rs []string
		for _, r := range p.Ret {
			rs = append(rs, r.String())
		}
		out = append(out, fmt.Sprintf("path %d [%s]: if %s; do %s; ret (%s)", i, p.End, p.CondString(), strings.Join(evs, "; "), strings.Join(rs, ", ")))
	}
	sort.Strings(out)
	return out
}
