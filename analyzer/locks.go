package main

import (
	"fmt"
	"go/token"
	"go/types"
	"sort"

	"golang.org/x/tools/go/ssa"
)

// E9 — lock typestate and sentinel-use rules.

// ---------------------------------------------------------------------------------------
// lock typestate

type lockInfo struct {
	Kind     string // "", "Lock", "RLock"
	Deferred bool   // matching deferred unlock present
	First    bool   // acquired before any other call or guarded access
}

func mutexCall(in ssa.Instruction, recv *ssa.Parameter, muField string) string {
	var cc *ssa.CallCommon
	switch x := in.(type) {
	case *ssa.Call:
		cc = x.Common()
	case *ssa.Defer:
		cc = x.Common()
	default:
		return ""
	}
	f := cc.StaticCallee()
	if f == nil || f.Pkg == nil || f.Pkg.Pkg.Path() != "sync" || len(cc.Args) == 0 {
		return ""
	}
	fa, ok := cc.Args[0].(*ssa.FieldAddr)
	if !ok || fa.X != ssa.Value(recv) {
		return ""
	}
	_, st := namedStruct(fa.X.Type())
	if st == nil || st.Field(fa.Field).Name() != muField {
		return ""
	}
	return f.Name()
}

func lockState(fn *ssa.Function, muField string) lockInfo {
	li := lockInfo{}
	if len(fn.Params) == 0 || len(fn.Blocks) == 0 {
		return li
	}
	recv := fn.Params[0]
	seenOther := false
	for _, in := range fn.Blocks[0].Instrs {
		switch m := mutexCall(in, recv, muField); m {
		case "Lock", "RLock":
			if _, isCall := in.(*ssa.Call); isCall && li.Kind == "" {
				li.Kind = m
				li.First = !seenOther
			}
		case "Unlock", "RUnlock":
			if _, isDefer := in.(*ssa.Defer); isDefer {
				if (m == "Unlock" && li.Kind == "Lock") || (m == "RUnlock" && li.Kind == "RLock") {
					li.Deferred = true
				}
			}
		default:
			switch x := in.(type) {
			case *ssa.Call:
				if _, isB := x.Call.Value.(*ssa.Builtin); !isB {
					seenOther = true
				}
			case *ssa.Store, *ssa.MapUpdate:
				seenOther = true
			case *ssa.UnOp:
				if x.Op == token.MUL {
					if fa, ok := x.X.(*ssa.FieldAddr); ok && fa.X != ssa.Value(recv) {
						seenOther = true
					}
				}
			}
		}
	}
	// explicit release on every path to every return is accepted as well
	if li.Kind != "" && !li.Deferred {
		var lockIn ssa.Instruction
		for _, in := range fn.Blocks[0].Instrs {
			if m := mutexCall(in, recv, muField); m == li.Kind {
				if _, isCall := in.(*ssa.Call); isCall {
					lockIn = in
					break
				}
			}
		}
		want := "Unlock"
		if li.Kind == "RLock" {
			want = "RUnlock"
		}
		all := lockIn != nil
		nRet := 0
		for _, b := range fn.Blocks {
			if r, ok := b.Instrs[len(b.Instrs)-1].(*ssa.Return); ok {
				nRet++
				if !mustPassThrough(lockIn, r, func(in ssa.Instruction) bool { return mutexCall(in, recv, muField) == want }) {
					all = false
				}
			}
		}
		if all && nRet > 0 {
			li.Deferred = true
		}
	}
	return li
}

// ---------------------------------------------------------------------------------------
// sentinel-returning helpers

type sentinelRes struct {
	Fn   *ssa.Function
	Idx  int
	Kind string // "nil" or "-1"
}

func retLeaves(v ssa.Value, seen map[ssa.Value]bool, out *[]ssa.Value) {
	if seen[v] {
		return
	}
	seen[v] = true
	if phi, ok := v.(*ssa.Phi); ok {
		for _, e := range phi.Edges {
			retLeaves(e, seen, out)
		}
		return
	}
	*out = append(*out, v)
}

// findSentinels: results that are literally nil / -1 on one return and something else on another.
func findSentinels(p *Prog, pkg string) []sentinelRes {
	var out []sentinelRes
	for _, fn := range p.Funcs {
		if fn.Pkg == nil || shortPkg(fn.Pkg.Pkg.Path()) != pkg || fn.Parent() != nil {
			continue
		}
		n := fn.Signature.Results().Len()
		for i := 0; i < n; i++ {
			var leaves []ssa.Value
			for _, b := range fn.Blocks {
				if r, ok := b.Instrs[len(b.Instrs)-1].(*ssa.Return); ok && i < len(r.Results) {
					retLeaves(r.Results[i], map[ssa.Value]bool{}, &leaves)
				}
			}
			hasNil, hasM1, hasOther := false, false, false
			for _, l := range leaves {
				if isNilConst(l) {
					hasNil = true
				} else if c, ok := constInt(l); ok && c == -1 {
					hasM1 = true
				} else {
					hasOther = true
				}
			}
			t := fn.Signature.Results().At(i).Type()
			if hasNil && hasOther {
				if _, isPtr := t.Underlying().(*types.Pointer); isPtr {
					out = append(out, sentinelRes{fn, i, "nil"})
				}
			}
			if hasM1 && hasOther && isIntType(t) {
				out = append(out, sentinelRes{fn, i, "-1"})
			}
		}
	}
	sort.Slice(out, func(i, j int) bool {
		return fnKey(out[i].Fn)+fmt.Sprint(out[i].Idx) < fnKey(out[j].Fn)+fmt.Sprint(out[j].Idx)
	})
	return out
}

type dangerUse struct {
	Instr ssa.Instruction
	What  string
}

// dangerousUses: uses of v as a dereferenced pointer, slice bound or index (following phis).
func dangerousUses(v ssa.Value, kind string) []dangerUse {
	var out []dangerUse
	seen := map[ssa.Value]bool{}
	var visit func(x ssa.Value)
	visit = func(x ssa.Value) {
		if seen[x] || x.Referrers() == nil {
			return
		}
		seen[x] = true
		for _, ref := range *x.Referrers() {
			switch u := ref.(type) {
			case *ssa.FieldAddr:
				if u.X == x {
					out = append(out, dangerUse{u, "field access"})
				}
			case *ssa.Field:
				if u.X == x {
					out = append(out, dangerUse{u, "field access"})
				}
			case *ssa.UnOp:
				if u.X == x && u.Op == token.MUL {
					out = append(out, dangerUse{u, "dereference"})
				}
			case *ssa.Slice:
				if u.Low == x || u.High == x || u.Max == x {
					out = append(out, dangerUse{u, "slice bound"})
				}
			case *ssa.IndexAddr:
				if u.Index == x {
					out = append(out, dangerUse{u, "index"})
				}
			case *ssa.Index:
				if u.Index == x {
					out = append(out, dangerUse{u, "index"})
				}
			case *ssa.Phi:
				visit(u)
			}
		}
	}
	visit(v)
	return out
}

// checkedNonSentinel: is use dominated by the non-sentinel edge of a test of one of vals?
func checkedNonSentinel(use ssa.Instruction, vals []ssa.Value, kinds []string) bool {
	fn := use.Parent()
	for _, b := range fn.Blocks {
		ifi, ok := b.Instrs[len(b.Instrs)-1].(*ssa.If)
		if !ok {
			continue
		}
		cmp, ok := ifi.Cond.(*ssa.BinOp)
		if !ok {
			continue
		}
		for i, v := range vals {
			var okSucc *ssa.BasicBlock
			if kinds[i] == "nil" {
				if (cmp.X == v && isNilConst(cmp.Y)) || (cmp.Y == v && isNilConst(cmp.X)) {
					switch cmp.Op {
					case token.EQL:
						okSucc = b.Succs[1]
					case token.NEQ:
						okSucc = b.Succs[0]
					}
				}
			} else {
				if cmp.X == v {
					if c, isC := constInt(cmp.Y); isC {
						switch {
						case cmp.Op == token.LSS && c <= 0, cmp.Op == token.EQL && c == -1, cmp.Op == token.LEQ && c == -1:
							okSucc = b.Succs[1]
						case cmp.Op == token.GEQ && c >= 0, cmp.Op == token.NEQ && c == -1, cmp.Op == token.GTR && c >= -1:
							okSucc = b.Succs[0]
						}
					}
				}
			}
			if okSucc == nil {
				continue
			}
			// the edge must be the only way into okSucc, and okSucc must dominate the use
			if len(okSucc.Preds) == 1 && (okSucc == use.Block() || okSucc.Dominates(use.Block())) {
				return true
			}
		}
	}
	return false
}

// dominatingCountTest: is instruction use dominated by the edge of a test "count(recv) op k"
// that implies count >= need, where count is a call of one of countFns?
func dominatingCountTest(use ssa.Instruction, countFns map[*ssa.Function]bool, need int64) bool {
	fn := use.Parent()
	for _, b := range fn.Blocks {
		ifi, ok := b.Instrs[len(b.Instrs)-1].(*ssa.If)
		if !ok {
			continue
		}
		cmp, at, neg, ok := countComparison(ifi.Cond, countFns, 0)
		if !ok {
			continue
		}
		succs := b.Succs
		if neg {
			succs = []*ssa.BasicBlock{b.Succs[1], b.Succs[0]}
		}
		b := struct{ Succs []*ssa.BasicBlock }{succs}
		call := at
		k, ok := constInt(cmp.Y)
		if !ok {
			continue
		}
		var okSucc *ssa.BasicBlock
		switch cmp.Op {
		case token.EQL: // count == k
			if k >= need {
				okSucc = b.Succs[0]
			}
		case token.GEQ: // count >= k
			if k >= need {
				okSucc = b.Succs[0]
			}
		case token.GTR: // count > k
			if k+1 >= need {
				okSucc = b.Succs[0]
			}
		case token.LSS: // count < k : false edge gives count >= k
			if k >= need {
				okSucc = b.Succs[1]
			}
		case token.LEQ: // count <= k : false edge gives count >= k+1
			if k+1 >= need {
				okSucc = b.Succs[1]
			}
		}
		if okSucc == nil || len(okSucc.Preds) != 1 {
			continue
		}
		// no state change between the test and the use is assumed within one critical section:
		// require that the call computing the count is in the same block as the If (fresh value)
		if call.Block() != ifi.Block() {
			continue
		}
		if okSucc == use.Block() || okSucc.Dominates(use.Block()) {
			return true
		}
	}
	return false
}

// countComparison reads a branch condition as "count OP constant": the comparison itself, its
// negation, or a call of a loop-free bool helper that returns one of these. at is the instruction
// of the branching function that computes it (the count call or the helper call).
func countComparison(cond ssa.Value, countFns map[*ssa.Function]bool, depth int) (cmp *ssa.BinOp, at ssa.Instruction, neg bool, ok bool) {
	if depth > 2 {
		return nil, nil, false, false
	}
	switch x := cond.(type) {
	case *ssa.BinOp:
		call, isCall := x.X.(*ssa.Call)
		if !isCall || call.Common().StaticCallee() == nil || !countFns[call.Common().StaticCallee()] {
			return nil, nil, false, false
		}
		return x, call, false, true
	case *ssa.UnOp:
		if x.Op != token.NOT {
			return nil, nil, false, false
		}
		c, a, n, o := countComparison(x.X, countFns, depth+1)
		return c, a, !n, o
	case *ssa.Call:
		h := x.Common().StaticCallee()
		if h == nil || len(h.Blocks) != 1 || len(h.Params) > 1 {
			return nil, nil, false, false
		}
		r, isRet := h.Blocks[0].Instrs[len(h.Blocks[0].Instrs)-1].(*ssa.Return)
		if !isRet || len(r.Results) != 1 {
			return nil, nil, false, false
		}
		c, _, n, o := countComparison(r.Results[0], countFns, depth+1)
		return c, x, n, o
	}
	return nil, nil, false, false
}
