package main

import (
	"fmt"
	"strings"

	"golang.org/x/tools/go/ssa"
)

// E3 — guard / refusal rules over path summaries.

// effectOf says whether an event changes state visible outside the summarised function.
func (c *Ctx) effectOf(e *Event) (bool, string) {
	ix := c.P.Index()
	switch e.Kind {
	case "store", "mapupdate":
		if e.Fresh {
			return false, ""
		}
		if strings.HasPrefix(e.Loc, "new") || strings.HasPrefix(e.Loc, "makemap#") {
			return false, ""
		}
		return true, "store " + e.Loc
	case "send", "go":
		return true, e.Kind
	case "loop":
		for blk := range e.Loop.Blocks {
			for _, in := range blk.Instrs {
				if eff, why := ix.instrEffect(e.InFn, in); eff {
					return true, "loop body: " + why
				}
			}
		}
		return false, ""
	case "call", "defer":
		if e.Instr == nil {
			return false, ""
		}
		ci, ok := e.Instr.(ssa.CallInstruction)
		if !ok {
			return false, ""
		}
		return ix.instrEffect(e.InFn, ci.(ssa.Instruction))
	}
	return false, ""
}

func (c *Ctx) pathEffects(ps *PathSum) []string {
	var out []string
	for _, e := range ps.Events {
		if eff, why := c.effectOf(e); eff {
			out = append(out, why+" ("+e.Pos+")")
		}
	}
	return out
}

// sentinelError recognises "return <package-level error variable>" where the variable is
// initialised once by errors.New in the package initialiser and stored nowhere else:
// definitely non-nil.
func (c *Ctx) sentinelError(v *Val) (string, bool) {
	if v == nil || v.K != KSym || !strings.HasPrefix(v.S, "global:") {
		return "", false
	}
	name := strings.TrimPrefix(v.S, "global:")
	return name, c.P.isSentinelGlobal(name)
}

var sentinelCache map[string]bool

func (p *Prog) isSentinelGlobal(name string) bool {
	if sentinelCache == nil {
		sentinelCache = map[string]bool{}
		// candidates: globals of type error stored in init from errors.New
		for path, sp := range p.SPkgs {
			initFn := sp.Func("init")
			if initFn == nil {
				continue
			}
			for _, b := range initFn.Blocks {
				for _, in := range b.Instrs {
					st, ok := in.(*ssa.Store)
					if !ok {
						continue
					}
					g, ok := st.Addr.(*ssa.Global)
					if !ok {
						continue
					}
					call, ok := st.Val.(*ssa.Call)
					if !ok || extCalleeName(call.Common()) != "errors.New" {
						continue
					}
					sentinelCache[shortPkg(path)+"."+g.Name()] = true
				}
			}
		}
		// any store outside init disqualifies
		for _, fn := range p.Funcs {
			if fn.Name() == "init" && fn.Signature.Recv() == nil {
				continue
			}
			for _, b := range fn.Blocks {
				for _, in := range b.Instrs {
					if st, ok := in.(*ssa.Store); ok {
						if g, ok := st.Addr.(*ssa.Global); ok && g.Pkg != nil {
							delete(sentinelCache, shortPkg(g.Pkg.Pkg.Path())+"."+g.Name())
						}
					}
				}
			}
		}
	}
	return sentinelCache[name]
}

// guardSpec describes a guard atom: match returns (isGuard, passPolarity): the path
// passes the guard when the atom's truth (not Neg) equals passPolarity.
type guardSpec struct {
	Name  string
	Match func(v *Val) (bool, bool)
}

// phaseGuard: Status.CurrentEvent == "<sym>"
func phaseGuardAtom(v *Val) (sym string, ok bool) {
	if v.K != KAtom || v.At.Op != "is" {
		return "", false
	}
	l, r := v.At.L, v.At.R
	if r == "GS.Status.CurrentEvent" && isQuoted(l) {
		return strings.Trim(l, `"`), true
	}
	if l == "GS.Status.CurrentEvent" && isQuoted(r) {
		return strings.Trim(r, `"`), true
	}
	return "", false
}

// actionGuardAtom: CheckAction(<recv>, "<a>")
func actionGuardAtom(v *Val) (action string, ok bool) {
	if v.K != KAtom || v.At.Op != "b" {
		return "", false
	}
	l := v.At.L
	i := strings.Index(l, "CheckAction(")
	if i < 0 {
		return "", false
	}
	rest := l[i+len("CheckAction("):]
	j := strings.Index(rest, `"`)
	k := strings.LastIndex(rest, `"`)
	if j < 0 || k <= j {
		return "", false
	}
	return rest[j+1 : k], true
}

// checkRefusal applies the three E3 conditions to fn's path summaries for the guard
// selected by isGuard (returns the guard constant and whether the atom passes when true).
//
//	(1) every path with a state effect has passed the guard before its first effect;
//	(2) every path that fails the guard returns a definitely-non-nil sentinel error and
//	    has no effect;
//	(3) every path returning a sentinel error is effect-free.
//
// It reports one obligation per (fn, rule-part) and returns the guard constants seen.
func (c *Ctx) checkRefusal(rule string, fn *ssa.Function, depth int, isGuard func(v *Val) (string, bool), wantConst string) (consts []string) {
	p := c.P
	key := fnKey(fn)
	c.touch(key)
	s := newSumm(p, depth)
	paths, cut := s.Function(fn)
	if cut != "" {
		c.undecided(rule, key, p.FnPos(fn), "path summary cut: "+cut)
		return nil
	}
	seen := map[string]bool{}
	var v1, v2, v3 []string
	nGuarded := 0
	for _, ps := range paths {
		if strings.HasPrefix(ps.End, "cut") {
			c.undecided(rule, key, p.FnPos(fn), "path summary incomplete: "+ps.End)
			return nil
		}
		// position of the guard decision on this path and of the first effect
		passed := false
		failed := false
		guardIdx := -1
		for i, cd := range ps.Conds {
			if g, ok := isGuard(cd.V); ok && (wantConst == "" || g == wantConst) {
				seen[g] = true
				if guardIdx < 0 {
					guardIdx = i
					if cd.V.Neg {
						failed = true
					} else {
						passed = true
					}
				}
			}
		}
		effects := c.pathEffects(ps)
		if guardIdx >= 0 {
			nGuarded++
		}
		// (1) effects only after a passed guard: since conds and events are separate lists,
		// use block order: an effect event's block must come after the guard's block on the path.
		if len(effects) > 0 {
			if !passed {
				v1 = append(v1, fmt.Sprintf("path [%s] has effect %s without passing the guard", ps.CondString(), effects[0]))
			} else {
				// ordering: no effect event may precede the guard decision
				for ei, e := range ps.Events {
					if ei >= ps.Conds[guardIdx].NEv {
						break
					}
					if eff, why := c.effectOf(e); eff {
						v1 = append(v1, fmt.Sprintf("effect %s (%s) precedes the guard decision", why, e.Pos))
						break
					}
				}
			}
		}
		// (2) failing paths refuse
		if failed || (guardIdx < 0 && ps.End == "return") {
			if guardIdx < 0 {
				// a path that never meets the guard: only acceptable if it is itself a refusal
				if len(ps.Ret) > 0 {
					if _, ok := c.sentinelError(ps.Ret[len(ps.Ret)-1]); ok && len(effects) == 0 {
						continue
					}
				}
				v2 = append(v2, fmt.Sprintf("path [%s] reaches a return without meeting the guard", ps.CondString()))
				continue
			}
			name, ok := "", false
			if len(ps.Ret) > 0 {
				name, ok = c.sentinelError(ps.Ret[len(ps.Ret)-1])
			}
			if !ok {
				rv := "<nothing>"
				if len(ps.Ret) > 0 {
					rv = ps.Ret[len(ps.Ret)-1].String()
				}
				pos := "-"
				if ps.RetInstr != nil {
					pos = p.InstrPos(ps.RetInstr)
				}
				v2 = append(v2, fmt.Sprintf("refusing path returns %s at %s, not a definitely non-nil error", rv, pos))
			}
			_ = name
		}
		// (3) sentinel returns are effect-free
		if len(ps.Ret) > 0 {
			if name, ok := c.sentinelError(ps.Ret[len(ps.Ret)-1]); ok && len(effects) > 0 {
				v3 = append(v3, fmt.Sprintf("path returning %s has effect %s", name, effects[0]))
			}
		}
	}
	for g := range seen {
		consts = append(consts, g)
	}
	if len(seen) == 0 {
		c.bad(rule, key+"#guard", p.FnPos(fn), "no guard of the expected kind on any path: the operation is never refused")
		return nil
	}
	c.Sites += len(paths)
	c.check(len(v1) == 0, rule, key+"#effects-after-guard", p.FnPos(fn),
		fmt.Sprintf("all state effects on %d paths come after the passed guard %v", len(paths), consts), "state effect not dominated by the guard", uniq(v1, 5)...)
	c.check(len(v2) == 0, rule, key+"#refusal-returns-error", p.FnPos(fn),
		"every refusing path returns a definitely non-nil sentinel error", "refusal does not return an error", uniq(v2, 5)...)
	c.check(len(v3) == 0, rule, key+"#error-is-effect-free", p.FnPos(fn),
		"every path returning a sentinel error is effect-free", "an error is returned after the state was changed", uniq(v3, 5)...)
	return consts
}

func uniq(xs []string, max int) []string {
	seen := map[string]bool{}
	var out []string
	for _, x := range xs {
		if !seen[x] {
			seen[x] = true
			out = append(out, x)
		}
	}
	if len(out) > max {
		out = append(out[:max], fmt.Sprintf("... and %d more", len(out)-max))
	}
	return out
}
