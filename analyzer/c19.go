package main

import (
	"fmt"
	"regexp"
	"sort"
	"strconv"
	"strings"

	"golang.org/x/tools/go/ssa"
)

func init() {
	register(&propDef{
		ID: "C19", Level: "other", Run: withShared(runC19, share{"C09", runC09, ruleIs("counter-lockstep")}),
		Explanation: "THIN: only the gating and bounding clauses of the property are decided, not the capacity bound itself. The request-table callback is invoked from one function only; every call chain to it from an exported method passes the Pending->Normal transition of SetStatus or the status != Pending test of the queue entry; with no table yet it is dominated by playerCount >= minInitialPlayers and by the queue holding at least that many; every iteration that opens a table is entered under waterLevel >= minInitialPlayers and pops either the water level or, for the last table, the whole queue when that is below the maximum; the players handed to the assign callback are at most the table's outstanding requirement, which is decremented by the same amount; a top-up pops at most the computed count. That the water level itself never exceeds the capacity, and that initial tables get at least the minimum, is floor/ceil arithmetic over settings and is NOT decided (a counterexample for (max 6, min 5, 13 registrants) is visible by hand, see DESIGN.md). After a top-up Required is the unmet remainder; counters move in lock-step (shared with C09).",
		Trusted:     commonTrusted,
		Assumptions: []string{"status constants are resolved by name (exported API)"},
		NotCovered:  "the capacity bound itself (water-level arithmetic); 'every initially opened table gets at least the minimum'",
	})
}

func runC19(c *Ctx) {
	p := c.P
	ix := p.Index()
	ra := resolveRegAnchors(p)
	// ---- start-gating: who calls the request-table callback
	var opener *ssa.Function
	nSites := 0
	for _, fn := range p.Funcs {
		if fn.Pkg == nil || shortPkg(fn.Pkg.Pkg.Path()) != regPkg {
			continue
		}
		for _, b := range fn.Blocks {
			for _, in := range b.Instrs {
				call, ok := in.(*ssa.Call)
				if !ok || call.Call.IsInvoke() || call.Call.StaticCallee() != nil {
					continue
				}
				if loadsField(call.Call.Value, "regulator.regulator.requestTableFn") {
					nSites++
					opener = fn
				}
			}
		}
	}
	if opener == nil || nSites != 1 {
		c.check(false, "start-gating", "request-table-call-sites", "-", "", fmt.Sprintf("the request-table callback is invoked from %d sites, expected exactly one", nSites))
		return
	}
	if ra2 := resolveRegAnchors(p); ra2.openerCore == opener && ra2.opener != nil {
		opener = ra2.opener // the call sits in a helper of the function that pops the players
	}
	c.role("table opener", fnKey(opener))
	c.ok("start-gating", "request-table-call-sites", p.FnPos(opener), "the request-table callback is invoked from one site, in "+fnKey(opener))
	pending, ok1 := lookupIntConst(p, regPkg, "CompetitionStatus_Pending")
	normal, ok2 := lookupIntConst(p, regPkg, "CompetitionStatus_Normal")
	if !ok1 || !ok2 {
		c.undecided("start-gating", "status-constants", "-", "status constants not found")
		return
	}
	isPendingAtom := func(v *Val, neg bool) bool {
		want := "recv.status"
		if pending != 0 {
			want = fmt.Sprintf("recv.status - %d", pending)
		}
		return v.K == KAtom && v.At.Op == "eq" && v.Neg == neg && v.At.A.String() == want
	}
	// chains: opener <- drain <- {SetStatus, enterWaitingQueue}
	callers := ix.Callers(opener)
	var bad []string
	for _, drain := range callers {
		c.touch(fnKey(drain))
		// (1) in drain: the call with no table yet is dominated by len(queue) >= minInitialPlayers
		s := regSumm(p, 0)
		dp, _ := s.Function(drain)
		for _, ps := range dp {
			if len(callsTo(ps, opener)) == 0 {
				continue
			}
			noTable := hasCond(ps, func(v *Val) bool {
				return v.K == KAtom && v.At.Op == "eq" && !v.Neg && v.At.A.String() == "recv.tableCount"
			})
			if noTable && !hasCond(ps, func(v *Val) bool {
				return ltIs(v, "-len(recv.waitingQueue) + recv.minInitialPlayers - 1")
			}) {
				// the other way to reach it with tableCount==0 is contradictory (tableCount > 0 tested later): accept if path also has tableCount > 0
				if !hasCond(ps, func(v *Val) bool { return ltIs(v, "-recv.tableCount") }) {
					bad = append(bad, fnKey(drain)+" opens the first table without the queue holding the minimum initial players: path ["+ps.CondString()+"]")
				}
			}
		}
		// (2) every caller of drain is status-gated
		for _, up := range ix.Callers(drain) {
			c.touch(fnKey(up))
			s2 := regSumm(p, 0)
			upp, _ := s2.Function(up)
			for _, ps := range upp {
				if len(callsTo(ps, drain)) == 0 {
					continue
				}
				gated := hasCond(ps, func(v *Val) bool { return isPendingAtom(v, true) }) // status != Pending
				trans := hasCond(ps, func(v *Val) bool { return isPendingAtom(v, false) }) && hasCond(ps, func(v *Val) bool {
					return v.K == KAtom && v.At.Op == "eq" && !v.Neg && v.At.A.String() == fmt.Sprintf("param:status - %d", normal)
				})
				if !gated && !trans {
					bad = append(bad, fnKey(up)+" drains the queue (and may open tables) without the competition having started: path ["+ps.CondString()+"]")
				}
			}
		}
	}
	c.check(len(bad) == 0 && len(callers) > 0, "start-gating", "call-chains", p.FnPos(opener), "tables are opened only after the Pending->Normal transition or under status != Pending, and the first one only with the minimum initial players queued", "a table can be opened before the competition starts or before enough players registered", uniq(bad, 4)...)
	// (3) inside the opener
	{
		c.touch(fnKey(opener))
		s := regSumm(p, 0)
		s.HelperInline = resolveRegAnchors(p).helperFilter(p, opener)
		fp, _ := s.Function(opener)
		var bad2 []string
		// with no table yet: paths reaching the loop have playerCount >= minInitialPlayers
		for _, ps := range fp {
			reachesLoop := false
			for _, e := range ps.Events {
				if e.Kind == "loop" {
					reachesLoop = true
				}
			}
			noTable := hasCond(ps, func(v *Val) bool {
				return v.K == KAtom && v.At.Op == "eq" && !v.Neg && v.At.A.String() == "recv.tableCount"
			})
			if reachesLoop && noTable && !hasCond(ps, func(v *Val) bool {
				return ltIs(v, "recv.minInitialPlayers - recv.playerCount - 1")
			}) {
				bad2 = append(bad2, "the first tables are allocated without the test playerCount >= minInitialPlayers")
			}
		}
		nOpen := 0
		for _, l := range s.loops(opener) {
			body, _ := s.LoopBody(opener, l)
			for _, bp := range body {
				var req, pop *Event
				for _, e := range bp.Events {
					if e.Kind == "call" && strings.HasPrefix(e.Callee, "dynamic:") && len(e.Args) == 1 {
						req = e
					}
					if e.Kind == "call" && e.Fn != nil && ra.poppers[e.Fn] {
						pop = e
					}
				}
				if req == nil {
					continue
				}
				nOpen++
				// water level >= minInitialPlayers on this iteration
				wl := ""
				for _, cd := range bp.Conds {
					// waterLevel >= minInitialPlayers  ==  min - wl - 1 < 0
					if a, ok := ltForm(cd.V); ok && a.C == -1 && len(a.T) == 2 && a.T["recv.minInitialPlayers"] == 1 {
						for t, co := range a.T {
							if co == -1 && strings.HasPrefix(t, "iter:") {
								wl = t
							}
						}
					}
				}
				if wl == "" {
					bad2 = append(bad2, "a table is opened in an iteration not guarded by waterLevel >= minInitialPlayers")
					continue
				}
				if pop == nil {
					bad2 = append(bad2, "a table is opened with players that were not popped from the queue")
					continue
				}
				size := pop.Args[1].String()
				switch size {
				case wl:
				case "len(recv.waitingQueue)":
					// the rest of the queue for the last table: only when it is above the water level and below the maximum
					a := hasCond(bp, func(v *Val) bool {
						return ltIs(v, wl+" - len(recv.waitingQueue)")
					})
					b := hasCond(bp, func(v *Val) bool {
						return ltIs(v, "len(recv.waitingQueue) - recv.maxPlayersPerTable")
					})
					if !a || !b {
						bad2 = append(bad2, "the whole queue is put on one table without the test len(queue) < maxPlayersPerTable")
					}
				default:
					bad2 = append(bad2, "a new table is given "+size+" players, neither the water level nor the bounded rest of the queue")
				}
			}
		}
		c.check(len(bad2) == 0 && nOpen >= 4, "start-gating", fnKey(opener)+"#iterations", p.FnPos(opener), "every table-opening iteration runs under waterLevel >= minInitialPlayers and pops the water level or the bounded rest of the queue", "table sizes are not gated", uniq(bad2, 4)...)
	}

	// ---- assign-bounded-by-required (shares the dispatch rule of C09)
	if dp := ra.dispatcher; dp == nil {
		c.undecided("assign-bounded-by-required", "dispatchPlayer", "-", "not found")
	} else {
		sub := newCtx(p, c.Prop, c.Tier)
		runRegLockstep(sub, "assign-bounded-by-required")
		for _, o := range sub.Obs {
			if strings.HasSuffix(o.Key, fnKey(dp)) {
				c.Obs = append(c.Obs, o)
			}
		}
		for k := range sub.Analysed {
			c.Analysed[k] = true
		}
		// only one site calls the assign callback
		n := 0
		for _, fn := range p.Funcs {
			if fn.Pkg == nil || shortPkg(fn.Pkg.Pkg.Path()) != regPkg {
				continue
			}
			for _, b := range fn.Blocks {
				for _, in := range b.Instrs {
					if call, ok := in.(*ssa.Call); ok && !call.Call.IsInvoke() && call.Call.StaticCallee() == nil && loadsField(call.Call.Value, "regulator.regulator.assignPlayersFn") {
						n++
						if fn != dp {
							c.bad("assign-bounded-by-required", "assign-call-sites", p.InstrPos(in), "players are assigned to a table outside the requirement-bounded dispatcher")
						}
					}
				}
			}
		}
		c.check(n == 1, "assign-bounded-by-required", "assign-call-sites#count", p.FnPos(dp), "the assign callback is invoked from the dispatcher only", fmt.Sprintf("%d call sites of the assign callback", n))
	}

	// ---- limits-as-configured: the two limits every bound is stated over are stored from the
	// option's own argument, unconditionally and unmodified (or as constants by the constructor). An
	// option that adjusts its argument against the other limit depends on the order of the options
	{
		var bad []string
		n := 0
		for _, key := range []string{"regulator.regulator.maxPlayersPerTable", "regulator.regulator.minInitialPlayers"} {
			for _, w := range ix.Writers(key) {
				c.touch(fnKey(w))
				s := regSumm(p, 0)
				paths, _ := s.Function(w)
				vals := map[string]bool{}
				for _, ps := range paths {
					st := ps.storesTo(key)
					if len(st) == 0 {
						if w.Parent() != nil {
							vals["<not set>"] = true
						}
						continue
					}
					vals[st[len(st)-1].Val.String()] = true
				}
				n++
				for v := range vals {
					if _, isConst := vInt(0), false; isConst {
						continue
					}
					okv := strings.HasPrefix(v, "free:") || strings.HasPrefix(v, "param:") || isDecimal(v)
					if !okv || len(vals) != 1 {
						bad = append(bad, fnKey(w)+" sets "+strings.TrimPrefix(key, "regulator.regulator.")+" to "+strings.Join(sortedSet(vals), " / ")+": not simply the configured value")
						break
					}
				}
			}
		}
		c.check(len(bad) == 0, "limits-as-configured", "regulator limits", "-", fmt.Sprintf("max per table and min initial are stored as configured (%d direct writer(s); stores through an accessor are not followed)", n), "the limits in force are not the configured ones", uniq(bad, 2)...)
	}

	// ---- topup-bounded
	sync := p.Func(regPkg, "regulator", "SyncState")
	var rp *ssa.Function
	if sync != nil {
		// the popper SyncState (or one of its helpers) calls: the outermost one, chosen the same
		// way on every run
		var cands []*ssa.Function
		for f := range ra.poppers {
			if ix.Info[sync].TCalls[f] {
				cands = append(cands, f)
			}
		}
		sort.Slice(cands, func(i, j int) bool { return fnKey(cands[i]) < fnKey(cands[j]) })
		for _, f := range cands {
			inner := false
			for _, g := range cands {
				if g != f && ix.Info[g] != nil && ix.Info[g].TCalls[f] {
					inner = true // f is called by another popper: f is the inner one
				}
			}
			if !inner && rp == nil {
				rp = f
			}
		}
		if rp == nil && len(cands) > 0 {
			rp = cands[0]
		}
	}
	if rp == nil || sync == nil {
		c.undecided("topup-bounded", "requestPlayers", "-", "not found")
		return
	}
	c.touch(fnKey(rp), fnKey(sync))
	{
		s := regSumm(p, 0)
		var bad3 []string
		// the popper SyncState calls may be a pass-through of the one that holds the loop
		lp, cntParam := rp, ssa.Value(nil)
		if len(rp.Params) > 1 {
			cntParam = rp.Params[1]
		}
		for d := 0; d < 3 && len(s.loops(lp)) == 0 && cntParam != nil; d++ {
			var inner *ssa.Function
			var innerCnt ssa.Value
			for _, b := range lp.Blocks {
				for _, in := range b.Instrs {
					call, ok := in.(*ssa.Call)
					if !ok {
						continue
					}
					f := call.Call.StaticCallee()
					if f == nil || !ra.poppers[f] || f == lp {
						continue
					}
					for i, a := range call.Call.Args {
						if a == cntParam && i < len(f.Params) {
							inner, innerCnt = f, f.Params[i]
						}
					}
				}
			}
			if inner == nil {
				break
			}
			lp, cntParam = inner, innerCnt
		}
		c.touch(fnKey(lp))
		loops := s.loops(lp)
		if len(loops) == 0 && ra.bulk[lp] && cntParam != nil {
			// bulk pop: the number cut off never exceeds the requested count
			paths, _ := s.Function(lp)
			for _, ps := range paths {
				for _, e := range ps.storesTo("regulator.regulator.waitingQueue") {
					v := e.Val.String()
					if !strings.HasPrefix(v, "slice(recv.waitingQueue, ") {
						continue
					}
					nStr := strings.TrimSuffix(strings.TrimPrefix(v, "slice(recv.waitingQueue, "), ", _, _)")
					if msg := bulkPopAtMost(ps, nStr, "param:"+cntParam.Name()); msg != "" {
						bad3 = append(bad3, msg)
					}
				}
			}
		} else if len(loops) != 1 {
			bad3 = append(bad3, "requestPlayers is not a single loop")
		} else {
			ci := analyseCounting(loops[0])
			if !ci.OK || ci.Step != 1 || ci.Op != "<" || ci.Bound != cntParam {
				bad3 = append(bad3, "the pop loop is not bounded by the requested count")
			} else if c0, ok := constInt(ci.Init); !ok || c0 != 0 {
				bad3 = append(bad3, "the pop loop does not start at 0")
			}
			body, _ := s.LoopBody(lp, loops[0])
			for _, bp := range body {
				if bp.End != "continue" {
					continue
				}
				pops := 0
				for k, v := range bp.Store {
					if strings.HasPrefix(k, "backedge:") && v.Op == "append" {
						pops++
					}
				}
				if pops != 1 {
					bad3 = append(bad3, "an iteration pops other than exactly one player")
				}
			}
		}
		// the count asked for in SyncState is floor(waterLevel) - current table count
		s.HelperInline = ra.helperFilter(p, sync)
		sp, _ := s.Function(sync)
		n := 0
		for _, ps := range sp {
			for _, e := range callsTo(ps, rp) {
				n++
				cnt := e.Args[1].asAff()
				// current count of the syncing table at this point: PlayerCount - out
				cur := affTerm("lookup(recv.tables, param:"+sync.Params[1].Name()+").PlayerCount").add(affTerm("param:"+sync.Params[2].Name()), -1)
				rest := cnt.add(cur, 1)
				okc := rest.C == 0 && len(rest.T) == 1
				for t, co := range rest.T {
					if !strings.HasPrefix(t, "conv:int(math.Floor(") || co != 1 {
						okc = false
					}
				}
				if !okc {
					bad3 = append(bad3, "the top-up count is "+e.Args[1].String()+", expected floor(waterLevel) minus the table's current count")
				}
				// the water level is players / ceil(players / max): never above max by construction.
				// Any other divisor (the number of open tables, say) can lift the level over the capacity
				for t := range rest.T {
					if !okc {
						break
					}
					m := levelRe.FindStringSubmatch(stripEpochs(t))
					if m == nil || m[1] != m[2] || !strings.Contains(m[1], "recv.playerCount") {
						bad3 = append(bad3, "the level a table is topped up to is "+t+", expected players / ceil(players / max)")
					}
				}
			}
		}
		c.check(len(bad3) == 0 && n > 0, "topup-bounded", fnKey(rp), p.FnPos(rp), "a top-up pops at most floor(waterLevel) - PlayerCount players, one per iteration", "a top-up is not bounded by the water level", uniq(bad3, 3)...)
	}
}

// stripEpochs removes the "@n" epoch suffixes of call-result symbols.
var levelRe = regexp.MustCompile(`^conv:int\(math\.Floor\(op/\(conv:float64\((.+?)\), conv:float64\(conv:int\(math\.Ceil\(op/\(conv:float64\((.+?)\), conv:float64\(recv\.maxPlayersPerTable\)\)\)\)\)\)\)\)$`)

func stripEpochs(t string) string {
	var b strings.Builder
	for i := 0; i < len(t); i++ {
		if t[i] == '@' {
			j := i + 1
			for j < len(t) && t[j] >= '0' && t[j] <= '9' {
				j++
			}
			i = j - 1
			continue
		}
		b.WriteByte(t[i])
	}
	return b.String()
}

func isDecimal(v string) bool {
	if v == "" {
		return false
	}
	for i := 0; i < len(v); i++ {
		if (v[i] < '0' || v[i] > '9') && !(i == 0 && v[i] == '-') {
			return false
		}
	}
	return true
}

// bulkPopAtMost: on path ps, n players are cut off the queue; the path's condition implies
// n <= max(count, 0) (grid).
func bulkPopAtMost(ps *PathSum, n string, count string) string {
	ints, bools := tableVars([]*PathSum{ps})
	has := func(t string) bool {
		for _, x := range ints {
			if x == t {
				return true
			}
		}
		return false
	}
	var nAff *Aff
	if k, err := strconv.ParseInt(n, 10, 64); err == nil {
		nAff = affConst(k)
	} else {
		nAff = affTerm(n)
		if !has(n) {
			ints = append(ints, n)
		}
	}
	if !has(count) {
		ints = append(ints, count)
	}
	msg := ""
	enumGridR(ints, func(name string) (int64, int64) {
		if strings.HasPrefix(name, "len(") {
			return 0, 4
		}
		return -2, 5
	}, bools, nil, func(a Asg) bool {
		holds, ok := evalPath(ps, a)
		if !ok || !holds {
			return true
		}
		v, ok := evalAff(nAff, a)
		lim := a.I[count]
		if lim < 0 {
			lim = 0
		}
		if !ok || v > lim {
			msg = fmt.Sprintf("%d players are popped for a request of %d", v, a.I[count])
			return false
		}
		return true
	})
	return msg
}
