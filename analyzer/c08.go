package main

import (
	"fmt"
	"go/token"
	"sort"
	"strings"

	"golang.org/x/tools/go/ssa"
)

func init() {
	register(&propDef{
		ID: "C08", Level: "other", Run: withShared(runC08, share{"C17", runC17, ruleIs("search-starts-after-dealer")}),
		Explanation: "The predicate 'this seat can play' is implemented several times (the search used for dealer and blinds, the single-seat fallback, the playable list and count behind the exported getters, and the table layer's Playable flag). Each implementation's acceptance condition is extracted as a decision table over {IsActive, IsReserved, Player == nil} and must equal occupied AND active AND not reserved. Inside Next, the position fields are stored only from results of that search (the small blind also from the dealer under the exactly-two test); the small-blind search starts strictly after the dealer in the clockwise ring starting at the dealer, and the big-blind search strictly after the small blind; the ring builder walks max seats clockwise from its start id. The position strings the table writes for the dealer/sb/bb seats are the ones the engine compares, each paired with the seat manager getter of the same role, and the game's players are the playable seats in ring order with their own positions. Does NOT decide which seat is first clockwise as a value, nor the dealt-in timing after a mid-hand join.",
		Trusted:     commonTrusted,
		Assumptions: []string{"exported getters (GetPlayableSeats, GetPlayableSeatCount, Dealer, SmallBlind, BigBlind) are API and resolved by name; helpers are resolved by role"},
		NotCovered:  "which seat is first clockwise over histories; the dealt-in-exactly-after-the-button-passes clause; heads-up correctness as values",
	})
}

type playableSite struct {
	Fn     *ssa.Function
	Role   string
	Accept func(ps *PathSum) bool
	Loop   *Loop
}

// checkPlayableTable evaluates a loop body's acceptance condition against
// IsActive && !IsReserved && Player != nil.
func checkPlayableTable(body []*PathSum, accept func(ps *PathSum) bool) (bool, []string) {
	_, bools := tableVars(body)
	ints, _ := tableVars(body)
	var bAct, bRes, bNil string
	for _, b := range bools {
		switch {
		case strings.HasSuffix(b, ".IsActive"):
			bAct = b
		case strings.HasSuffix(b, ".IsReserved"):
			bRes = b
		case strings.Contains(b, ".Player") && strings.Contains(b, "nil"):
			bNil = b
		}
	}
	var missing []string
	if bAct == "" {
		bAct = "<IsActive>"
		bools = append(bools, bAct)
		missing = append(missing, "IsActive")
	}
	if bRes == "" {
		bRes = "<IsReserved>"
		bools = append(bools, bRes)
		missing = append(missing, "IsReserved")
	}
	if bNil == "" {
		bNil = "<Player==nil>"
		bools = append(bools, bNil)
		missing = append(missing, "Player")
	}
	var bad []string
	if len(missing) > 0 {
		bad = append(bad, "the predicate does not look at "+strings.Join(missing, ", "))
	}
	enumGrid(ints, -1, 3, bools, nil, func(a Asg) bool {
		row, err := selectBodyPath(body, a)
		if err != "" {
			bad = append(bad, "table self-check: "+err)
			return false
		}
		if row == nil {
			return true
		}
		got := accept(row)
		want := a.B[bAct] && !a.B[bRes] && !a.B[bNil]
		if got != want {
			bad = append(bad, fmt.Sprintf("a seat with active=%v reserved=%v empty=%v is accepted=%v", a.B[bAct], a.B[bRes], a.B[bNil], got))
		}
		return len(bad) < 4
	})
	return len(bad) == 0, uniq(bad, 3)
}

func acceptExitReturn(ps *PathSum) bool {
	return strings.HasPrefix(ps.End, "exit-return") && len(ps.Ret) > 0 && ps.Ret[0].String() != "nil"
}

// hitExits: the loop exits of fn after which the function returns a non-nil first result without
// doing anything else (go/ssa places "return x[i], i" of an index loop outside the loop).
func hitExits(p *Prog, fn *ssa.Function) map[string]bool {
	s := newSumm(p, 0)
	s.EngineAliases = false
	paths, _ := s.Function(fn)
	out := map[string]bool{}
	for _, ps := range paths {
		if ps.End != "return" || len(ps.Ret) == 0 || ps.Ret[0].String() == "nil" {
			continue
		}
		n := 0
		for _, e := range ps.Events {
			if e.Kind != "loop" {
				n++
			}
		}
		if n > 0 {
			continue
		}
		for _, cd := range ps.Conds {
			if cd.V.K == KAtom && cd.V.At.Op == "b" && strings.Contains(cd.V.At.L, ".exit→") {
				out[cd.V.At.L[strings.Index(cd.V.At.L, "→")+len("→"):]] = true
			}
		}
	}
	return out
}

// acceptHit: a body path that leaves the loop with the hit, in either SSA shape.
func acceptHit(p *Prog, fn *ssa.Function) func(ps *PathSum) bool {
	hits := hitExits(p, fn)
	return func(ps *PathSum) bool {
		if acceptExitReturn(ps) {
			return true
		}
		return strings.HasPrefix(ps.End, "exit:") && hits[strings.TrimPrefix(ps.End, "exit:")]
	}
}

func acceptAppend(ps *PathSum) bool {
	for k, v := range ps.Store {
		if strings.HasPrefix(k, "backedge:") && v.Op == "append" {
			return true
		}
	}
	return false
}

// playableSites resolves the implementations of the playable predicate by role.
func playableSites(c *Ctx) []playableSite {
	p := c.P
	ix := p.Index()
	var out []playableSite
	seen := map[*ssa.Function]bool{}
	add := func(fn *ssa.Function, role string, acc func(ps *PathSum) bool) {
		if fn == nil || seen[fn] {
			return
		}
		seen[fn] = true
		out = append(out, playableSite{Fn: fn, Role: role, Accept: acc})
	}
	// (B) functions whose result is stored into a position field
	for _, fn := range p.MethodsOf(smPkg, "SeatManager") {
		for _, b := range fn.Blocks {
			for _, in := range b.Instrs {
				st, ok := in.(*ssa.Store)
				if !ok {
					continue
				}
				k := accessKey(st.Addr)
				if k != "seat_manager.SeatManager.dealer" && k != "seat_manager.SeatManager.sb" && k != "seat_manager.SeatManager.bb" {
					continue
				}
				v := st.Val
				if ex, ok := v.(*ssa.Extract); ok {
					v = ex.Tuple
				}
				if call, ok := v.(*ssa.Call); ok {
					if f := call.Common().StaticCallee(); f != nil && inModule(f) {
						f = unwrapSearch(f, 0)
						add(f, "search feeding "+strings.TrimPrefix(k, "seat_manager.SeatManager."), acceptHit(p, f))
					}
				}
			}
		}
	}
	// (A) callees of the exported getters
	if g := p.Func(smPkg, "SeatManager", "GetPlayableSeats"); g != nil {
		for _, cc := range ix.Info[g].Calls {
			if f := cc.StaticCallee(); f != nil && inModule(f) && f.Pkg.Pkg.Path() == g.Pkg.Pkg.Path() {
				add(f, "list behind GetPlayableSeats", acceptAppend)
			}
		}
	}
	if g := p.Func(smPkg, "SeatManager", "GetPlayableSeatCount"); g != nil {
		for _, cc := range ix.Info[g].Calls {
			if f := cc.StaticCallee(); f != nil && inModule(f) && f.Pkg.Pkg.Path() == g.Pkg.Pkg.Path() {
				ret := ""
				for _, b := range f.Blocks {
					if r, ok := b.Instrs[len(b.Instrs)-1].(*ssa.Return); ok && len(r.Results) == 1 {
						if phi, ok := r.Results[0].(*ssa.Phi); ok {
							ret = phi.Name()
						}
					}
				}
				fname := f.Name()
				add(f, "count behind GetPlayableSeatCount", func(ps *PathSum) bool {
					v := ps.Store["backedge:"+ret]
					return ret != "" && v != nil && v.String() == "iter:"+fname+"."+ret+" + 1"
				})
			}
		}
	}
	// (C) the table layer's Playable flag
	for _, w := range ix.Writers("table.PlayerInfo.Playable") {
		hasLoop := len(findLoops(w)) > 0
		if hasLoop {
			add(w, "table Playable flag", func(ps *PathSum) bool {
				st := ps.storesTo("table.PlayerInfo.Playable")
				return len(st) > 0 && st[len(st)-1].Val.String() == "true"
			})
		}
	}
	sort.Slice(out, func(i, j int) bool { return fnKey(out[i].Fn) < fnKey(out[j].Fn) })
	return out
}

func runC08(c *Ctx) {
	p := c.P
	ix := p.Index()
	// ---- playable-agreement
	sites := playableSites(c)
	c.floor("playable-agreement", "implementations of the playable predicate", len(sites), 2)
	for _, site := range sites {
		c.touch(fnKey(site.Fn))
		s := newSumm(p, 0)
		s.EngineAliases = false
		s.HelperInline = purePredicate(p, site.Fn) // a predicate extracted into a helper is still the predicate
		var best []string
		okAny := false
		for _, l := range s.loops(site.Fn) {
			body, cut := s.LoopBody(site.Fn, l)
			if cut != "" {
				continue
			}
			// only loops whose body looks at seat flags
			_, bools := tableVars(body)
			rel := false
			for _, b := range bools {
				if strings.HasSuffix(b, ".IsActive") || strings.HasSuffix(b, ".IsReserved") || strings.Contains(b, ".Player") {
					rel = true
				}
			}
			acc := false
			for _, ps := range body {
				if site.Accept(ps) {
					acc = true
				}
			}
			if !rel && !acc {
				continue
			}
			ok, why := checkPlayableTable(body, site.Accept)
			c.Sites += len(body)
			if ok {
				okAny = true
			} else {
				best = why
			}
		}
		c.check(okAny && best == nil, "playable-agreement", fnKey(site.Fn), p.FnPos(site.Fn), site.Role+": accepts exactly occupied AND active AND not reserved", site.Role+": disagrees with occupied AND active AND not reserved", best...)
	}

	// ---- positions-from-search
	next := p.Func(smPkg, "SeatManager", "Next")
	if next == nil {
		c.undecided("positions-from-search", "Next", "-", "not found")
	} else {
		tree := ix.Reachable(next)
		searchFns := map[*ssa.Function]bool{}
		for _, st := range sites {
			if strings.HasPrefix(st.Role, "search feeding") {
				searchFns[st.Fn] = true
			}
		}
		nSt := 0
		for fn := range tree {
			c.touch(fnKey(fn))
			s := newSumm(p, 0)
			s.EngineAliases = false
			s.HelperInline = smHelperFilter(p, fn) // a helper given &sm.bb stores the big blind for its caller
			paths, _ := s.Function(fn)
			seen := map[string]bool{}
			for _, ps := range paths {
				for _, e := range ps.Events {
					if e.Kind != "store" {
						continue
					}
					var which string
					switch e.FKey {
					case "seat_manager.SeatManager.dealer":
						which = "dealer"
					case "seat_manager.SeatManager.sb":
						which = "sb"
					case "seat_manager.SeatManager.bb":
						which = "bb"
					default:
						continue
					}
					v := e.Val.String()
					fromSearch := false
					for sf := range searchFns {
						if strings.HasPrefix(v, fnKey(sf)+"(") {
							fromSearch = true
						}
					}
					ok := fromSearch
					why := "stored from " + v
					if which == "sb" && v == "recv.dealer" {
						// heads-up: only under the exactly-two test
						ok = hasCond(ps, func(x *Val) bool {
							return x.K == KAtom && x.At.Op == "eq" && !x.Neg && strings.Contains(x.At.A.String(), "getPlayableSeatCount(recv)") && x.At.A.C == -2
						})
						why = "the dealer becomes small blind without the exactly-two-players test"
					}
					k := fnKey(fn) + "#store-" + which + ":" + fmt.Sprint(ok)
					if seen[k] {
						continue
					}
					seen[k] = true
					nSt++
					c.check(ok, "positions-from-search", fnKey(fn)+"#store-"+which, e.Pos, which+" is set from the playable search"+map[bool]string{true: " / from the dealer when exactly two can play", false: ""}[which == "sb"], why)
				}
			}
		}
		c.floor("positions-from-search", "position stores inside Next", nSt, 2)
		// search ranges in the blind assigner
		// the blind assigner: the function Next calls that stores the big blind, itself or through
		// package-private helpers, which are then analysed as part of it
		var assigner *ssa.Function
		writesBB := func(fn *ssa.Function) bool {
			if ix.Info[fn] == nil {
				return false
			}
			for _, w := range ix.Info[fn].Writes {
				if w.Key == "seat_manager.SeatManager.bb" {
					return true
				}
			}
			return false
		}
		for _, cc := range ix.Info[next].Calls {
			if f := cc.StaticCallee(); f != nil && assigner == nil && ix.Info[f] != nil && (writesBB(f) || ix.Info[f].TWrites["seat_manager.SeatManager.bb"]) {
				assigner = f
			}
		}
		if assigner == nil {
			c.undecided("positions-from-search", "blind-assigner", "-", "no function in Next's call tree stores the big blind")
		} else {
			c.role("blind assigner", fnKey(assigner))
			s := newSumm(p, 0)
			s.EngineAliases = false
			{
				base := smHelperFilter(p, assigner)
				top := assigner
				s.HelperInline = func(f *ssa.Function) bool {
					return base(f) || (privateHelper(top, f) && ix.Info[f] != nil && (writesBB(f) || ix.Info[f].TWrites["seat_manager.SeatManager.bb"] || ix.Info[f].TWrites["seat_manager.SeatManager.sb"]) && len(findSentinelsOf(p, f)) == 0)
				}
			}
			paths, _ := s.Function(assigner)
			var bad []string
			for _, ps := range paths {
				var sbE, bbE *Event
				for _, e := range ps.Events {
					if e.Kind == "store" && e.FKey == "seat_manager.SeatManager.sb" {
						sbE = e
					}
					if e.Kind == "store" && e.FKey == "seat_manager.SeatManager.bb" {
						bbE = e
					}
				}
				if sbE == nil || bbE == nil {
					bad = append(bad, "a path does not assign both blinds")
					continue
				}
				ring := ""
				for _, e := range ps.Events {
					if e.Kind == "call" && strings.HasSuffix(e.Callee, ".getNormalizeSeats") {
						ring = e.Res.String()
						if e.Args[1].String() != "recv.dealer.ID" {
							bad = append(bad, "the ring does not start at the dealer: "+e.Args[1].String())
						}
					}
				}
				if ring == "" {
					bad = append(bad, "no clockwise ring is built")
					continue
				}
				afterDealer := "slice(" + ring + ", 1, _, _)"
				sbv, bbv := sbE.Val.String(), bbE.Val.String()
				if sbv == "recv.dealer" {
					// heads-up: bb searched strictly after the dealer
					if !strings.Contains(bbv, "("+"recv, "+afterDealer+")#0") {
						bad = append(bad, "heads-up: the big blind is not searched strictly after the dealer: "+bbv)
					}
				} else {
					if !strings.Contains(sbv, "(recv, "+afterDealer+")#0") {
						bad = append(bad, "the small blind is not searched strictly after the dealer: "+sbv)
					}
					// bb: slice(slice(afterDealer, <sb idx>, _, _), 1, _, _)
					sbCall := strings.TrimSuffix(sbv, "#0")
					wantArg := "slice(slice(" + afterDealer + ", " + sbCall + "#1, _, _), 1, _, _)"
					if !strings.Contains(bbv, "(recv, "+wantArg+")#0") {
						bad = append(bad, "the big blind is not searched strictly after the small blind's seat: "+bbv)
					}
				}
			}
			c.check(len(bad) == 0 && len(paths) >= 2, "positions-from-search", fnKey(assigner)+"#search-ranges", p.FnPos(assigner), "small blind searched strictly after the dealer, big blind strictly after the small blind, in the ring starting at the dealer", "blind searches start at the wrong seat", uniq(bad, 3)...)
		}
	}
	// ---- closed-span: after the blinds are set, the empty seats between the dealer and the big blind
	// are closed: the walk follows the ring that starts at the dealer, stops at the big blind, and
	// closes a seat exactly when nobody sits on it (a seat that is merely held is closed too: its
	// holder must wait for the button like any newcomer)
	if next != nil {
		var assigner *ssa.Function
		for _, cc := range ix.Info[next].Calls {
			if f := cc.StaticCallee(); f != nil && assigner == nil && ix.Info[f] != nil && ix.Info[f].TWrites["seat_manager.SeatManager.bb"] {
				assigner = f
			}
		}
		type cand struct {
			fn *ssa.Function
			l  *Loop
			s  *Summ
		}
		var cands []cand
		if assigner != nil {
			fns := []*ssa.Function{assigner}
			for f := range ix.Reachable(assigner) {
				if f != assigner && f.Pkg == assigner.Pkg {
					fns = append(fns, f)
				}
			}
			sort.Slice(fns, func(i, j int) bool { return fnKey(fns[i]) < fnKey(fns[j]) })
			for _, f := range fns {
				s := newSumm(p, 0)
				s.EngineAliases = false
				s.HelperInline = purePredicate(p, f)
				for _, l := range s.loops(f) {
					body, _ := s.LoopBody(f, l)
					closes := false
					for _, bp := range body {
						for _, e := range bp.storesTo("seat_manager.Seat.IsActive") {
							if e.Val.String() == "false" {
								closes = true
							}
						}
					}
					if closes {
						cands = append(cands, cand{f, l, s})
					}
				}
			}
		}
		if len(cands) == 0 {
			c.undecided("closed-span", "closing-walk", "-", "no loop below the blind assignment closes seats")
		}
		for _, cd := range cands {
			f, l := cd.fn, cd.l
			c.touch(fnKey(f))
			var bad []string
			ri := analyseRange(l)
			if ri.Kind != "slice" || ri.Coll == nil {
				bad = append(bad, "the closing walk does not range over a list of seats (a walk over seat ids does not wrap at the end of the table)")
			} else if !ringFromDealer(ix, ri.Coll, f, 0) {
				bad = append(bad, "the closing walk does not follow the ring that starts at the dealer")
			}
			body, _ := cd.s.LoopBody(f, l)
			stops := false
			for _, bp := range body {
				isStopAtom := func(v *Val) bool {
					return v.K == KAtom && v.At.Op == "is" && strings.Contains(v.At.String(), "[iter:") && !strings.Contains(v.At.String(), "nil") && (strings.Contains(v.At.String(), "recv.bb") || strings.Contains(v.At.String(), "param:"))
				}
				for _, cnd := range bp.Conds {
					if isStopAtom(cnd.V) {
						stops = true
					}
				}
				closing := false
				for _, e := range bp.storesTo("seat_manager.Seat.IsActive") {
					if e.Val.String() == "false" {
						closing = true
					}
				}
				if !closing {
					continue
				}
				nEmpty, other := 0, []string{}
				for _, cnd := range bp.Conds {
					v := cnd.V
					switch {
					case isStopAtom(v):
					case v.K == KAtom && v.At.Op == "is" && !v.Neg && strings.Contains(v.At.String(), ".Player") && strings.Contains(v.At.String(), "nil"):
						nEmpty++
					case v.K == KAtom && (v.At.Op == "lt" || v.At.Op == "le"):
						// the loop's own bound
					default:
						other = append(other, v.String())
					}
				}
				if nEmpty != 1 {
					bad = append(bad, "a seat is closed without the test that nobody sits on it")
				}
				if len(other) > 0 {
					bad = append(bad, "a seat between dealer and big blind is closed only under the further condition ["+strings.Join(other, " && ")+"]")
				}
			}
			if !stops {
				bad = append(bad, "the closing walk does not stop at the big blind")
			}
			// ... at THIS hand's big blind: on the assigner's paths the big blind is stored before the
			// walk (or the helper holding it) runs
			{
				as := newSumm(p, 0)
				as.EngineAliases = false
				as.HelperInline = smHelperFilter(p, assigner)
				for _, ps := range func() []*PathSum { x, _ := as.Function(assigner); return x }() {
					iBB, iWalk := -1, -1
					for i, e := range ps.Events {
						if e.Kind == "store" && e.FKey == "seat_manager.SeatManager.bb" {
							iBB = i
						}
						if e.Kind == "call" && e.Fn != nil && e.Fn != f && ix.Info[e.Fn] != nil && ix.Info[e.Fn].TWrites["seat_manager.SeatManager.bb"] {
							iBB = i // a helper that assigns the blinds
						}
						isWalk := (e.Kind == "loop" && e.Loop.Header == l.Header) || (e.Kind == "call" && e.Fn == f && f != assigner)
						if isWalk && iWalk < 0 {
							iWalk = i
						}
					}
					if iWalk >= 0 && (iBB < 0 || iBB > iWalk) {
						bad = append(bad, "the closing walk runs before this hand's big blind is stored: it stops at the previous hand's")
					}
				}
			}
			c.check(len(bad) == 0, "closed-span", fnKey(f), p.FnPos(f), "every empty seat from the dealer up to the big blind is closed, along the ring", "seats between dealer and big blind are not closed as the property says: a newcomer there is dealt in early", uniq(bad, 3)...)
		}
	}

	// ---- blinds-follow-button: every path of Next that does not refuse goes through the function
	// that assigns the blinds (and closes / re-opens the seats around them). A shortcut that keeps
	// last hand's blinds leaves them on seats that may no longer be playable
	if next != nil {
		var assigner *ssa.Function
		for _, cc := range ix.Info[next].Calls {
			if f := cc.StaticCallee(); f != nil && assigner == nil && ix.Info[f] != nil && ix.Info[f].TWrites["seat_manager.SeatManager.bb"] {
				assigner = f
			}
		}
		if assigner == nil {
			c.undecided("blinds-follow-button", fnKey(next), p.FnPos(next), "no callee of Next assigns the big blind")
		} else {
			s := newSumm(p, 0)
			s.EngineAliases = false
			s.HelperInline = func(f *ssa.Function) bool {
				return privateHelper(next, f) && f != assigner && ix.Info[f] != nil && !ix.Info[f].TWrites["seat_manager.SeatManager.bb"] && !ix.Info[f].TWrites["seat_manager.SeatManager.dealer"] && len(findLoops(f)) == 0
			}
			paths, _ := s.Function(next)
			var bad []string
			n := 0
			for _, ps := range paths {
				if ps.End != "return" {
					continue
				}
				if len(ps.Ret) == 1 {
					if _, refuses := c.sentinelError(ps.Ret[0]); refuses {
						continue
					}
				}
				n++
				through := false
				for _, e := range ps.Events {
					if (e.Kind == "call" || e.Kind == "enter") && e.Fn != nil && (e.Fn == assigner || (ix.Info[e.Fn] != nil && ix.Info[e.Fn].TWrites["seat_manager.SeatManager.bb"])) {
						through = true
					}
				}
				if !through {
					bad = append(bad, "Next succeeds under ["+ps.CondString()+"] without assigning the blinds")
				}
			}
			c.check(len(bad) == 0 && n > 0, "blinds-follow-button", fnKey(next), p.FnPos(next), "every path of Next that does not refuse assigns the blinds", "a hand can be set up with last hand's blinds", uniq(bad, 2)...)
		}
	}

	// ---- reopened-after-bb: once the blinds are set, the seats that are re-opened are those AFTER
	// the big blind (to the end of the ring). Re-opening from an earlier position undoes the closing
	// of the seats between the blinds, and a newcomer there is dealt in before the button passed
	if next != nil {
		var assigner *ssa.Function
		for _, cc := range ix.Info[next].Calls {
			if f := cc.StaticCallee(); f != nil && assigner == nil && ix.Info[f] != nil && ix.Info[f].TWrites["seat_manager.SeatManager.bb"] {
				assigner = f
			}
		}
		nOpen := 0
		if assigner != nil {
			fns := []*ssa.Function{assigner}
			for f := range ix.Reachable(assigner) {
				if f != assigner && f.Pkg == assigner.Pkg {
					fns = append(fns, f)
				}
			}
			sort.Slice(fns, func(i, j int) bool { return fnKey(fns[i]) < fnKey(fns[j]) })
			for _, f := range fns {
				s := newSumm(p, 0)
				s.EngineAliases = false
				for _, l := range s.loops(f) {
					body, _ := s.LoopBody(f, l)
					opens, uncond := false, true
					for _, bp := range body {
						st := bp.storesTo("seat_manager.Seat.IsActive")
						isOpen := false
						for _, e := range st {
							if e.Val.String() == "true" {
								isOpen = true
							}
						}
						if isOpen {
							opens = true
						} else if bp.End == "continue" {
							uncond = false
						}
					}
					if !opens || !uncond {
						continue // not the unconditional re-opening pass
					}
					ri := analyseRange(l)
					if ri.Kind != "slice" || ri.Coll == nil {
						continue
					}
					nOpen++
					callerScope = map[*ssa.Function]bool{}
					for _, g := range fns {
						callerScope[g] = true
					}
					ok := afterBigBlind(ix, ri.Coll, f, 0)
					callerScope = nil
					c.check(ok, "reopened-after-bb", fnKey(f), p.FnPos(f), "the seats re-opened after the blinds are set are those after the big blind", "seats are re-opened from before the big blind: the seats just closed between the blinds are open again")
				}
			}
		}
		c.floor("reopened-after-bb", "unconditional re-opening passes below the blind assignment", nOpen, 1)
	}

	// ring builder
	if rb := p.Func(smPkg, "SeatManager", "getNormalizeSeats"); rb == nil {
		// resolve by role: callee whose result is sliced [1:] in the assigner; fall back to name of exported wrapper
		if g := p.Func(smPkg, "SeatManager", "GetNormalizeSeats"); g != nil {
			for _, cc := range ix.Info[g].Calls {
				if f := cc.StaticCallee(); f != nil && inModule(f) {
					rb = f
				}
			}
		}
		if rb == nil {
			c.undecided("positions-from-search", "ring-builder", "-", "not found")
		}
	} else {
		c.touch(fnKey(rb))
		c.role("ring builder", fnKey(rb))
		s := newSumm(p, 0)
		s.EngineAliases = false
		var bad []string
		loops := s.loops(rb)
		if len(loops) != 1 {
			bad = append(bad, fmt.Sprintf("%d loops", len(loops)))
		} else {
			l := loops[0]
			ci := analyseCounting(l)
			if !ci.OK || ci.Step != 1 || ci.Op != "<" || !loadsField(ci.Bound, "seat_manager.SeatManager.max") {
				bad = append(bad, "the ring is not built by max iterations")
			}
			if c0, ok := constInt(ci.Init); !ok || c0 != 0 {
				bad = append(bad, "the iteration count does not start at 0")
			}
			// cursor phi: starts at the start id parameter, +1 with wrap to 0 at max
			var cur *ssa.Phi
			for _, in := range l.Header.Instrs {
				if phi, ok := in.(*ssa.Phi); ok && phi != ci.Phi && isIntType(phi.Type()) {
					for i, e := range phi.Edges {
						if !l.Blocks[l.Header.Preds[i]] && e == ssa.Value(rb.Params[1]) {
							cur = phi
						}
					}
				}
			}
			if cur == nil {
				bad = append(bad, "no cursor starting at the start id")
			} else {
				body, _ := s.LoopBody(rb, l)
				it := "iter:" + rb.Name() + "." + cur.Name()
				for _, ps := range body {
					back := ps.Store["backedge:"+cur.Name()]
					wrap := hasCond(ps, func(v *Val) bool {
						return v.K == KAtom && v.At.Op == "eq" && !v.Neg && v.At.A.String() == it+" - recv.max + 1"
					})
					if back == nil {
						bad = append(bad, "cursor not advanced")
						continue
					}
					if wrap && back.String() != "0" {
						bad = append(bad, "at the last seat the cursor does not wrap to 0")
					}
					if !wrap && back.String() != it+" + 1" {
						bad = append(bad, "the cursor does not advance by one seat clockwise: "+back.String())
					}
					// appended element is seats[cursor]
					for k, v := range ps.Store {
						if strings.HasPrefix(k, "backedge:") && v.Op == "append" {
							if !strings.Contains(v.String(), "lookup(recv.seats, "+it+")") {
								bad = append(bad, "the seat appended is not the one under the cursor")
							}
						}
					}
				}
			}
		}
		c.check(len(bad) == 0, "positions-from-search", fnKey(rb), p.FnPos(rb), "walks max seats clockwise from the start id, wrapping at the end", "the ring is not the clockwise order from the start seat", uniq(bad, 3)...)
	}

	// ---- active-flag-owner: the waiting marker (IsActive) is only changed by the hand transition
	// (Next's call tree) and by the restore/reset API: join, leave, sit-in and reserve never
	// activate or deactivate a seat, otherwise a newcomer is dealt in before the button has passed
	if next != nil {
		tree := ix.Reachable(next)
		allowed := map[string]bool{"ApplyStates": true, "Reset": true}
		var bad []string
		n := 0
		for _, w := range ix.AnyWriters("seat_manager.Seat.IsActive") {
			n++
			c.touch(fnKey(w))
			if tree[w] || allowed[w.Name()] {
				continue
			}
			if len(ix.Callers(w)) == 0 && !token.IsExported(w.Name()) {
				continue // dead helper: never runs
			}
			// constructors / reset helpers reachable only from Reset or the constructor
			okReset := len(ix.Callers(w)) > 0
			for _, cl := range ix.Callers(w) {
				if !(allowed[cl.Name()] || strings.HasPrefix(cl.Name(), "New")) {
					okReset = false
				}
			}
			if okReset {
				continue
			}
			bad = append(bad, fnKey(w)+" changes Seat.IsActive outside the next-hand transition")
		}
		c.floor("active-flag-owner", "writers of Seat.IsActive", n, 2)
		c.check(len(bad) == 0, "active-flag-owner", "Seat.IsActive", p.FnPos(next), "the waiting marker is written only by the next-hand transition and the reset/restore API", "a seat operation other than Next changes who is waiting for the button", bad...)
	}

	runC08Strings(c)
}

// runC08Strings: position strings written by the table == strings the engine compares.
func runC08Strings(c *Ctx) {
	p := c.P
	ix := p.Index()
	// written: constants appended to the positions slice stored in table.PlayerInfo.Positions
	written := map[string]string{} // const -> getter it is paired with
	var writer *ssa.Function
	for _, w := range ix.Writers("table.PlayerInfo.Positions") {
		if len(findLoops(w)) > 0 {
			writer = w
		}
	}
	if writer == nil {
		c.undecided("position-strings", "table-writer", "-", "no function stores table.PlayerInfo.Positions in a loop")
		return
	}
	c.touch(fnKey(writer))
	c.role("position writer", fnKey(writer))
	s := newSumm(p, 0)
	s.EngineAliases = false
	// the list may be put together by a loop-free helper given the seat
	s.HelperInline = func(f *ssa.Function) bool { return privateHelper(writer, f) && len(findLoops(f)) == 0 }
	for _, l := range s.loops(writer) {
		body, _ := s.LoopBody(writer, l)
		for _, ps := range body {
			for _, e := range ps.storesTo("table.PlayerInfo.Positions") {
				if e.Val.Op != "list" {
					continue
				}
				for _, a := range e.Val.Args {
					if a.K != KConst || !isQuoted(a.S) {
						continue
					}
					pos := strings.Trim(a.S, `"`)
					// which getter comparison holds on this path
					for _, cd := range ps.Conds {
						if cd.V.K == KAtom && cd.V.At.Op == "is" && !cd.V.Neg {
							for _, g := range []string{"Dealer", "SmallBlind", "BigBlind"} {
								if strings.Contains(cd.V.At.String(), ")."+g+"(") {
									if _, ok := written[pos+"/"+g]; !ok {
										written[pos+"/"+g] = g
									}
								}
							}
						}
					}
				}
			}
		}
	}
	// the pairing: each position string is written on paths where its own getter matched
	want := map[string]string{"dealer": "Dealer", "sb": "SmallBlind", "bb": "BigBlind"}
	// engine reads
	reads := map[string]bool{}
	for _, fn := range p.Funcs {
		if fn.Pkg == nil {
			continue
		}
		pk := shortPkg(fn.Pkg.Pkg.Path())
		if pk != "pokerface" && pk != "table" {
			continue
		}
		for _, b := range fn.Blocks {
			for _, in := range b.Instrs {
				ci, ok := in.(ssa.CallInstruction)
				if !ok {
					continue
				}
				cc := ci.Common()
				name := ""
				if cc.IsInvoke() {
					name = cc.Method.Name()
				} else if f := cc.StaticCallee(); f != nil && inModule(f) {
					name = f.Name()
				}
				if name != "CheckPosition" && name != "HasPosition" {
					continue
				}
				c.Sites++
				for _, a := range cc.Args {
					if sv, ok := constString(a); ok {
						reads[sv] = true
					}
				}
			}
		}
	}
	c.floor("position-strings", "position strings read by the engine", len(reads), 3)
	for pos, getter := range want {
		_, paired := written[pos+"/"+getter]
		c.check(paired && reads[pos], "position-strings", "position:"+pos, p.FnPos(writer),
			fmt.Sprintf("%q is written for the seat returned by %s() and read by the engine", pos, getter),
			fmt.Sprintf("%q: written for %s()=%v, read by the engine=%v — table and engine do not agree on the position name", pos, getter, paired, reads[pos]))
	}
	for r := range reads {
		if _, ok := want[r]; !ok {
			c.bad("position-strings", "position:"+r, "-", fmt.Sprintf("the engine compares position %q which the table never writes", r))
		}
	}
	// wrong pairing: a position written under another role's getter only
	for k := range written {
		parts := strings.SplitN(k, "/", 2)
		if want[parts[0]] == "" {
			c.bad("position-strings", "position:"+parts[0], p.FnPos(writer), fmt.Sprintf("the table writes position %q which the engine never reads", parts[0]))
		}
	}
	// dealer also small blind heads-up: "sb" may be written together with "dealer" (same path) — allowed by construction above.

	// startGame: players = playable seats in ring order with their own positions
	var starter *ssa.Function
	for _, fn := range p.MethodsOf("table", "table") {
		for _, cc := range ix.Info[fn].Calls {
			if f := cc.StaticCallee(); f != nil && f.Name() == "GetPlayableSeats" {
				starter = fn
			}
		}
	}
	if starter == nil {
		c.undecided("position-strings", "game-starter", "-", "no table function builds the players from GetPlayableSeats()")
		return
	}
	c.touch(fnKey(starter))
	s2 := newSumm(p, 0)
	s2.EngineAliases = false
	ok := false
	var why string
	for _, l := range s2.loops(starter) {
		ri := analyseRange(l)
		call, isCall := ri.Coll.(*ssa.Call)
		if !isCall || call.Common().StaticCallee() == nil || call.Common().StaticCallee().Name() != "GetPlayableSeats" {
			continue
		}
		if !ri.Full || len(l.Exits) != 1 {
			why = "the loop over the playable seats can stop early"
			continue
		}
		body, _ := s2.LoopBody(starter, l)
		ok = len(body) > 0
		for _, ps := range body {
			if ps.End != "continue" {
				ok = false
				why = "the loop can stop early"
			}
			// GameIdx := loop index, appended setting has the same seat's Positions and Bankroll
			idxOK, posOK := false, false
			for _, e := range ps.Events {
				if e.Kind == "store" && e.FKey == "table.PlayerInfo.GameIdx" && strings.HasPrefix(e.Val.String(), "iter:") && strings.HasSuffix(e.Val.String(), " + 1") {
					idxOK = true
				}
				if e.Kind == "store" && e.FKey == "pokerface.PlayerSetting.Positions" && strings.Contains(e.Val.String(), "[iter:") && strings.HasSuffix(e.Val.String(), ".Positions") {
					posOK = true
				}
			}
			if !idxOK || !posOK {
				ok = false
				why = "a player's game index or positions do not come from the loop's own seat"
			}
		}
	}
	c.check(ok, "position-strings", fnKey(starter)+"#players-from-playable-seats", p.FnPos(starter), "the game's players are the playable seats in ring order, each with its own positions", "players are not built from the playable seats: "+why)
}

// purePredicate: package-private, loop-free, effect-free helpers with a single bool result are
// analysed where they are used.
func purePredicate(p *Prog, owner *ssa.Function) func(*ssa.Function) bool {
	ix := p.Index()
	return func(f *ssa.Function) bool {
		if !privateHelper(owner, f) || len(findLoops(f)) > 0 || f.Signature.Results().Len() != 1 || !isBoolType(f.Signature.Results().At(0).Type()) {
			return false
		}
		fi := ix.Info[f]
		return fi != nil && len(fi.Writes) == 0
	}
}

// ringFromDealer: the slice value is the clockwise ring built from the dealer's seat id: a call of
// a function of the package with the dealer's ID as argument, or a parameter to which every caller
// passes such a value.
func ringFromDealer(ix *Index, v ssa.Value, fn *ssa.Function, depth int) bool {
	if depth > 3 {
		return false
	}
	switch x := v.(type) {
	case *ssa.Call:
		f := x.Call.StaticCallee()
		if f == nil || f.Pkg != fn.Pkg {
			return false
		}
		for _, a := range x.Call.Args {
			if fa, ok := a.(*ssa.UnOp); ok {
				if fld, ok := fa.X.(*ssa.FieldAddr); ok && loadsField(fld.X, "seat_manager.SeatManager.dealer") {
					return true
				}
			}
		}
		return false
	case *ssa.Parameter:
		idx := -1
		for i, prm := range fn.Params {
			if prm == x {
				idx = i
			}
		}
		callers := ix.Callers(fn)
		if idx < 0 || len(callers) == 0 {
			return false
		}
		for _, cl := range callers {
			for _, cs := range ix.CallSites(cl, fn) {
				args := cs.Common().Args
				if idx >= len(args) || !ringFromDealer(ix, args[idx], cl, depth+1) {
					return false
				}
			}
		}
		return true
	case *ssa.Phi:
		for _, e := range x.Edges {
			if !ringFromDealer(ix, e, fn, depth+1) {
				return false
			}
		}
		return len(x.Edges) > 0
	}
	return false
}

// afterBigBlind: the slice value is s[1:] of a slice that starts at the big blind's position.
func afterBigBlind(ix *Index, v ssa.Value, fn *ssa.Function, depth int) bool {
	if depth > 3 {
		return false
	}
	switch x := v.(type) {
	case *ssa.Slice:
		if lo, ok := constInt(x.Low); ok && lo == 1 && x.High == nil {
			return startsAtBigBlind(ix, x.X, fn, depth)
		}
	case *ssa.Parameter:
		return viaCallers(ix, x, fn, func(a ssa.Value, cl *ssa.Function) bool { return afterBigBlind(ix, a, cl, depth+1) })
	case *ssa.Call:
		// a helper that drops the head of the list it is given (seats[1:])
		f := x.Call.StaticCallee()
		if f == nil || f.Pkg != fn.Pkg || len(f.Blocks) != 1 || len(f.Params) == 0 {
			return false
		}
		r, ok := f.Blocks[0].Instrs[len(f.Blocks[0].Instrs)-1].(*ssa.Return)
		if !ok || len(r.Results) != 1 {
			return false
		}
		sl, ok := r.Results[0].(*ssa.Slice)
		if !ok || sl.High != nil {
			return false
		}
		if lo, isC := constInt(sl.Low); !isC || lo != 1 {
			return false
		}
		for i, prm := range f.Params {
			if sl.X == ssa.Value(prm) && i < len(x.Call.Args) {
				return startsAtBigBlind(ix, x.Call.Args[i], fn, depth+1)
			}
		}
	}
	return false
}

// startsAtBigBlind: the slice value is t[idx:] where (bb, idx) is the result of the search whose
// first result is stored as the big blind; or what a package function returns / is given as such.
func startsAtBigBlind(ix *Index, v ssa.Value, fn *ssa.Function, depth int) bool {
	return startsAtBB(ix, v, fn, depth, nil)
}

// bind: for a helper entered through a call, its parameters' arguments (a pointer parameter may
// stand for &sm.bb).
func startsAtBB(ix *Index, v ssa.Value, fn *ssa.Function, depth int, bind map[*ssa.Parameter]ssa.Value) bool {
	if depth > 3 {
		return false
	}
	switch x := v.(type) {
	case *ssa.Slice:
		ex, ok := x.Low.(*ssa.Extract)
		if !ok || x.High != nil {
			return false
		}
		if ex.Index != 1 && !wrappedSearchIndex(ex, x.X) {
			return false
		}
		if ex.Index == 0 {
			return false
		}
		// the same call's first result is stored to the bb field
		for _, ref := range *ex.Tuple.Referrers() {
			if e0, ok := ref.(*ssa.Extract); ok && e0.Index == 0 {
				for _, r2 := range *e0.Referrers() {
					st, ok := r2.(*ssa.Store)
					if !ok {
						continue
					}
					if accessKey(st.Addr) == "seat_manager.SeatManager.bb" {
						return true
					}
					if prm, isP := st.Addr.(*ssa.Parameter); isP && bind != nil {
						if fa, isFA := bind[prm].(*ssa.FieldAddr); isFA && fieldKeyOf(fa.X, fa.Field) == "seat_manager.SeatManager.bb" {
							return true
						}
					}
				}
			}
		}
		return false
	case *ssa.Call:
		f := x.Call.StaticCallee()
		if f == nil || f.Pkg != fn.Pkg || f.Blocks == nil {
			return false
		}
		b2 := map[*ssa.Parameter]ssa.Value{}
		for i, prm := range f.Params {
			if i < len(x.Call.Args) {
				b2[prm] = x.Call.Args[i]
			}
		}
		n := 0
		for _, b := range f.Blocks {
			if r, ok := b.Instrs[len(b.Instrs)-1].(*ssa.Return); ok && len(r.Results) >= 1 {
				n++
				if !startsAtBB(ix, r.Results[0], f, depth+1, b2) {
					return false
				}
			}
		}
		return n > 0
	case *ssa.Phi:
		for _, e := range x.Edges {
			if !startsAtBigBlind(ix, e, fn, depth) {
				return false
			}
		}
		return len(x.Edges) > 0
	case *ssa.Parameter:
		return viaCallers(ix, x, fn, func(a ssa.Value, cl *ssa.Function) bool { return startsAtBigBlind(ix, a, cl, depth+1) })
	}
	return false
}

func viaCallers(ix *Index, prm *ssa.Parameter, fn *ssa.Function, ok func(arg ssa.Value, caller *ssa.Function) bool) bool {
	idx := -1
	for i, q := range fn.Params {
		if q == prm {
			idx = i
		}
	}
	callers := ix.Callers(fn)
	if idx < 0 || len(callers) == 0 {
		return false
	}
	n := 0
	for _, cl := range callers {
		// a helper shared with another routine (the dealer search re-opens seats too): only the
		// calls made on behalf of the routine under analysis count
		if callerScope != nil && !callerScope[cl] {
			continue
		}
		for _, cs := range ix.CallSites(cl, fn) {
			args := cs.Common().Args
			n++
			if idx >= len(args) || !ok(args[idx], cl) {
				return false
			}
		}
	}
	return n > 0
}

// callerScope, when set, restricts viaCallers to call sites in these functions.
var callerScope map[*ssa.Function]bool

// unwrapSearch: a loop-free function that hands back, as its first result, the first result of
// another function of the module is a wrapper of that search (it re-slices the list, say); the
// predicate lives in the function that holds the loop.
func unwrapSearch(f *ssa.Function, depth int) *ssa.Function {
	if f == nil || depth > 2 || len(f.Blocks) == 0 || len(findLoops(f)) > 0 {
		return f
	}
	var inner *ssa.Function
	for _, b := range f.Blocks {
		r, ok := b.Instrs[len(b.Instrs)-1].(*ssa.Return)
		if !ok || len(r.Results) == 0 {
			continue
		}
		v := r.Results[0]
		if ex, ok := v.(*ssa.Extract); ok && ex.Index == 0 {
			v = ex.Tuple
		}
		call, ok := v.(*ssa.Call)
		if !ok {
			return f
		}
		g := call.Common().StaticCallee()
		if g == nil || !inModule(g) || (inner != nil && inner != g) {
			return f
		}
		inner = g
	}
	if inner == nil {
		return f
	}
	return unwrapSearch(inner, depth+1)
}

// wrappedSearchIndex: ex is result k of a call of a loop-free wrapper whose result 0 and result k
// are the seat and the index found by one inner search, and list (when it is another result of
// the same call) is the list that search was given.
func wrappedSearchIndex(ex *ssa.Extract, list ssa.Value) bool {
	call, ok := ex.Tuple.(*ssa.Call)
	if !ok {
		return false
	}
	w := call.Call.StaticCallee()
	if w == nil || len(w.Blocks) == 0 || len(findLoops(w)) > 0 {
		return false
	}
	n := 0
	for _, b := range w.Blocks {
		r, ok := b.Instrs[len(b.Instrs)-1].(*ssa.Return)
		if !ok {
			continue
		}
		n++
		if ex.Index >= len(r.Results) {
			return false
		}
		e0, ok0 := r.Results[0].(*ssa.Extract)
		ek, okk := r.Results[ex.Index].(*ssa.Extract)
		if !ok0 || !okk || e0.Tuple != ek.Tuple || e0.Index != 0 || ek.Index != 1 {
			return false
		}
		inner, ok := e0.Tuple.(*ssa.Call)
		if !ok {
			return false
		}
		if lx, ok := list.(*ssa.Extract); ok && lx.Tuple == ex.Tuple {
			if lx.Index >= len(r.Results) {
				return false
			}
			given := false
			for _, a := range inner.Call.Args {
				if a == r.Results[lx.Index] {
					given = true
				}
			}
			if !given {
				return false
			}
		}
	}
	return n > 0
}
