package main

import (
	"fmt"
	"go/token"
	"strings"

	"golang.org/x/tools/go/ssa"
)

func init() {
	register(&propDef{
		ID: "C17", Level: "other", Run: withShared(runC17, share{"C08", runC08, roleConstruct("positions-from-search", "ring builder")}),
		Explanation: "In the regular branch of the dealer move the seats searched are the clockwise ring starting at the current dealer with the dealer itself dropped (the button never stays put while somebody else can play), or the full ring from seat 0 when there is no dealer yet; the new dealer is the search's result; the playable search returns the first accepted element of its argument in order together with its index (it never skips a playable seat) and (nil, -1) only after a full pass; the seats passed by the button are re-activated up to, not including, the new dealer; Next returns the insufficient-players error when no dealer is found, and the blind assignment that follows is only reached with at least two playable seats or checked search results (the sentinel rule shared with C18). The ring is clockwise with wrap (shared with C08); the re-activation walk stops at the seat the search found; the dealer field is stored only while moving to the next hand or by an API that is given the button. Does NOT decide never-backwards, or that waiting players are let in first, over histories.",
		Trusted:     commonTrusted,
		Assumptions: []string{"the ring builder returns the clockwise order from its start id (checked under C08)", "the playable predicate is occupied AND active AND not reserved (checked under C08)"},
		NotCovered:  "never moves backwards; re-activation of passed seats as a history property; waiting players being let in first",
	})
}

func runC17(c *Ctx) {
	p := c.P
	ix := p.Index()
	next := p.Func(smPkg, "SeatManager", "Next")
	if next == nil {
		c.undecided("anchors", "Next", "-", "not found")
		return
	}
	// the dealer mover: the function in Next's call tree that stores sm.dealer
	// (the one Next calls directly; helpers it delegates to are analysed as part of it)
	var mover *ssa.Function
	writesDealer := func(fn *ssa.Function) bool {
		fi := ix.Info[fn]
		if fi == nil {
			return false
		}
		for _, w := range fi.Writes {
			if w.Key == "seat_manager.SeatManager.dealer" {
				return true
			}
		}
		return false
	}
	for _, cc := range ix.Info[next].Calls {
		if f := cc.StaticCallee(); f != nil && mover == nil && ix.Info[f] != nil && (writesDealer(f) || ix.Info[f].TWrites["seat_manager.SeatManager.dealer"]) {
			mover = f
		}
	}
	if mover == nil {
		c.undecided("anchors", "dealer-mover", "-", "no function in Next's call tree stores the dealer")
		return
	}
	c.role("dealer mover", fnKey(mover))
	c.touch(fnKey(mover), fnKey(next))
	s := newSumm(p, 0)
	s.EngineAliases = false
	// helpers the mover delegates to (a fallback branch, the choice of the candidate list) are
	// analysed in place; the searches, the ring builder and the counters stay visible as calls
	{
		base := smHelperFilter(p, mover)
		s.HelperInline = func(f *ssa.Function) bool {
			return base(f) || (privateHelper(mover, f) && writesDealer(f) && len(findSentinelsOf(p, f)) == 0)
		}
	}
	paths, cut := s.Function(mover)
	if cut != "" {
		c.undecided("search-starts-after-dealer", fnKey(mover), p.FnPos(mover), "summary cut: "+cut)
		return
	}
	// ---- search-starts-after-dealer
	var bad []string
	nRegular := 0
	var search *ssa.Function
	for _, ps := range paths {
		var st *Event
		for _, e := range ps.Events {
			if e.Kind == "store" && e.FKey == "seat_manager.SeatManager.dealer" {
				st = e
			}
		}
		if st == nil {
			continue
		}
		v := st.Val.String()
		hasDealer := hasCond(ps, func(x *Val) bool {
			return x.K == KAtom && x.At.Op == "is" && x.Neg && strings.Contains(x.At.String(), "recv.dealer") && strings.Contains(x.At.String(), "nil")
		})
		noDealer := hasCond(ps, func(x *Val) bool {
			return x.K == KAtom && x.At.Op == "is" && !x.Neg && strings.Contains(x.At.String(), "recv.dealer") && strings.Contains(x.At.String(), "nil")
		})
		// which call produced the stored value
		var call *Event
		for _, e := range ps.Events {
			if e.Kind != "call" || e.Res == nil {
				continue
			}
			if e.Res.String() == v {
				call = e
			}
			if e.Res.K == KTuple && len(e.Res.Args) > 0 && e.Res.Args[0].String() == v {
				call = e
			}
		}
		if call == nil {
			bad = append(bad, "the dealer is set to "+v+", not to the result of a search")
			continue
		}
		if len(call.Args) < 2 {
			// the single-seat fallback (no argument): accepted under the exactly-one test
			if !hasCond(ps, func(x *Val) bool {
				return x.K == KAtom && x.At.Op == "eq" && !x.Neg && strings.Contains(x.At.A.String(), "getPlayableSeatCount(recv)") && x.At.A.C == -1
			}) {
				bad = append(bad, "the fallback dealer is chosen without the exactly-one-playable test")
			}
			continue
		}
		nRegular++
		search = call.Fn
		arg := call.Args[1].String()
		switch {
		case hasDealer:
			if !(strings.HasPrefix(arg, "slice(") && strings.Contains(arg, ".getNormalizeSeats(recv, recv.dealer.ID), 1, _, _)")) {
				bad = append(bad, "with a dealer in place the search covers "+arg+": it must start strictly after the current dealer or the button can stay put")
			}
		case noDealer:
			if !strings.HasSuffix(arg, ".getNormalizeSeats(recv, 0)") {
				bad = append(bad, "without a dealer the search covers "+arg+", expected the full ring from seat 0")
			}
		default:
			bad = append(bad, "the search is run without knowing whether a dealer exists: path ["+ps.CondString()+"]")
		}
	}
	c.check(len(bad) == 0 && nRegular >= 2, "search-starts-after-dealer", fnKey(mover), p.FnPos(mover), "the new dealer is the first hit of a search that starts strictly after the current dealer (or at seat 0 when there is none)", "the button can stay put or start from the wrong seat", uniq(bad, 3)...)

	// re-activation of passed seats: in the found branch, seats before the new dealer are activated, none after
	{
		var bad2 []string
		okFound := false
		var lps []lp
		seenL := map[*Loop]bool{}
		enterArgs := map[*Loop][]*Val{}
		for _, ps := range paths {
			for i, e := range ps.Events {
				if e.Kind == "loop" && !seenL[e.Loop] {
					seenL[e.Loop] = true
					lps = append(lps, lp{e.InFn, e.Loop})
					// a walk that lives in a helper: the arguments the helper was entered with
					for _, en := range ps.Events[:i] {
						if en.Kind == "enter" && en.Fn == e.InFn {
							enterArgs[e.Loop] = en.Args
						}
					}
				}
			}
		}
		for _, x := range lps {
			l := x.l
			body, _ := s.LoopBody(x.fn, l)
			inHelper := func(side string) string {
				if args, ok := enterArgs[l]; ok {
					return substParams(side, x.fn, args)
				}
				return side
			}
			// the loop with an exit on "element == found dealer"
			hasStop := false
			for _, ps := range body {
				if strings.HasPrefix(ps.End, "exit") && len(ps.Conds) > 0 && ps.Conds[0].V.K == KAtom && ps.Conds[0].V.At.Op == "is" && !ps.Conds[0].V.Neg {
					hasStop = true
					if len(ps.storesTo("seat_manager.Seat.IsActive")) > 0 {
						bad2 = append(bad2, "the new dealer's own seat is modified while passing")
					}
					// the walk stops at the seat the search just found, not at some other seat
					at := ps.Conds[0].V.At
					okStop := false
					for _, side := range []string{inHelper(at.L), inHelper(at.R)} {
						if search != nil && strings.HasPrefix(side, fnKey(search)+"(") {
							okStop = true
						}
						if strings.HasPrefix(side, "loopval:") && isSearchHit(x.fn, strings.TrimPrefix(side, "loopval:"), search) {
							okStop = true
						}
					}
					if !okStop {
						bad2 = append(bad2, "the re-activation walk stops at ["+at.String()+"], not at the dealer the search just found")
					}
				}
			}
			if !hasStop {
				// the stop may also be the loop's own condition: "for i := 0; seats[i] != found; i++":
				// then every iteration carries the negated comparison of the element with the search result
				all, n := true, 0
				for _, ps := range body {
					if ps.End != "continue" {
						continue
					}
					n++
					if !hasCond(ps, func(x *Val) bool {
						if !(x.K == KAtom && x.At.Op == "is" && x.Neg && strings.Contains(x.At.String(), "[iter:") && search != nil) {
							return false
						}
						if strings.Contains(x.At.String(), fnKey(search)+"(") || strings.Contains(inHelper(x.At.L), fnKey(search)+"(") || strings.Contains(inHelper(x.At.R), fnKey(search)+"(") {
							return true
						}
						// a value defined before the loop on several paths is opaque in the body
						// summary: resolve it in the SSA form
						for _, side := range []string{x.At.L, x.At.R} {
							if strings.HasPrefix(side, "loopval:") && isSearchHit(x0fn(lps, l), strings.TrimPrefix(side, "loopval:"), search) {
								return true
							}
						}
						return false
					}) {
						all = false
					}
				}
				hasStop = all && n > 0
			}
			if !hasStop {
				continue
			}
			okFound = true
			for _, ps := range body {
				if ps.End == "continue" {
					st := ps.storesTo("seat_manager.Seat.IsActive")
					if len(st) != 1 || st[0].Val.String() != "true" {
						bad2 = append(bad2, "a seat passed by the button is not re-activated")
					}
				}
			}
		}
		c.check(okFound && len(bad2) == 0, "search-starts-after-dealer", fnKey(mover)+"#reactivate-passed", p.FnPos(mover), "seats between the old and the new dealer are re-activated, the walk stops at the new dealer", "passed seats are not re-activated up to the new dealer", uniq(bad2, 2)...)
	}

	// ---- first-hit
	if search == nil {
		c.undecided("first-hit", "search", "-", "the playable search is not resolvable from the dealer mover")
	} else {
		c.role("playable search", fnKey(search))
		c.touch(fnKey(search))
		s2 := newSumm(p, 0)
		s2.EngineAliases = false
		s2.HelperInline = purePredicate(p, search)
		fpaths, _ := s2.Function(search)
		var bad3 []string
		loops := s2.loops(search)
		if len(loops) != 1 {
			bad3 = append(bad3, fmt.Sprintf("%d loops", len(loops)))
		} else {
			l := loops[0]
			ri := analyseRange(l)
			if ri.Kind != "slice" || !ri.Full || ri.Coll != ssa.Value(search.Params[1]) {
				bad3 = append(bad3, "the search is not a full range over its argument starting at the first element")
			}
			body, _ := s2.LoopBody(search, l)
			nHit := 0
			hits := hitExits(p, search)
			for _, ps := range body {
				if strings.HasPrefix(ps.End, "exit:") && hits[strings.TrimPrefix(ps.End, "exit:")] {
					// the hit is returned right after the loop: (element at the loop index, the loop index)
					nHit++
					okRet := false
					for _, fp := range fpaths {
						if len(fp.Ret) == 2 && hasCond(fp, func(x *Val) bool {
							return x.K == KAtom && x.At.Op == "b" && strings.HasSuffix(x.At.L, "exit→"+strings.TrimPrefix(ps.End, "exit:"))
						}) {
							idx := fp.Ret[1].String()
							if strings.HasPrefix(idx, "loopval:") && fp.Ret[0].String() == "param:"+search.Params[1].Name()+"["+idx+"]" {
								if ci := analyseCounting(l); ci.OK && idx == "loopval:"+search.Name()+"."+ci.Phi.Name() {
									okRet = true
								}
							}
						}
					}
					if !okRet {
						bad3 = append(bad3, "the hit returned after the loop is not the current element with its index")
					}
					continue
				}
				if strings.HasPrefix(ps.End, "exit-return") {
					nHit++
					// returns (element, its index)
					if len(ps.Ret) != 2 || !strings.HasPrefix(ps.Ret[0].String(), "param:"+search.Params[1].Name()+"[iter:") {
						bad3 = append(bad3, "the hit returned is not the current element")
					} else {
						idx := strings.TrimSuffix(strings.TrimPrefix(ps.Ret[0].String(), "param:"+search.Params[1].Name()+"["), "]")
						if ps.Ret[1].String() != idx {
							bad3 = append(bad3, "the index returned ("+ps.Ret[1].String()+") is not the index of the element returned ("+idx+")")
						}
					}
				} else if ps.End != "continue" {
					bad3 = append(bad3, "the search can stop without a hit: "+ps.End)
				}
			}
			if nHit == 0 {
				bad3 = append(bad3, "the search never returns from inside the loop: it cannot return the first hit")
			}
			// every playable element stops the search (never skipped), whatever its index
			if ok, why := checkPlayableTable(body, acceptHit(p, search)); !ok {
				bad3 = append(bad3, why...)
			}
			// after a full pass: (nil, -1)
			for _, ps := range fpaths {
				if ps.End == "return" && hasCond(ps, func(x *Val) bool { return x.K == KAtom && x.At.Op == "b" && strings.Contains(x.At.L, "exit→") }) {
					continue
				}
			}
			miss := false
			for _, ps := range fpaths {
				if len(ps.Ret) == 2 && ps.Ret[0].String() == "nil" && ps.Ret[1].String() == "-1" {
					miss = true
				}
			}
			if !miss {
				bad3 = append(bad3, "a failed search does not return (nil, -1)")
			}
		}
		c.check(len(bad3) == 0, "first-hit", fnKey(search), p.FnPos(search), "returns the first accepted element of its argument with its index; (nil, -1) after a full pass", "the search can skip a playable seat or report the wrong index", uniq(bad3, 3)...)
	}

	// ---- refusal
	{
		s3 := newSumm(p, 0)
		s3.EngineAliases = false
		np, _ := s3.Function(next)
		var bad4 []string
		nRefuse := 0
		for _, ps := range np {
			noDealer := hasCond(ps, func(x *Val) bool {
				return x.K == KAtom && x.At.Op == "is" && !x.Neg && strings.Contains(x.At.String(), fnKey(mover)+"(recv)") && strings.Contains(x.At.String(), "nil")
			})
			if noDealer {
				nRefuse++
				name, ok := "", false
				if len(ps.Ret) == 1 {
					name, ok = c.sentinelError(ps.Ret[0])
				}
				if !ok || !strings.HasSuffix(name, "ErrInsufficientNumberOfPlayers") {
					rv := "<nothing>"
					if len(ps.Ret) == 1 {
						rv = ps.Ret[0].String()
					}
					bad4 = append(bad4, "without a dealer Next returns "+rv+", not the insufficient-players error")
				}
				// no blind assignment on this path
				for _, e := range ps.Events {
					if e.Kind == "call" && e.Fn != nil && e.Fn != mover {
						for _, w := range ix.Info[e.Fn].Writes {
							if w.Key == "seat_manager.SeatManager.bb" {
								bad4 = append(bad4, "blinds are assigned although no dealer was found")
							}
						}
					}
				}
			}
		}
		c.check(len(bad4) == 0 && nRefuse > 0, "refusal", fnKey(next), p.FnPos(next), "no dealer found: refused with the insufficient-players error before any blind assignment", "Next does not refuse correctly", uniq(bad4, 3)...)
	}
	// ---- dealer-owner: the button is remembered between hands in the dealer field, and the next
	// search starts from it. Only the move to the next hand (and the constructor) may store it: a
	// seat operation that clears or moves it makes the next search start from the wrong seat
	{
		tree := ix.Reachable(next)
		var bad5 []string
		nW := 0
		for _, w := range ix.Writers("seat_manager.SeatManager.dealer") {
			nW++
			if tree[w] || (w.Signature.Recv() == nil && strings.HasPrefix(w.Name(), "New")) {
				continue
			}
			if len(ix.Callers(w)) == 0 && !token.IsExported(w.Name()) {
				continue // dead helper
			}
			// explicit positioning by the caller (SetDealer(id), ApplyStates(state)): the new button
			// is an argument, not something the seat manager decides
			explicit := false
			for _, b := range w.Blocks {
				for _, in := range b.Instrs {
					if st, ok := in.(*ssa.Store); ok && accessKey(st.Addr) == "seat_manager.SeatManager.dealer" && fromArgument(st.Val, w, 0) {
						explicit = true
					}
				}
			}
			if explicit {
				continue
			}
			bad5 = append(bad5, fnKey(w)+" stores the dealer outside the move to the next hand")
		}
		c.check(len(bad5) == 0 && nW > 0, "dealer-owner", "SeatManager.dealer", p.FnPos(mover), "the dealer field is stored only while moving to the next hand", "the remembered button can be changed between hands", uniq(bad5, 3)...)
	}
	// shared sentinel rule (C18/sentinels): blind assignment only with checked / count-guarded searches
	runSentinels(c, "refusal")
}

type lp struct {
	fn *ssa.Function
	l  *Loop
}

func x0fn(lps []lp, l *Loop) *ssa.Function {
	for _, x := range lps {
		if x.l == l {
			return x.fn
		}
	}
	return nil
}

// isSearchHit: the SSA value "<fn>.<name>" is the first result of a call to the search.
func isSearchHit(fn *ssa.Function, qualified string, search *ssa.Function) bool {
	if fn == nil {
		return false
	}
	name := qualified[strings.LastIndex(qualified, ".")+1:]
	for _, b := range fn.Blocks {
		for _, in := range b.Instrs {
			v, ok := in.(ssa.Value)
			if !ok || v.Name() != name {
				continue
			}
			if ex, ok := v.(*ssa.Extract); ok && ex.Index == 0 {
				if call, ok := ex.Tuple.(*ssa.Call); ok && call.Common().StaticCallee() == search {
					return true
				}
			}
		}
	}
	return false
}

// fromArgument: the value is selected by an argument of fn other than the receiver (a seat looked
// up by a parameter, a field of a parameter).
func fromArgument(v ssa.Value, fn *ssa.Function, depth int) bool {
	if depth > 8 {
		return false
	}
	switch x := v.(type) {
	case *ssa.Parameter:
		return !(fn.Signature.Recv() != nil && len(fn.Params) > 0 && fn.Params[0] == x)
	case *ssa.Lookup:
		return fromArgument(x.Index, fn, depth+1)
	case *ssa.Extract:
		return fromArgument(x.Tuple, fn, depth+1)
	case *ssa.UnOp:
		return fromArgument(x.X, fn, depth+1)
	case *ssa.FieldAddr:
		return fromArgument(x.X, fn, depth+1)
	case *ssa.Field:
		return fromArgument(x.X, fn, depth+1)
	case *ssa.IndexAddr:
		return fromArgument(x.Index, fn, depth+1) || fromArgument(x.X, fn, depth+1)
	case *ssa.Index:
		return fromArgument(x.Index, fn, depth+1) || fromArgument(x.X, fn, depth+1)
	case *ssa.Convert:
		return fromArgument(x.X, fn, depth+1)
	case *ssa.ChangeType:
		return fromArgument(x.X, fn, depth+1)
	case *ssa.BinOp:
		return fromArgument(x.X, fn, depth+1) || fromArgument(x.Y, fn, depth+1)
	case *ssa.Phi:
		for _, e := range x.Edges {
			if fromArgument(e, fn, depth+1) {
				return true
			}
		}
	}
	return false
}
