package main

import (
	"fmt"
	"go/token"
	"strings"

	"golang.org/x/tools/go/ssa"
)

func init() {
	register(&propDef{
		ID: "C12", Level: "other", Run: withShared(runC12, share{"C13", runC13, ruleIs("min-raise-init")}, share{"C11", runC11, ruleIs("offer-table")}, share{"C07", runC07, minRaiseSurvivesReload}),
		Explanation: "Raise(x) is extracted as a decision table (refused / delegated to Call / delegated to Allin / carried out) and compared with the minimum-raise rule on a bounded grid including negative and zero amounts; on the carried-out rows PreviousRaiseSize' = x - CurrentWager and the chip mover is paid x - Wager as a wager. For every offered action, the amount handed to the chip mover is non-negative for every caller-supplied argument (grid with negative parameters, state constraints only on state). Every in-round store to Status.CurrentWager is dominated by old < new, and raising the wager to match makes the payer the current raiser. Pot-limit rows are only checked for amount sign.",
		Trusted:     commonTrusted,
		Assumptions: []string{"state constraints on the grid: chip quantities >= 0, StackSize = InitialStackSize - Wager, Wager <= CurrentWager", "grid -3..6 for parameters, 0..6 for state (0..9 thorough)"},
		NotCovered:  "pot-limit sizing; numeric bounds on stacks beyond the sign of the amount",
	})
}

func runC12(c *Ctx) {
	p := c.P
	ea := c.engine()
	if ea.playerImpl == "" || ea.gameImpl == "" {
		c.undecided("anchors", "engine-implementations", "-", "pokerface.Player / pokerface.Game do not have exactly one implementation each")
		return
	}
	mover := c.chipMover(ea)
	if mover == nil {
		c.undecided("anchors", "chip-mover", "-", "cannot resolve the chip-moving routine")
		return
	}
	acts := c.actionMethods(ea)
	offered, _, _ := c.offeredActions(ea)
	byConst := map[string]*ssa.Function{}
	for _, am := range acts {
		byConst[am.Const] = am.Fn
	}
	hi := int64(6)
	if c.Tier == "thorough" {
		hi = 9
	}

	checkAmountNonNeg(c, ea)

	// ---- raise-table
	if fn := byConst["raise"]; fn == nil {
		c.bad("raise-table", "action:raise", "-", "no action method guarded by raise")
	} else {
		runRaiseTable(c, fn, mover, byConst, hi)
	}

	// ---- min-raise-monotone: an action records a new minimum raise only when the increment is
	// at least the old one (a short all-in is not a raise and must not shrink the minimum)
	{
		nPRS := 0
		for _, am := range acts {
			if !offered[am.Const] {
				continue
			}
			fn := am.Fn
			s := newSumm(p, 0)
			s.HelperInline = bodyHelpers(fn, mover)
			paths, _ := s.Function(fn)
			var viol []string
			nHere := 0
			for _, ps := range paths {
				var st *Event
				for _, e := range ps.Events {
					if e.Kind == "store" && e.FKey == "pokerface.Status.PreviousRaiseSize" {
						st = e
					}
				}
				if st == nil {
					continue
				}
				nPRS++
				nHere++
				ints, bools := tableVars([]*PathSum{ps})
				im := map[string]bool{}
				for _, t := range ints {
					im[t] = true
				}
				for t := range st.Val.asAff().T {
					if !im[t] {
						ints = append(ints, t)
						im[t] = true
					}
				}
				tPRS, tCW := "GS.Status.PreviousRaiseSize", "GS.Status.CurrentWager"
				if !im[tPRS] {
					ints = append(ints, tPRS)
				}
				tStack, tInit, tWager := findTerm(ints, ".StackSize"), findTerm(ints, ".InitialStackSize"), findTerm(ints, ").Wager")
				// terms read after the chip mover ran (an epoch suffix @hN) are not free: the mover's
				// summary gives them from the state before and the amount it was handed
				var moverArg *Aff
				for _, e := range ps.Events {
					if e.Kind == "call" && e.Fn == mover && len(e.Args) >= 2 {
						moverArg = e.Args[1].asAff()
					}
				}
				if moverArg != nil {
					for t := range moverArg.T {
						if !im[t] {
							ints = append(ints, t)
							im[t] = true
						}
					}
				}
				post := map[string]string{} // term@h -> kind
				for _, t := range ints {
					if i := strings.LastIndex(t, "@h"); i > 0 {
						base := t[:i]
						switch {
						case strings.HasSuffix(base, ".StackSize"):
							post[t] = "stack"
						case strings.HasSuffix(base, ").Wager"):
							post[t] = "wager"
						case strings.HasSuffix(base, ".InitialStackSize"):
							post[t] = "init"
						case strings.HasSuffix(base, "Status.CurrentWager"):
							post[t] = "cw"
						case strings.HasSuffix(base, "Status.PreviousRaiseSize"):
							post[t] = "prs"
						}
					}
				}
				if tStack != "" && strings.Contains(tStack, "@h") {
					tStack = ""
					for _, t := range ints {
						if strings.HasSuffix(t, ".StackSize") {
							tStack = t
						}
					}
				}
				if tWager != "" && strings.Contains(tWager, "@h") {
					tWager = ""
					for _, t := range ints {
						if strings.HasSuffix(t, ").Wager") {
							tWager = t
						}
					}
				}
				if len(post) > 0 {
					// the pre-state terms the post-state ones are computed from must be on the grid
					for _, need := range []struct {
						t    *string
						name string
					}{{&tStack, "PS(recv).StackSize"}, {&tWager, "PS(recv).Wager"}} {
						if *need.t == "" {
							*need.t = need.name
							ints = append(ints, need.name)
							im[need.name] = true
						}
					}
					if !im[tCW] {
						ints = append(ints, tCW)
						im[tCW] = true
					}
				}
				var en []string
				for _, t := range ints {
					if t == tStack && tInit != "" {
						continue
					}
					if _, isPost := post[t]; isPost {
						continue
					}
					en = append(en, t)
				}
				h := int64(5)
				if len(en) > 6 {
					h = 3
				}
				enumGridR(en, func(string) (int64, int64) { return 0, h }, bools, func(a Asg) bool {
					if tStack != "" && tInit != "" {
						w := int64(0)
						if tWager != "" {
							w = a.I[tWager]
						}
						a.I[tStack] = a.I[tInit] - w
						if a.I[tStack] < 0 {
							return false
						}
					}
					if tWager != "" && im[tCW] && a.I[tWager] > a.I[tCW] {
						return false
					}
					if am.Const == "bet" {
						// a bet is only offered when nobody has wagered: the round's minimum is still unset
						if a.I[tCW] != 0 || a.I[tPRS] != 0 {
							return false
						}
						if tWager != "" && a.I[tWager] != 0 {
							return false
						}
					}
					if len(post) > 0 && moverArg != nil {
						arg, ok := evalAff(moverArg, a)
						if !ok {
							return false
						}
						paid := arg
						if tStack != "" && paid > a.I[tStack] {
							paid = a.I[tStack]
						}
						w := int64(0)
						if tWager != "" {
							w = a.I[tWager]
						}
						for t, kind := range post {
							switch kind {
							case "stack":
								a.I[t] = a.I[tStack] - paid
							case "wager":
								a.I[t] = w + paid
							case "init":
								a.I[t] = a.I[tInit]
							case "cw":
								a.I[t] = a.I[tCW]
								if w+paid > a.I[t] {
									a.I[t] = w + paid
								}
							case "prs":
								a.I[t] = a.I[tPRS]
							}
						}
					}
					return true
				}, func(a Asg) bool {
					holds, ok := evalPath(ps, a)
					if !ok || !holds {
						return true
					}
					v, ok := evalAff(st.Val.asAff(), a)
					if ok && v < a.I[tPRS] && len(viol) < 3 {
						viol = append(viol, fmt.Sprintf("the minimum raise drops from %d to %d (%s) for {%s}", a.I[tPRS], v, st.Val, a.String()))
					}
					// what is recorded is the lift of the wager to match: for an amount the player
					// holds, the mover puts it in full, so the level reached is Wager + amount
					if ok && moverArg != nil && tStack != "" && im[tCW] {
						if arg, okA := evalAff(moverArg, a); okA && arg > 0 && arg <= a.I[tStack] {
							w := int64(0)
							if tWager != "" {
								w = a.I[tWager]
							}
							if lift := w + arg - a.I[tCW]; lift > 0 && v != lift && len(viol) < 3 {
								viol = append(viol, fmt.Sprintf("the minimum recorded is %d (%s) but the wager to match is lifted by %d for {%s}", v, st.Val, lift, a.String()))
							}
						}
					}
					return len(viol) < 3
				})
			}
			if nHere > 0 {
				c.check(len(viol) == 0, "min-raise-monotone", fnKey(fn), p.FnPos(fn), "a new minimum raise is recorded only when the increment is at least the old minimum, and it is the lift of the wager to match", "an action records a wrong minimum raise: the next undersized raise would be carried out", viol...)
			}
		}
		c.floor("min-raise-monotone", "paths recording a minimum raise", nPRS, 2)
	}

	// ---- wager-monotone: every store to CurrentWager other than := 0
	ix := p.Index()
	nStores := 0
	for _, w := range ix.Writers("pokerface.Status.CurrentWager") {
		c.touch(fnKey(w))
		s := newSumm(p, 0)
		paths, _ := s.Function(w)
		seen := map[string]bool{}
		for _, ps := range paths {
			for i, e := range ps.Events {
				if e.Kind != "store" || e.FKey != "pokerface.Status.CurrentWager" {
					continue
				}
				if v, ok := e.Val.isConstInt(); ok && v == 0 {
					if !seen[e.Pos+"0"] {
						seen[e.Pos+"0"] = true
						c.ok("wager-monotone", fnKey(w)+"#reset", e.Pos, "round-boundary reset to 0")
					}
					continue
				}
				nStores++
				d := affTerm("GS.Status.CurrentWager").add(e.Val.asAff(), -1) // old - new
				okm := false
				for _, cd := range ps.Conds {
					if cd.NEv > i || cd.V.K != KAtom {
						continue
					}
					if a, ok := ltForm(cd.V); ok && a.equal(d) {
						okm = true
					}
				}
				key := fnKey(w) + "#store-CurrentWager:" + e.Val.String()
				if seen[key+fmt.Sprint(okm)] {
					continue
				}
				seen[key+fmt.Sprint(okm)] = true
				c.check(okm, "wager-monotone", key, e.Pos, "stored only under old < new", "the wager to match can be overwritten with a smaller value on path ["+ps.CondString()+"]")
			}
		}
	}
	c.floor("wager-monotone", "in-round stores to CurrentWager", nStores, 2)

	// ---- min-raise-owner: the minimum raise of a round starts from zero at every round boundary and
	// is set to the big blind by the blinds payment; after that only the chip mover and the offered
	// actions (a bet, a raise) store it. A value left over from an earlier street, or seeded by the
	// street sequencing, decides wrongly whether a later short all-in or raise counts
	{
		ix := p.Index()
		isAct := map[*ssa.Function]bool{}
		for _, am := range acts {
			isAct[am.Fn] = true
		}
		var bad []string
		nW := 0
		for _, w := range ix.Writers("pokerface.Status.PreviousRaiseSize") {
			nW++
			if w == mover || isAct[w] {
				continue
			}
			// a body helper of an action method
			helperOfAct := false
			for _, cl := range ix.Callers(w) {
				if isAct[cl] && privateHelper(cl, w) {
					helperOfAct = true
				}
			}
			if helperOfAct {
				continue
			}
			s := newSumm(p, 0)
			owner := w
			s.HelperInline = func(f *ssa.Function) bool { return privateHelper(owner, f) && len(findLoops(f)) == 0 }
			paths, _ := s.Function(w)
			for _, ps := range paths {
				for _, e := range ps.storesTo("pokerface.Status.PreviousRaiseSize") {
					v := e.Val.String()
					if z, ok := e.Val.isConstInt(); ok && z == 0 {
						continue // a reset
					}
					if strings.HasSuffix(v, "Meta.Blind.BB") || strings.HasSuffix(v, "Meta.Blind.Dealer") || strings.HasSuffix(v, ".Blind.BB") || strings.HasSuffix(v, ".Blind.Dealer") {
						continue // the opening minimum (C13/min-raise-init decides which and when)
					}
					bad = append(bad, fnKey(w)+" sets the minimum raise to "+v+" ("+e.Pos+")")
				}
			}
		}
		// every round reset zeroes it
		for _, r := range ix.Writers("pokerface.Status.CurrentRoundPot") {
			if r == mover {
				continue
			}
			s := newSumm(p, 0)
			paths, _ := s.Function(r)
			resets := len(paths) > 0
			for _, ps := range paths {
				st := ps.storesTo("pokerface.Status.CurrentRoundPot")
				if ps.End != "return" {
					continue
				}
				if len(st) == 0 {
					resets = false
					continue
				}
				if z, ok := st[len(st)-1].Val.isConstInt(); !ok || z != 0 {
					resets = false
				}
			}
			if !resets {
				continue
			}
			for _, ps := range paths {
				if ps.End != "return" {
					continue
				}
				st := ps.storesTo("pokerface.Status.PreviousRaiseSize")
				okz := false
				for _, e := range st {
					if z, ok := e.Val.isConstInt(); ok && z == 0 {
						okz = true
					}
				}
				if !okz {
					bad = append(bad, fnKey(r)+" resets the round without zeroing the minimum raise: the last street's raise size carries over")
				}
			}
		}
		c.check(len(bad) == 0 && nW >= 3, "min-raise-owner", "Status.PreviousRaiseSize", "-", "zeroed by every round reset, opened by the blinds payment, otherwise stored only by the chip mover and the offered actions", "the minimum raise is set or kept by something else", uniq(bad, 3)...)
	}

	// ---- raiser: raising the wager to match makes the payer the current raiser
	{
		s := newSumm(p, 2)
		s.InlineFilter = func(f *ssa.Function) bool {
			return f.Name() != "BecomeRaiser" && f.Name() != "ResetActedPlayers" && f.Pkg != nil && shortPkg(f.Pkg.Pkg.Path()) == "pokerface" && f.Signature.Recv() != nil && strings.HasSuffix(recvName(f.Signature.Recv().Type()), ea.playerImpl)
		}
		paths, _ := s.Function(mover)
		var bad []string
		n := 0
		for _, ps := range paths {
			raisedNormal := false
			for i, e := range ps.Events {
				if e.Kind == "store" && e.FKey == "pokerface.Status.CurrentWager" && strings.Contains(e.Val.String(), "param:") {
					raisedNormal = true
					n++
					found := false
					for _, e2 := range ps.Events[i+1:] {
						if e2.Kind == "call" && strings.HasSuffix(e2.Callee, ".BecomeRaiser") && len(e2.Args) >= 2 && e2.Args[1].String() == "recv" {
							found = true
						}
					}
					if !found {
						bad = append(bad, "wager to match raised at "+e.Pos+" without making the payer the raiser")
					}
				}
			}
			_ = raisedNormal
		}
		br := p.Func("pokerface", ea.gameImpl, "BecomeRaiser")
		if br != nil {
			c.touch(fnKey(br))
			s2 := newSumm(p, 1)
			bp, _ := s2.Function(br)
			for _, ps := range bp {
				st := ps.Store["GS.Status.CurrentRaiser"]
				if st == nil || !strings.Contains(st.String(), "param:p") {
					bad = append(bad, "BecomeRaiser does not record its argument's seat as CurrentRaiser")
				}
			}
		} else {
			bad = append(bad, "BecomeRaiser not found")
		}
		c.check(len(bad) == 0 && n > 0, "raiser", fnKey(mover)+"#becomes-raiser", p.FnPos(mover), "a full raise makes the payer the current raiser", "raiser bookkeeping broken", uniq(bad, 3)...)
	}
}

func runRaiseTable(c *Ctx, fn, mover *ssa.Function, byConst map[string]*ssa.Function, hi int64) {
	p := c.P
	c.touch(fnKey(fn))
	s := newSumm(p, 0)
	s.HelperInline = bodyHelpers(fn, mover)
	paths, cut := s.Function(fn)
	if cut != "" {
		c.undecided("raise-table", fnKey(fn), p.FnPos(fn), "summary cut: "+cut)
		return
	}
	x := "param:" + fn.Params[1].Name()
	ints, bools := tableVars(paths)
	tInit, tWager, tCW, tPRS := findTerm(ints, ".InitialStackSize"), findTerm(ints, ").Wager"), findTerm(ints, "Status.CurrentWager"), findTerm(ints, "Status.PreviousRaiseSize")
	if tInit == "" || tCW == "" || tPRS == "" || findTerm(ints, x) == "" {
		c.bad("raise-table", fnKey(fn)+"#terms", p.FnPos(fn), "Raise does not depend on the requested level, InitialStackSize, CurrentWager and PreviousRaiseSize: it cannot implement the minimum-raise rule")
		return
	}
	if tWager == "" {
		ints = append(ints, "PS(recv).Wager")
		tWager = "PS(recv).Wager"
	}
	guardB, potB := "", ""
	for _, b := range bools {
		if strings.Contains(b, "CheckAction(") {
			guardB = b
		}
		if strings.Contains(b, `"pot"`) {
			potB = b
		}
	}
	outcomeOf := func(ps *PathSum) (string, *Event) {
		for _, e := range ps.Events {
			if e.Kind != "call" {
				continue
			}
			switch {
			case e.Fn == mover:
				return "carried", e
			case e.Fn != nil && e.Fn == byConst["call"]:
				return "call", e
			case e.Fn != nil && e.Fn == byConst["allin"]:
				return "allin", e
			}
		}
		if len(ps.Ret) == 1 {
			if _, ok := c.sentinelError(ps.Ret[0]); ok {
				return "refused", nil
			}
		}
		return "other", nil
	}
	var viol []string
	selfErr := ""
	n := enumGridR(ints, func(name string) (int64, int64) {
		if name == x {
			return -3, hi
		}
		return 0, hi
	}, bools, func(a Asg) bool {
		if a.I[tWager] > a.I[tInit] || a.I[tWager] > a.I[tCW] {
			return false
		}
		if guardB != "" && !a.B[guardB] {
			return false // not offered: refused by the action guard (C04)
		}
		if potB != "" && a.B[potB] {
			return false // pot-limit: outside the property
		}
		return true
	}, func(a Asg) bool {
		row, err := selectPath(paths, a)
		if err != "" {
			selfErr = err
			return false
		}
		out, ev := outcomeOf(row)
		xv, cw, prs, init, wager := a.I[x], a.I[tCW], a.I[tPRS], a.I[tInit], a.I[tWager]
		fail := func(msg string) {
			if len(viol) < 6 {
				viol = append(viol, fmt.Sprintf("%s — {%s}: outcome %s (row [%s])", msg, a.String(), out, row.CondString()))
			}
		}
		if out == "other" {
			fail("row is none of refused / call / all-in / carried out")
		}
		if xv < cw && out != "refused" {
			fail("a request below the current wager must be refused")
		}
		if xv <= 0 && out != "refused" && xv < cw+1 && cw == 0 {
			fail("a non-positive request must be refused")
		}
		if xv > cw && xv < init && xv-cw >= prs {
			if out != "carried" {
				fail("a raise of at least the minimum below the stack must be carried out exactly")
			} else {
				// exactness: PreviousRaiseSize' = x - CW, pay(x - Wager, wager)
				var np *Val
				for _, e := range row.Events {
					if e == ev {
						break
					}
					if e.Kind == "store" && e.FKey == "pokerface.Status.PreviousRaiseSize" {
						np = e.Val
					}
				}
				if np == nil {
					fail("the increment is not recorded as the new minimum raise")
				} else if v, ok := evalAff(np.asAff(), a); !ok || v != xv-cw {
					fail(fmt.Sprintf("new minimum raise is %s, expected x - CurrentWager", np))
				}
				if v, ok := evalAff(ev.Args[1].asAff(), a); !ok || v != xv-wager {
					fail(fmt.Sprintf("pays %s, expected x - Wager", ev.Args[1]))
				}
				if len(ev.Args) > 2 && ev.Args[2].String() != "true" {
					fail("paid as non-wager")
				}
			}
		}
		if xv > cw && xv-cw < prs && out == "carried" {
			fail("an undersized raise must never be carried out")
		}
		return len(viol) < 6
	})
	c.Sites += n
	if selfErr != "" {
		c.undecided("raise-table", fnKey(fn)+"#extraction", p.FnPos(fn), "table self-check failed: "+selfErr)
		return
	}
	c.floor("raise-table", "rows", len(paths), 4)
	c.check(len(viol) == 0, "raise-table", fnKey(fn)+"#reference", p.FnPos(fn),
		fmt.Sprintf("%d rows agree with the minimum-raise rule on %d states", len(paths), n), "Raise does not follow the minimum-raise rule", viol...)
}

// checkAmountNonNeg: for every offered action, the amount handed to the chip mover is
// non-negative for every caller-supplied argument (C12/amount-nonneg, cross-listed as
// C01/amount-nonneg).
func checkAmountNonNeg(c *Ctx, ea *engineAnchors) {
	p := c.P
	mover := c.chipMover(ea)
	if mover == nil {
		c.undecided("amount-nonneg", "chip-mover", "-", "cannot resolve the chip-moving routine")
		return
	}
	acts := c.actionMethods(ea)
	// the grid below reasons over the integers; machine arithmetic agrees with it only while the
	// caller-supplied amount has been bounded from below: no arithmetic on the raw amount before a
	// refusing comparison of the amount itself ("x - w < 0" wraps for x near the minimum int64,
	// "x < w" does not)
	for _, am := range acts {
		fn := am.Fn
		for _, prm := range fn.Params[1:] {
			if !isIntType(prm.Type()) {
				continue
			}
			var bad []string
			for _, ref := range *prm.Referrers() {
				bo, ok := ref.(*ssa.BinOp)
				if !ok {
					continue
				}
				switch bo.Op {
				case token.ADD, token.SUB, token.MUL:
				default:
					continue
				}
				if !lowerBounded(bo, prm) {
					bad = append(bad, "arithmetic on the raw amount at "+p.InstrPos(bo)+" before any comparison bounds it from below: the result can wrap")
				}
			}
			c.check(len(bad) == 0, "amount-nonneg", fnKey(fn)+"#no-wrap", p.FnPos(fn), "the amount is compared itself before it enters any arithmetic", "a guard on the amount can be defeated by integer wrap-around", uniq(bad, 2)...)
		}
	}
	offered, _, _ := c.offeredActions(ea)
	hi := int64(6)
	if c.Tier == "thorough" {
		hi = 9
	}
	nAmt := 0
	for _, am := range acts {
		if !offered[am.Const] {
			c.Notes = append(c.Notes, fmt.Sprintf("%s is guarded by %q which the engine never offers: amount obligations vacuous", am.Fn.Name(), am.Const))
			continue
		}
		fn := am.Fn
		s := newSumm(p, 0)
		s.HelperInline = bodyHelpers(fn, mover)
		paths, cut := s.Function(fn)
		if cut != "" {
			c.undecided("amount-nonneg", fnKey(fn), p.FnPos(fn), "summary cut: "+cut)
			continue
		}
		var pays []*PathSum
		for _, ps := range paths {
			for _, e := range ps.Events {
				if e.Kind == "call" && e.Fn == mover {
					pays = append(pays, ps)
					break
				}
			}
		}
		if len(pays) == 0 {
			continue
		}
		c.touch(fnKey(fn))
		nAmt++
		var viol []string
		total := 0
		for _, ps := range pays {
			var amt *Val
			for _, e := range ps.Events {
				if e.Kind == "call" && e.Fn == mover {
					amt = e.Args[1]
				}
			}
			ints, bools := tableVars([]*PathSum{ps})
			im := map[string]bool{}
			for _, t := range ints {
				im[t] = true
			}
			for t := range amt.asAff().T {
				if !im[t] {
					ints = append(ints, t)
					im[t] = true
				}
			}
			tStack, tInit, tWager, tCW := findTerm(ints, ".StackSize"), findTerm(ints, ".InitialStackSize"), findTerm(ints, ").Wager"), findTerm(ints, "Status.CurrentWager")
			var en []string
			for _, t := range ints {
				if t == tStack && tInit != "" && tWager != "" {
					continue
				}
				en = append(en, t)
			}
			h := hi
			if len(en) > 6 {
				h = 4
			}
			n := enumGridR(en, func(name string) (int64, int64) {
				if strings.HasPrefix(name, "param:") {
					return -3, h
				}
				return 0, h
			}, bools, func(a Asg) bool {
				if tStack != "" && tInit != "" && tWager != "" {
					a.I[tStack] = a.I[tInit] - a.I[tWager]
					if a.I[tStack] < 0 {
						return false
					}
				}
				if tWager != "" && tCW != "" && a.I[tWager] > a.I[tCW] {
					return false
				}
				return true
			}, func(a Asg) bool {
				holds, ok := evalPath(ps, a)
				if !ok || !holds {
					return true
				}
				v, ok := evalAff(amt.asAff(), a)
				if ok && v < 0 && len(viol) < 3 {
					viol = append(viol, fmt.Sprintf("amount %s = %d for {%s} on path [%s]", amt, v, a.String(), ps.CondString()))
				}
				return len(viol) < 3
			})
			total += n
		}
		c.Sites += total
		c.check(len(viol) == 0, "amount-nonneg", fnKey(fn), p.FnPos(fn),
			fmt.Sprintf("the amount handed to the chip mover is >= 0 on all %d paying paths for every argument (%d states)", len(pays), total),
			"a caller-supplied amount can make the chip mover pay a negative amount (wager, stack and round pot go out of bounds)", viol...)
	}
	c.floor("amount-nonneg", "paying actions", nAmt, 3)

}

// lowerBounded: the instruction is dominated by the edge of a comparison of the raw parameter that
// bounds it from below (prm < v false, prm <= v false, prm >= v true, prm > v true, v <= prm ...).
func lowerBounded(use ssa.Instruction, prm *ssa.Parameter) bool {
	fn := use.Parent()
	for _, b := range fn.Blocks {
		ifi, ok := b.Instrs[len(b.Instrs)-1].(*ssa.If)
		if !ok {
			continue
		}
		cmp, ok := ifi.Cond.(*ssa.BinOp)
		if !ok {
			continue
		}
		var okSucc *ssa.BasicBlock
		left := cmp.X == ssa.Value(prm)
		right := cmp.Y == ssa.Value(prm)
		if !left && !right {
			continue
		}
		op := cmp.Op
		if right { // v op prm  ==  prm op' v
			switch op {
			case token.LSS:
				op = token.GTR
			case token.LEQ:
				op = token.GEQ
			case token.GTR:
				op = token.LSS
			case token.GEQ:
				op = token.LEQ
			}
		}
		switch op {
		case token.LSS, token.LEQ: // prm < v: the false edge gives prm >= v
			okSucc = b.Succs[1]
		case token.GTR, token.GEQ: // prm > v: the true edge
			okSucc = b.Succs[0]
		}
		if okSucc == nil {
			continue
		}
		if okSucc == use.Block() || okSucc.Dominates(use.Block()) {
			// the edge must be the only way into that block
			if len(okSucc.Preds) == 1 {
				return true
			}
		}
	}
	return false
}
