package main

import (
	"fmt"
	"go/token"
	"go/types"
	"regexp"
	"sort"
	"strings"

	"golang.org/x/tools/go/ssa"
)

func init() {
	register(&propDef{
		ID: "C06", Level: "other", Run: withShared(runC06, share{"C04", runC04, ruleIs("no-offers-outside-action-wait", "opening-seat")}, share{"C10", runC10, ruleIs("enumeration-complete")}, share{"C14", runC14, ruleIs("street-table")}, share{"C07", runC07, ruleIs("load-is-identity")}),
		Explanation: "Extracts the lifecycle machine from the code (handler table from the dispatcher's switch, per-function emit outcomes from path summaries) and decides: the two event symbol tables are total on the declared events and mutually inverse; every string compared with Status.CurrentEvent anywhere in the module is an event symbol; every emit is a tail call; every non-wait handler emits on every path (its only failure exits are the enumerated, separately excluded ones); every wait event has a guarded resuming operation that emits a non-wait successor and operations' guards are pairwise distinct wait symbols; the street switch is exactly preflop→flop→turn→river→completed; Start's four refusing tests dominate the first emit, and the dealer test is effective (nothing stores a possibly-nil typed pointer into the interface field it compares with nil); the settlement result is stored before the terminal event and nothing accepts the terminal event. Does NOT decide termination of the betting loop or absence of panics in handlers.",
		Trusted:     commonTrusted,
		Assumptions: []string{"operations are the methods of table.Backend (the repo's own driver-facing interface)", "a handler's `if err != nil` edge is dead when the callee's every return is the nil constant (computed)"},
		NotCovered:  "bounded number of steps inside a betting round (C05's dynamic part); absence of panics in handlers (e.g. a deck with too few cards)",
	})
}

func runC06(c *Ctx) {
	p := c.P
	ea := c.engine()
	if ea.playerImpl == "" || ea.gameImpl == "" {
		c.undecided("anchors", "engine-implementations", "-", "pokerface.Player / pokerface.Game do not have exactly one implementation each")
		return
	}
	eg := buildEventGraph(c, ea)
	if len(eg.problems) > 0 || eg.Trigger == nil {
		c.undecided("anchors", "event-graph", "-", "cannot build the event graph: "+strings.Join(eg.problems, "; "))
		return
	}
	c.touch(fnKey(eg.Trigger))

	// ---- event-tables
	events := eg.EventTyp
	c.floor("event-tables", "GameEvent constants", len(events), 21)
	symT := p.ConstTable("pokerface", "GameEventSymbols")
	invT := p.ConstTable("pokerface", "GameEventBySymbol")
	if !symT.OK || !invT.OK {
		c.undecided("event-tables", "tables", "-", "GameEventSymbols / GameEventBySymbol are not constant tables: "+symT.Why+" "+invT.Why)
		return
	}
	sym := map[string]string{}   // event value -> symbol
	inv := map[string]string{}   // symbol -> event value
	symCount := map[string]int{} // symbol -> how many events map to it
	for _, e := range symT.Entries {
		sym[e.Key.ExactString()] = cstr(e.Val)
		symCount[cstr(e.Val)]++
	}
	for _, e := range invT.Entries {
		if _, dup := inv[cstr(e.Key)]; dup {
			c.bad("event-tables", "GameEventBySymbol["+cstr(e.Key)+"]", p.Pos(e.Pos), "duplicate key")
		}
		inv[cstr(e.Key)] = e.Val.ExactString()
	}
	allSyms := map[string]bool{}
	for _, ev := range events {
		v := ev.Val.ExactString()
		s, has := sym[v]
		okE := has && s != "" && symCount[s] == 1 && inv[s] == v
		why := ""
		switch {
		case !has || s == "":
			why = "no symbol: Status.CurrentEvent would be empty after this event and Resume would do nothing"
		case symCount[s] != 1:
			why = fmt.Sprintf("symbol %q is shared by %d events", s, symCount[s])
		case inv[s] != v:
			why = fmt.Sprintf("GameEventBySymbol[%q] is %s, not this event: Resume would re-enter the wrong handler", s, eg.ByVal[inv[s]])
		}
		allSyms[s] = true
		eg.Symbols[ev.Name] = s
		c.check(okE, "event-tables", "event:"+ev.Name, p.Pos(symT.Pos), fmt.Sprintf("symbol %q maps back to the event", s), why)
	}
	for s, v := range inv {
		if sym[v] != s {
			c.bad("event-tables", "GameEventBySymbol["+s+"]", p.Pos(invT.Pos), fmt.Sprintf("maps to %s whose symbol is %q", eg.ByVal[v], sym[v]))
		}
	}
	// every string compared with Status.CurrentEvent anywhere is an event symbol
	uses := currentEventUses(p)
	c.floor("event-tables", "comparisons with CurrentEvent", len(uses), 4)
	for _, u := range uses {
		c.Sites++
		c.check(allSyms[u.Const], "event-tables", "use:"+u.Where+":"+u.Const, u.Pos, "compared string is an event symbol", fmt.Sprintf("%q is compared with Status.CurrentEvent but is not the symbol of any event", u.Const))
	}

	// ---- outcomes of all handlers
	handlerOut := map[string][]outcome{}
	nHandlers := 0
	for _, ev := range events {
		h := eg.Handler[ev.Name]
		if h == nil {
			continue
		}
		nHandlers++
		handlerOut[ev.Name] = eg.Outcomes(h)
	}
	c.floor("no-stuck-emit", "events with a handler", nHandlers, 12)

	// operations
	type opInfo struct {
		name  string
		fn    *ssa.Function
		guard []string
		outs  []outcome
	}
	var opsInfo []opInfo
	acts := c.actionMethods(ea)
	isAction := map[string]bool{}
	for _, am := range acts {
		isAction[am.Fn.Name()] = true
	}
	for _, m := range backendMethods(p) {
		if m == "CreateGame" || isAction[m] {
			continue
		}
		g := p.Func("pokerface", ea.gameImpl, m)
		if g == nil {
			continue
		}
		oi := opInfo{name: m, fn: g, outs: eg.Outcomes(g)}
		gs := map[string]bool{}
		for _, o := range oi.outs {
			for _, cd := range o.Chain[0].Conds {
				if s, ok := phaseGuardAtom(cd.V); ok {
					gs[s] = true
				}
			}
		}
		oi.guard = sortedSet(gs)
		opsInfo = append(opsInfo, oi)
	}
	// Start
	start := p.Func("pokerface", ea.gameImpl, "Start")
	var startOut []outcome
	if start != nil {
		startOut = eg.Outcomes(start)
	}
	// actions: outcomes computed so that tail-emit covers them
	for _, am := range acts {
		eg.Outcomes(am.Fn)
	}
	eg.Outcomes(eg.Resume)
	eg.Outcomes(eg.Emit)
	eg.Outcomes(eg.Trigger)

	// ---- tail-emit
	c.check(len(eg.NonTail) == 0, "tail-emit", "all-may-emit-call-sites", p.FnPos(eg.Emit),
		fmt.Sprintf("every call of a function that may emit (%d functions) is in tail position", len(eg.MayEmit)),
		"a call that advances the event chain is followed by more code", uniq(eg.NonTail, 8)...)
	if len(eg.problems) > 0 {
		c.undecided("tail-emit", "summaries", "-", strings.Join(uniq(eg.problems, 5), "; "))
	}

	// ---- wait events and no-stuck-emit
	acceptedFail := map[string]string{
		"pokerface.ErrNotFoundDealer": "excluded by C06/start-validation (Start refuses without a dealer, the dealer is never cleared)",
		"pokerface.ErrUnknownRound":   "excluded by C06/street-chain (Next only forwards the four known streets)",
	}
	wait := map[string]bool{}
	for _, ev := range events {
		outs := handlerOut[ev.Name]
		if eg.Handler[ev.Name] == nil {
			wait[ev.Name] = true // no handler work: the chain stops here
			continue
		}
		isWait := false
		var fails []string
		for _, o := range outs {
			switch o.Kind {
			case "wait":
				isWait = true
			case "refuse", "fail":
				if _, ok := acceptedFail[o.Err]; !ok {
					fails = append(fails, fmt.Sprintf("may stop with %s (path [%s])", o.Err, o.Path.CondString()))
				}
			case "other", "resume":
				fails = append(fails, o.Kind+" "+o.Err)
			}
		}
		if isWait {
			wait[ev.Name] = true
		}
		c.check(len(fails) == 0, "no-stuck-emit", "handler:"+ev.Name, p.FnPos(eg.Handler[ev.Name]),
			"outcomes: "+strings.Join(outcomeSet(outs), ", "), "the handler can stop the chain with an error the driver cannot act on", uniq(fails, 4)...)
	}
	var waitNames []string
	for w := range wait {
		waitNames = append(waitNames, w)
	}
	sort.Strings(waitNames)
	c.role("wait events", strings.Join(waitNames, ","))
	c.floor("wait-resumer", "wait events", len(waitNames), 5)

	// terminal event: the last declared constant; must be a wait event without resumer
	terminal := events[len(events)-1].Name
	symOf := func(ev string) string { return eg.Symbols[ev] }

	// ---- wait-resumer
	guardOwner := map[string][]string{}
	for _, oi := range opsInfo {
		key := "op:" + oi.name
		if len(oi.guard) != 1 {
			c.bad("wait-resumer", key+"#guard", p.FnPos(oi.fn), fmt.Sprintf("operation must be guarded by exactly one event symbol, found %v", oi.guard))
			continue
		}
		g := oi.guard[0]
		guardOwner[g] = append(guardOwner[g], oi.name)
		// the guard is the symbol of a wait event
		var wev string
		for _, ev := range events {
			if symOf(ev.Name) == g {
				wev = ev.Name
			}
		}
		c.check(wev != "" && wait[wev] && wev != terminal, "wait-resumer", key+"#guard", p.FnPos(oi.fn),
			fmt.Sprintf("guard %q is the symbol of wait event %s", g, wev), fmt.Sprintf("guard %q is not the symbol of a non-terminal wait event: the operation can never (or wrongly) be accepted", g))
		// passing the guard leads to a non-wait successor (or completes), never to a plain return
		var bad []string
		emits := map[string]bool{}
		for _, o := range oi.outs {
			passed := false
			for _, cd := range o.Chain[0].Conds {
				if s, ok := phaseGuardAtom(cd.V); ok && s == g && !cd.V.Neg {
					passed = true
				}
			}
			if !passed {
				continue
			}
			switch o.Kind {
			case "emit":
				emits[o.Event] = true
				if wait[o.Event] && eg.Handler[o.Event] != nil && onlyWaits(handlerOut[o.Event]) {
					bad = append(bad, "emits "+o.Event+" which only waits again")
				}
			case "wait":
				// an operation that passes its guard but neither emits nor fails: the hand does not move.
				// Accepted only when the path is excluded by the street switch (Next with an unknown street).
				if !(oi.name == "Next") {
					bad = append(bad, "passes the guard and returns nil without emitting (path ["+o.Path.CondString()+"])")
				}
			case "fail", "refuse":
				// errors from per-seat payments: enumerated
			}
		}
		c.check(len(bad) == 0 && len(emits) > 0, "wait-resumer", key+"#advances", p.FnPos(oi.fn),
			"after the guard the operation emits "+strings.Join(sortedSet(emits), ","), "operation does not advance the hand", bad...)
	}
	for g, owners := range guardOwner {
		c.check(len(owners) == 1, "wait-resumer", "guard-unique:"+g, "-", "one table-level operation answers this wait point: "+owners[0], fmt.Sprintf("several operations %v share the guard: the hand is not waiting for a single thing", owners))
	}
	// every non-terminal wait event has a resumer: an operation with its symbol, or the offered actions
	actionWait := ""
	for _, w := range waitNames {
		if w == terminal {
			continue
		}
		if len(guardOwner[symOf(w)]) > 0 {
			c.ok("wait-resumer", "wait:"+w, "-", "resumed by "+strings.Join(guardOwner[symOf(w)], ","))
			continue
		}
		// the wait point whose handler offers actions: its handler reaches SetCurrentPlayer
		h := eg.Handler[w]
		offers := false
		if h != nil {
			for callee := range tcallsOf(p, h) {
				if callee.Name() == "SetCurrentPlayer" {
					offers = true
				}
			}
		}
		if offers {
			actionWait = w
			// all offered actions re-enter through Resume
			offered, _, _ := c.offeredActions(ea)
			var bad []string
			n := 0
			for _, am := range acts {
				if !offered[am.Const] {
					continue
				}
				n++
				hasResume := false
				for _, o := range eg.Outcomes(am.Fn) {
					passed := false
					for _, cd := range o.Chain[0].Conds {
						if a, ok := actionGuardAtom(cd.V); ok && a == am.Const && !cd.V.Neg {
							passed = true
						}
					}
					if !passed {
						continue
					}
					switch o.Kind {
					case "resume":
						hasResume = true
					case "refuse":
					default:
						bad = append(bad, fmt.Sprintf("%s: accepted path ends with %s %s instead of Resume", am.Fn.Name(), o.Kind, o.Err))
					}
				}
				if !hasResume {
					bad = append(bad, am.Fn.Name()+": never re-enters the chain")
				}
			}
			c.check(len(bad) == 0 && n >= 7, "wait-resumer", "wait:"+w, p.FnPos(h), fmt.Sprintf("resumed by the %d offered actions, each re-entering through Resume", n), "an accepted action does not re-enter the event chain", bad...)
			continue
		}
		c.bad("wait-resumer", "wait:"+w, "-", "the hand can stop at this event and no operation is guarded by its symbol "+fmt.Sprintf("%q", symOf(w))+": stuck")
	}
	_ = actionWait
	// Resume re-enters the recorded event
	if eg.Resume != nil {
		okR := false
		for _, o := range eg.Outcomes(eg.Resume) {
			if o.Kind == "resume" {
				for _, e := range o.Path.Events {
					if e.Kind == "call" && e.Fn == eg.Emit && len(e.Args) >= 2 && strings.Contains(e.Args[1].String(), "lookup(*(&global:pokerface.GameEventBySymbol), GS.Status.CurrentEvent)") {
						okR = true
					}
					if e.Kind == "call" && e.Fn == eg.Emit && len(e.Args) >= 2 && strings.Contains(e.Args[1].String(), "GameEventBySymbol") && strings.Contains(e.Args[1].String(), "GS.Status.CurrentEvent") {
						okR = true
					}
				}
			}
		}
		c.check(okR, "wait-resumer", "Resume#reenters-recorded-event", p.FnPos(eg.Resume), "Resume emits GameEventBySymbol[Status.CurrentEvent]", "Resume does not re-enter the recorded event")
	}
	// EmitEvent records the symbol before dispatching
	{
		okE := false
		for _, o := range eg.Outcomes(eg.Emit) {
			_ = o
		}
		s := eg.summ(0)
		paths, _ := s.Function(eg.Emit)
		for _, ps := range paths {
			for i, e := range ps.Events {
				if e.Kind == "store" && e.FKey == "pokerface.Status.CurrentEvent" && strings.Contains(e.Val.String(), "GameEventSymbols") && strings.Contains(e.Val.String(), "param:event") {
					for _, e2 := range ps.Events[i+1:] {
						if e2.Kind == "call" && e2.Fn == eg.Trigger && len(e2.Args) >= 2 && e2.Args[1].String() == "param:event" {
							okE = true
						}
					}
				}
			}
		}
		c.check(okE, "wait-resumer", "EmitEvent#records-symbol", p.FnPos(eg.Emit), "EmitEvent stores GameEventSymbols[event] in Status.CurrentEvent and then dispatches the same event", "EmitEvent does not record the symbol of the event it dispatches")
	}

	runC06Streets(c, ea, eg, handlerOut)
	runC06Start(c, ea, eg, startOut)
	runC06Close(c, ea, eg, handlerOut, guardOwner, terminal)
	// once closed, no seat holds offers: no betting action can be accepted any more (shared with C04)
	runNoStaleOffers(c, ea, "closed-accepts-nothing", terminal)
}

func onlyWaits(os []outcome) bool {
	for _, o := range os {
		if o.Kind != "wait" {
			return false
		}
	}
	return len(os) > 0
}

// currentEventUses: string constants compared with a load of Status.CurrentEvent (or of the
// result of GetEvent()) anywhere in the module, including switch statements.
func currentEventUses(p *Prog) []constUse {
	var out []constUse
	isCE := func(v ssa.Value) bool {
		if loadsField(v, "pokerface.Status.CurrentEvent") {
			return true
		}
		if call, ok := v.(*ssa.Call); ok {
			cc := call.Common()
			if cc.IsInvoke() && cc.Method.Name() == "GetEvent" {
				return true
			}
			if f := cc.StaticCallee(); f != nil && f.Name() == "GetEvent" && inModule(f) {
				return true
			}
		}
		return false
	}
	for _, fn := range p.Funcs {
		for _, b := range fn.Blocks {
			for _, in := range b.Instrs {
				bo, ok := in.(*ssa.BinOp)
				if !ok || (bo.Op.String() != "==" && bo.Op.String() != "!=") {
					continue
				}
				var cs string
				var other ssa.Value
				if s, ok := constString(bo.X); ok {
					cs, other = s, bo.Y
				} else if s, ok := constString(bo.Y); ok {
					cs, other = s, bo.X
				} else {
					continue
				}
				if isCE(other) {
					out = append(out, constUse{Const: cs, Where: fnKey(fn), Pos: p.InstrPos(in)})
				}
			}
		}
	}
	sort.Slice(out, func(i, j int) bool { return out[i].Where+out[i].Const < out[j].Where+out[j].Const })
	return out
}

// runC06Streets: street successor relation.
func runC06Streets(c *Ctx, ea *engineAnchors, eg *EventGraph, handlerOut map[string][]outcome) {
	p := c.P
	ix := p.Index()
	// the street sequencer: the function that reads Status.Round and, depending on it, leads to stores
	// of at least two different streets (directly, through the Enter* functions, or through helpers
	// that take the street as a parameter: outcomes are read with the call's arguments)
	roundStores := func(o outcome) []string {
		var out []string
		for _, ps := range o.Chain {
			for _, e := range ps.Events {
				if e.Kind == "store" && e.FKey == "pokerface.Status.Round" && isQuoted(e.Val.String()) {
					out = append(out, strings.Trim(e.Val.String(), `"`))
				}
			}
		}
		return out
	}
	var cands []*ssa.Function
	for _, fn := range p.MethodsOf("pokerface", ea.gameImpl) {
		fi := ix.Info[fn]
		readsRound := false
		for _, r := range fi.Reads {
			if r.Key == "pokerface.Status.Round" {
				readsRound = true
			}
		}
		if !readsRound || !eg.MayEmit[fn] {
			continue
		}
		streets := map[string]bool{}
		for _, o := range eg.Outcomes(fn) {
			for _, st := range roundStores(o) {
				streets[st] = true
			}
		}
		if len(streets) >= 2 {
			cands = append(cands, fn)
		}
	}
	var seq *ssa.Function
	for _, f := range cands {
		inner := true
		for _, g := range cands {
			if g != f && ix.Info[f].TCalls[g] {
				inner = false // f only reaches the streets through g
			}
		}
		if inner {
			if seq != nil {
				c.undecided("street-chain", "sequencer", "-", "several street sequencer candidates: "+fnKey(seq)+", "+fnKey(f))
				return
			}
			seq = f
		}
	}
	if seq == nil {
		c.undecided("street-chain", "sequencer", "-", "no function switches on Status.Round and enters streets")
		return
	}
	c.role("street sequencer", fnKey(seq))
	c.touch(fnKey(seq))
	rel := map[string]string{} // from street -> "to street" or "emit:<event>"
	var problems []string
	for _, o := range eg.Outcomes(seq) {
		from := ""
		for _, cps := range o.Chain {
			for _, cd := range cps.Conds {
				if cd.V.K == KAtom && cd.V.At.Op == "is" && !cd.V.Neg && from == "" {
					l, r := cd.V.At.L, cd.V.At.R
					if r == "GS.Status.Round" && isQuoted(l) {
						from = strings.Trim(l, `"`)
					}
					if l == "GS.Status.Round" && isQuoted(r) {
						from = strings.Trim(r, `"`)
					}
				}
			}
		}
		if from == "" {
			continue
		}
		to := ""
		switch o.Kind {
		case "emit":
			to = "emit:" + o.Event
			// did a callee store a street first?
			if sts := roundStores(o); len(sts) > 0 {
				to = sts[len(sts)-1] + " then " + o.Event
			}
		default:
			to = o.Kind + ":" + o.Err
		}
		if old, dup := rel[from]; dup && old != to {
			problems = append(problems, fmt.Sprintf("street %q has two successors: %s and %s", from, old, to))
		}
		rel[from] = to
	}
	want := map[string]string{
		"preflop": "flop then GameEvent_FlopRoundEntered",
		"flop":    "turn then GameEvent_TurnRoundEntered",
		"turn":    "river then GameEvent_RiverRoundEntered",
		"river":   "emit:GameEvent_GameCompleted",
	}
	for from, to := range want {
		c.check(rel[from] == to, "street-chain", "successor:"+from, p.FnPos(seq), "after "+from+": "+to, fmt.Sprintf("after %q the sequencer does %q, the property requires %q", from, rel[from], to))
	}
	for from := range rel {
		if _, ok := want[from]; !ok {
			problems = append(problems, "unknown street "+from+" handled")
		}
	}
	c.check(len(problems) == 0, "street-chain", "sequencer#deterministic", p.FnPos(seq), "one successor per street, four streets", strings.Join(problems, "; "))
	// callers of the sequencer forward exactly the four streets (so that the ErrUnknownRound exit is dead)
	for _, caller := range ix.Callers(seq) {
		c.touch(fnKey(caller))
		streets := map[string]bool{}
		for _, o := range eg.Outcomes(caller) {
			// only paths that reach the sequencer
			reaches := false
			for _, e := range o.Path.Events {
				if e.Kind == "call" && e.Fn == seq {
					reaches = true
				}
			}
			if o.In == seq {
				reaches = true
			}
			if !reaches {
				continue
			}
		}
		s := eg.summ(0)
		paths, _ := s.Function(caller)
		for _, ps := range paths {
			reaches := false
			for _, e := range ps.Events {
				if e.Kind == "call" && e.Fn == seq {
					reaches = true
				}
			}
			if !reaches {
				continue
			}
			found := ""
			for _, cd := range ps.Conds {
				if cd.V.K == KAtom && cd.V.At.Op == "is" && !cd.V.Neg && (cd.V.At.L == "GS.Status.Round" || cd.V.At.R == "GS.Status.Round") {
					x := cd.V.At.L
					if x == "GS.Status.Round" {
						x = cd.V.At.R
					}
					found = strings.Trim(x, `"`)
				}
			}
			if found == "" {
				found = "<any>"
			}
			streets[found] = true
		}
		okS := len(streets) == 4 && streets["preflop"] && streets["flop"] && streets["turn"] && streets["river"]
		c.check(okS, "street-chain", fnKey(caller)+"#forwards-known-streets", p.FnPos(caller), "forwards exactly the four streets to the sequencer", fmt.Sprintf("forwards %v", sortedSet(streets)))
	}
	// the only other stores to Round: "preflop", from the Prepared / AntePaid handlers only
	var checkStore func(w *ssa.Function, val, pos string, depth int)
	checkStore = func(w *ssa.Function, val, pos string, depth int) {
		switch val {
		case "flop", "turn", "river":
			// must be reached from the sequencer only (directly, or through the sequencer's own helper)
			callers := ix.Callers(w)
			okc := len(callers) >= 1
			for _, cl := range callers {
				if cl != seq && !(ix.Info[seq].TCalls[cl] && privateHelper(seq, cl)) {
					okc = false
				}
			}
			c.check(okc, "street-chain", fnKey(w)+"#store-Round", pos, "street "+val+" entered only from the sequencer", "street "+val+" can be entered from "+fnNames(callers))
		case "preflop":
			callers := ix.Callers(w)
			var names []string
			okc := len(callers) > 0
			for _, cl := range callers {
				names = append(names, cl.Name())
				isStartChain := false
				for _, ev := range []string{"GameEvent_Prepared", "GameEvent_AntePaid"} {
					if eg.Handler[ev] == cl {
						isStartChain = true
					}
				}
				if !isStartChain {
					okc = false
				}
			}
			c.check(okc, "street-chain", fnKey(w)+"#store-Round", pos, "preflop entered only from the Prepared/AntePaid handlers", "preflop can be (re-)entered from "+strings.Join(names, ","))
		default:
			// a helper that is handed the street: each caller's constant argument is the store
			if strings.HasPrefix(val, "param:") && depth < 2 {
				idx := -1
				for i, prm := range w.Params {
					if "param:"+prm.Name() == val {
						idx = i
					}
				}
				resolved := idx >= 0 && len(ix.Callers(w)) > 0
				for _, cl := range ix.Callers(w) {
					for _, cs := range ix.CallSites(cl, w) {
						args := cs.Common().Args
						if idx >= len(args) {
							resolved = false
							continue
						}
						if sv, ok := constString(args[idx]); ok {
							checkStore(cl, sv, p.InstrPos(cs.(ssa.Instruction)), depth+1)
						} else {
							resolved = false
						}
					}
				}
				if resolved {
					return
				}
			}
			c.bad("street-chain", fnKey(w)+"#store-Round", pos, "stores unknown street "+val)
		}
	}
	for _, w := range ix.Writers("pokerface.Status.Round") {
		c.touch(fnKey(w))
		s := eg.summ(0)
		paths, _ := s.Function(w)
		for _, ps := range paths {
			for _, e := range ps.storesTo("pokerface.Status.Round") {
				checkStore(w, strings.Trim(e.Val.String(), `"`), e.Pos, 0)
			}
		}
	}
}

func fnNames(fs []*ssa.Function) string {
	var ns []string
	for _, f := range fs {
		ns = append(ns, fnKey(f))
	}
	return strings.Join(ns, ",")
}

// runC06Start: the four refusing tests dominate the first emit.
func runC06Start(c *Ctx, ea *engineAnchors, eg *EventGraph, outs []outcome) {
	p := c.P
	start := p.Func("pokerface", ea.gameImpl, "Start")
	if start == nil {
		c.undecided("start-validation", "Start", "-", "not found")
		return
	}
	s := eg.summ(2)
	paths, _ := s.Function(start)
	// the loops of Start and of the helpers analysed in place
	var loops []*Loop
	seenLoop := map[*Loop]bool{}
	for _, ps := range paths {
		for _, e := range ps.Events {
			if e.Kind == "loop" && e.Loop != nil && !seenLoop[e.Loop] {
				seenLoop[e.Loop] = true
				loops = append(loops, e.Loop)
			}
		}
	}
	nEmit := 0
	var bad []string
	tests := map[string]bool{}
	dealerField := ""
	for _, ps := range paths {
		emits := false
		for _, e := range ps.Events {
			if _, ok := eg.emitName(e); ok {
				emits = true
			}
		}
		if !emits {
			// refusing path: sentinel error and no effects
			if len(ps.Ret) == 1 {
				if _, ok := c.sentinelError(ps.Ret[0]); ok {
					if eff := c.pathEffects(ps); len(eff) > 0 {
						bad = append(bad, "refusal after effect "+eff[0])
					}
					continue
				}
			}
			bad = append(bad, "path ["+ps.CondString()+"] neither emits nor refuses")
			continue
		}
		nEmit++
		var hasCount, hasDealer, hasDeck, hasLoop bool
		hasCount = impliesInt(ps, "len(GS.Players)", 0, 4, func(v int64) bool { return v >= 2 })
		hasDeck = impliesInt(ps, "len(GS.Meta.Deck)", 0, 4, func(v int64) bool { return v >= 1 })
		for _, cd := range ps.Conds {
			if cd.V.K != KAtom {
				continue
			}
			str := cd.V.At.String()
			if cd.V.At.Op == "is" && cd.V.Neg && strings.Contains(str, "recv.dealer") && strings.Contains(str, "nil") {
				hasDealer = true
				if m := recvFieldRe.FindStringSubmatch(str); m != nil {
					dealerField = m[1]
				}
			}
		}
		for _, e := range ps.Events {
			if e.Kind == "loop" {
				hasLoop = true
			}
		}
		if hasCount {
			tests["players>=2"] = true
		} else {
			bad = append(bad, "emit not dominated by the player-count test")
		}
		if hasDealer {
			tests["dealer!=nil"] = true
		} else {
			bad = append(bad, "emit not dominated by the dealer test")
		}
		if hasDeck {
			tests["deck non-empty"] = true
		} else {
			bad = append(bad, "emit not dominated by the deck test")
		}
		if !hasLoop {
			bad = append(bad, "emit not preceded by the bankroll loop")
		}
	}
	// bankroll loop: full range over Players, refuses on Bankroll <= 0
	okLoop := false
	for _, l := range loops {
		ri := analyseRange(l)
		if ri.Kind != "slice" || !ri.Full {
			continue
		}
		body, _ := s.LoopBody(l.Fn, l)
		for _, ps := range body {
			if strings.HasPrefix(ps.End, "exit-return") && len(ps.Ret) == 1 {
				if _, ok := c.sentinelError(ps.Ret[0]); ok {
					for _, cd := range ps.Conds {
						if a, ok := ltForm(cd.V); ok && strings.HasSuffix(a.String(), ".Bankroll - 1") && len(a.T) == 1 {
							okLoop = true
							tests["bankroll>0"] = true
						}
					}
				}
			}
		}
	}
	if !okLoop {
		bad = append(bad, "no full-range loop over the players refusing Bankroll <= 0")
	}
	// the nil test of an interface-typed field is a test only when nothing stores a typed
	// pointer that may be nil into it (a nil *T in an interface is not == nil)
	if dealerField != "" {
		bad = append(bad, typedNilStores(c, "pokerface."+ea.gameImpl+"."+dealerField)...)
	}
	c.floor("start-validation", "refusing tests before the first emit", len(tests), 4)
	c.check(len(bad) == 0 && nEmit > 0, "start-validation", fnKey(start), p.FnPos(start), "the emit of Started is dominated by: "+strings.Join(sortedSet(tests), ", "), "a hand can start without the preconditions", uniq(bad, 6)...)
}

// runC06Close: result before close, nothing accepts the terminal event.
func runC06Close(c *Ctx, ea *engineAnchors, eg *EventGraph, handlerOut map[string][]outcome, guardOwner map[string][]string, terminal string) {
	p := c.P
	ix := p.Index()
	// predecessors of each event
	pred := map[string][]string{}
	for ev, outs := range handlerOut {
		for _, o := range outs {
			if o.Kind == "emit" {
				pred[o.Event] = append(pred[o.Event], ev)
			}
		}
	}
	chain := []string{terminal}
	cur := terminal
	okChain := true
	for i := 0; i < 3; i++ {
		ps := uniq(pred[cur], 10)
		if len(ps) != 1 {
			okChain = false
			break
		}
		cur = ps[0]
		chain = append(chain, cur)
	}
	c.check(okChain && cur == "GameEvent_GameCompleted", "result-before-close", "terminal-chain", "-", "single predecessor chain "+strings.Join(chain, " <- "), "the terminal event has other predecessors: "+strings.Join(chain, " <- "))
	// Result stored only by one function, which is called before the emit of the event preceding the terminal one
	writers := ix.Writers("pokerface.GameState.Result")
	c.check(len(writers) == 1, "result-before-close", "Result#single-writer", "-", "GameState.Result is stored only in "+fnNames(writers), "GameState.Result is stored in "+fnNames(writers))
	if len(writers) == 1 && len(chain) >= 3 {
		settle := writers[0]
		c.role("settlement entry", fnKey(settle))
		h := eg.Handler[chain[2]] // handler that emits the event before the terminal one
		if h != nil {
			okOrder := true
			var why []string
			nEmit := 0
			// the settlement steps and the emit may sit together in a helper of the handler (it
			// emits, so it stays a call): then the order is read inside that helper
			var scan func(fn *ssa.Function, depth int)
			scan = func(fn *ssa.Function, depth int) {
				s := eg.summ(0)
				paths, _ := s.Function(fn)
				for _, ps := range paths {
					emitIdx, setIdx := -1, -1
					var emitter *ssa.Function
					for i, e := range ps.Events {
						if _, ok := eg.emitName(e); ok {
							emitIdx = i
							emitter = e.Fn
						}
						if e.Kind == "call" && e.Fn != nil && (e.Fn == settle || mustCall(p, e.Fn, settle, 0)) {
							setIdx = i
						}
					}
					if emitIdx >= 0 {
						if (setIdx < 0 || setIdx > emitIdx) && emitter != nil && emitter != eg.Emit && depth < 3 && privateHelper(fn, emitter) {
							scan(emitter, depth+1)
							continue
						}
						nEmit++
						if setIdx < 0 || setIdx > emitIdx {
							okOrder = false
							why = append(why, "path ["+ps.CondString()+"] emits without computing the result first")
						}
					}
				}
			}
			scan(h, 0)
			c.check(okOrder && nEmit > 0, "result-before-close", fnKey(h)+"#result-then-emit", p.FnPos(h), "the result is stored before "+chain[1]+" is emitted", "the hand can close without a result", why...)
			// and the settlement function always stores a result
			s2 := newSumm(p, 0)
			sp, _ := s2.Function(settle)
			allStore := len(sp) > 0
			for _, ps := range sp {
				if ps.End == "return" && len(ps.storesTo("pokerface.GameState.Result")) == 0 {
					allStore = false
				}
			}
			c.check(allStore, "result-before-close", fnKey(settle)+"#always-stores", p.FnPos(settle), "every returning path stores GameState.Result", "a path returns without storing the result")
		}
	}
	termSym := eg.Symbols[terminal]
	c.check(len(guardOwner[termSym]) == 0, "result-before-close", "terminal-accepts-nothing", "-", fmt.Sprintf("no operation is guarded by %q", termSym), fmt.Sprintf("operations %v accept the closed hand", guardOwner[termSym]))
}

var recvFieldRe = regexp.MustCompile(`recv\.(\w+)`)

// typedNilStores lists the stores into the interface-typed field key whose value wraps a
// pointer that is not known to be non-nil at the store.
func typedNilStores(c *Ctx, key string) []string {
	ix := c.P.Index()
	var out []string
	for _, w := range ix.AnyWriters(key) {
		for _, in := range ix.WriteInstrs(w, key) {
			st, ok := in.(*ssa.Store)
			if !ok {
				continue
			}
			mi, ok := st.Val.(*ssa.MakeInterface)
			if !ok {
				continue
			}
			if _, isPtr := mi.X.Type().Underlying().(*types.Pointer); !isPtr {
				continue
			}
			if !nonNilPtr(ix, mi.X, st.Block(), 0, map[ssa.Value]bool{}) {
				out = append(out, fmt.Sprintf("%s stores a %s that may be nil into the interface field %s (%s): the nil test never fires", fnKey(w), mi.X.Type(), key, c.P.InstrPos(in)))
			}
		}
	}
	sort.Strings(out)
	return out
}

// nonNilPtr: v is a fresh allocation, the address of something, a merge of such values, the
// result of a function all of whose returns are such values, or tested against nil on the
// way to block at.
func nonNilPtr(ix *Index, v ssa.Value, at *ssa.BasicBlock, depth int, seen map[ssa.Value]bool) bool {
	if seen[v] {
		return true
	}
	seen[v] = true
	switch x := v.(type) {
	case *ssa.Alloc, *ssa.FieldAddr, *ssa.IndexAddr, *ssa.Global, *ssa.Function, *ssa.MakeClosure:
		return true
	case *ssa.Phi:
		for _, e := range x.Edges {
			if !nonNilPtr(ix, e, nil, depth, seen) {
				return nilTestedBefore(v, at)
			}
		}
		return true
	case *ssa.Parameter:
		// every call site passes a non-nil pointer
		fn := x.Parent()
		pi := -1
		for i, pp := range fn.Params {
			if pp == x {
				pi = i
			}
		}
		callers := ix.Callers(fn)
		if pi >= 0 && depth < 3 && len(callers) > 0 {
			all := true
			for _, cl := range callers {
				for _, site := range ix.CallSites(cl, fn) {
					cc := site.Common()
					if cc.IsInvoke() || cc.StaticCallee() != fn || pi >= len(cc.Args) {
						all = false
						continue
					}
					if !nonNilPtr(ix, cc.Args[pi], site.Block(), depth+1, map[ssa.Value]bool{}) {
						all = false
					}
				}
			}
			if all {
				return true
			}
		}
	case *ssa.Call:
		if callee := x.Call.StaticCallee(); callee != nil && len(callee.Blocks) > 0 && depth < 3 && callee.Signature.Results().Len() == 1 {
			all := true
			for _, b := range callee.Blocks {
				if r, ok := b.Instrs[len(b.Instrs)-1].(*ssa.Return); ok {
					if !nonNilPtr(ix, r.Results[0], b, depth+1, map[ssa.Value]bool{}) {
						all = false
					}
				}
			}
			if all {
				return true
			}
		}
	}
	return nilTestedBefore(v, at)
}

// nilTestedBefore: block at is dominated by the non-nil branch of a test of v.
func nilTestedBefore(v ssa.Value, at *ssa.BasicBlock) bool {
	if at == nil {
		return false
	}
	for d := at.Idom(); d != nil; d = d.Idom() {
		iff, ok := d.Instrs[len(d.Instrs)-1].(*ssa.If)
		if !ok {
			continue
		}
		bo, ok := iff.Cond.(*ssa.BinOp)
		if !ok || (bo.Op != token.NEQ && bo.Op != token.EQL) {
			continue
		}
		isNil := func(x ssa.Value) bool { k, ok := x.(*ssa.Const); return ok && k.IsNil() }
		if !((bo.X == v && isNil(bo.Y)) || (bo.Y == v && isNil(bo.X))) {
			continue
		}
		succ := d.Succs[0]
		if bo.Op == token.EQL {
			succ = d.Succs[1]
		}
		if succ == at || succ.Dominates(at) {
			if len(succ.Preds) == 1 {
				return true
			}
		}
	}
	return false
}
