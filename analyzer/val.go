package main

import (
	"fmt"
	"sort"
	"strings"
)

// Abstract values of the path-sensitive dataflow (engines E4/E5/E6).
//
// Integers are affine forms over symbols (entry values of locations, parameters, opaque
// results); everything else is a structured opaque term whose canonical string identifies
// it. There is no solver: equality of values is equality of canonical strings, and
// feasibility pruning is limited to syntactic atom / not-atom contradictions.

type Kind int

const (
	KAff   Kind = iota // integer: affine form
	KSym               // opaque symbol / structured term (Op, Args)
	KConst             // non-integer constant (string, bool, nil)
	KAddr              // address of location S
	KAtom              // boolean: comparison atom (possibly negated)
	KTuple             // multiple results
)

type Aff struct {
	C int64
	T map[string]int64
}

func affConst(c int64) *Aff { return &Aff{C: c, T: map[string]int64{}} }
func affTerm(s string) *Aff { return &Aff{T: map[string]int64{s: 1}} }

func (a *Aff) clone() *Aff {
	b := &Aff{C: a.C, T: map[string]int64{}}
	for k, v := range a.T {
		b.T[k] = v
	}
	return b
}
func (a *Aff) add(b *Aff, k int64) *Aff {
	r := a.clone()
	r.C += k * b.C
	for t, v := range b.T {
		r.T[t] += k * v
		if r.T[t] == 0 {
			delete(r.T, t)
		}
	}
	return r
}
func (a *Aff) scale(k int64) *Aff {
	r := affConst(a.C * k)
	if k == 0 {
		return r
	}
	for t, v := range a.T {
		r.T[t] = v * k
	}
	return r
}
func (a *Aff) isConst() bool { return len(a.T) == 0 }
func (a *Aff) terms() []string {
	var ts []string
	for t := range a.T {
		ts = append(ts, t)
	}
	sort.Strings(ts)
	return ts
}
func (a *Aff) String() string {
	var sb strings.Builder
	first := true
	for _, t := range a.terms() {
		c := a.T[t]
		switch {
		case c == 1 && first:
			sb.WriteString(t)
		case c == 1:
			sb.WriteString(" + " + t)
		case c == -1 && first:
			sb.WriteString("-" + t)
		case c == -1:
			sb.WriteString(" - " + t)
		case c < 0 && !first:
			fmt.Fprintf(&sb, " - %d*%s", -c, t)
		case first:
			fmt.Fprintf(&sb, "%d*%s", c, t)
		default:
			fmt.Fprintf(&sb, " + %d*%s", c, t)
		}
		first = false
	}
	if first {
		return fmt.Sprintf("%d", a.C)
	}
	if a.C > 0 {
		fmt.Fprintf(&sb, " + %d", a.C)
	} else if a.C < 0 {
		fmt.Fprintf(&sb, " - %d", -a.C)
	}
	return sb.String()
}
func (a *Aff) equal(b *Aff) bool { return a.add(b, -1).isZero() }
func (a *Aff) isZero() bool      { return a.C == 0 && len(a.T) == 0 }

// Atom is a normalised comparison.
//
//	Op "lt": A < 0    Op "le": A <= 0    Op "eq": A == 0      (integer, A affine)
//	Op "is": L == R   (non-integer equality of canonical strings: string/enum/pointer)
//	Op "b":  L        (boolean symbol / opaque predicate)
type Atom struct {
	Op   string
	A    *Aff
	L, R string
}

func (a *Atom) String() string {
	switch a.Op {
	case "lt":
		return a.A.String() + " < 0"
	case "le":
		return a.A.String() + " <= 0"
	case "eq":
		return a.A.String() + " == 0"
	case "is":
		return a.L + " == " + a.R
	}
	return a.L
}

type Val struct {
	K    Kind
	A    *Aff   // KAff
	S    string // canonical string (KSym, KAddr: location, KConst: literal)
	Op   string // KSym structured: operator
	Args []*Val // KSym structured / KTuple parts
	At   *Atom  // KAtom
	Neg  bool   // KAtom negated
	Typ  string // static type string (informational)
}

func vAff(a *Aff) *Val           { return &Val{K: KAff, A: a} }
func vInt(c int64) *Val          { return vAff(affConst(c)) }
func vSym(s string) *Val         { return &Val{K: KSym, S: s} }
func vConst(s string) *Val       { return &Val{K: KConst, S: s} }
func vAddr(s string) *Val        { return &Val{K: KAddr, S: s} }
func vAtom(a *Atom, n bool) *Val { return &Val{K: KAtom, At: a, Neg: n} }
func vOp(op string, args ...*Val) *Val {
	var ss []string
	for _, a := range args {
		ss = append(ss, a.String())
	}
	return &Val{K: KSym, Op: op, Args: args, S: op + "(" + strings.Join(ss, ", ") + ")"}
}

func (v *Val) String() string {
	if v == nil {
		return "<nil>"
	}
	switch v.K {
	case KAff:
		return v.A.String()
	case KSym, KConst:
		return v.S
	case KAddr:
		return "&" + v.S
	case KAtom:
		if v.Neg {
			return "!(" + v.At.String() + ")"
		}
		return v.At.String()
	case KTuple:
		var ss []string
		for _, a := range v.Args {
			ss = append(ss, a.String())
		}
		return "(" + strings.Join(ss, ", ") + ")"
	}
	return "?"
}

// asAff views a value as an integer form (symbols become single terms).
func (v *Val) asAff() *Aff {
	if v.K == KAff {
		return v.A
	}
	return affTerm(v.String())
}

func (v *Val) isConstInt() (int64, bool) {
	if v.K == KAff && v.A.isConst() {
		return v.A.C, true
	}
	return 0, false
}

// mentions reports whether the canonical rendering of v contains sub (used by provenance
// rules: "this argument is derived from that location").
func (v *Val) mentions(sub string) bool { return strings.Contains(v.String(), sub) }

// Cond is one branch decision on a path.
type Cond struct {
	V    *Val // KAtom (Neg already folded with polarity) or opaque
	Pos  string
	Blk  int
	Then bool
	NEv  int // number of events recorded on the path when this decision was taken
}

func (c Cond) String() string { return c.V.String() }

// mkCond folds branch polarity into the atom.
func negate(v *Val) *Val {
	if v.K == KAtom {
		return &Val{K: KAtom, At: v.At, Neg: !v.Neg}
	}
	if v.K == KConst {
		if v.S == "true" {
			return vConst("false")
		}
		if v.S == "false" {
			return vConst("true")
		}
	}
	// opaque boolean: wrap as atom
	return &Val{K: KAtom, At: &Atom{Op: "b", L: v.String()}, Neg: true}
}

func asAtom(v *Val) *Val {
	if v.K == KAtom || v.K == KConst {
		return v
	}
	return &Val{K: KAtom, At: &Atom{Op: "b", L: v.String()}}
}

// normalise an integer comparison "l op r" to an atom over (l - r).
func cmpAtom(op string, l, r *Aff) *Val {
	d := l.add(r, -1)
	if d.isConst() {
		var t bool
		switch op {
		case "<":
			t = d.C < 0
		case "<=":
			t = d.C <= 0
		case ">":
			t = d.C > 0
		case ">=":
			t = d.C >= 0
		case "==":
			t = d.C == 0
		case "!=":
			t = d.C != 0
		}
		if t {
			return vConst("true")
		}
		return vConst("false")
	}
	switch op {
	case "<":
		return vAtom(&Atom{Op: "lt", A: d}, false)
	case "<=":
		return vAtom(&Atom{Op: "le", A: d}, false)
	case ">": // l > r  <=>  !(l - r <= 0)
		return vAtom(&Atom{Op: "le", A: d}, true)
	case ">=": // l >= r <=> !(l - r < 0)
		return vAtom(&Atom{Op: "lt", A: d}, true)
	case "==":
		return vAtom(eqAtom(d), false)
	case "!=":
		return vAtom(eqAtom(d), true)
	}
	return nil
}

// eqAtom sign-normalises A == 0 so that a==b and b==a coincide.
func eqAtom(d *Aff) *Atom {
	ts := d.terms()
	if len(ts) > 0 && d.T[ts[0]] < 0 {
		d = d.scale(-1)
	} else if len(ts) == 0 && d.C < 0 {
		d = d.scale(-1)
	}
	return &Atom{Op: "eq", A: d}
}

func isAtom(l, r string) *Atom {
	if l > r {
		l, r = r, l
	}
	return &Atom{Op: "is", L: l, R: r}
}

// contradiction: same atom with opposite polarity, or two "is" atoms binding the same left
// side to different constants.
func contradicts(a, b *Val) bool {
	if a.K != KAtom || b.K != KAtom {
		return false
	}
	if a.At.String() == b.At.String() && a.Neg != b.Neg {
		return true
	}
	if a.At.Op == "is" && b.At.Op == "is" && !a.Neg && !b.Neg {
		// x == "c1" and x == "c2"
		al, ar, bl, br := a.At.L, a.At.R, b.At.L, b.At.R
		for _, p := range [][4]string{{al, ar, bl, br}, {al, ar, br, bl}, {ar, al, bl, br}, {ar, al, br, bl}} {
			if p[0] == p[2] && p[1] != p[3] && isQuoted(p[1]) && isQuoted(p[3]) {
				return true
			}
		}
	}
	return false
}

func isQuoted(s string) bool { return len(s) >= 2 && s[0] == '"' && s[len(s)-1] == '"' }

// ltForm returns the canonical form of an integer comparison atom: the affine A such that
// the condition is equivalent to A < 0 over the integers. a < b, b > a, !(a >= b), a <= b-1
// all have the same canonical form, so rules match conditions independently of how the
// comparison was written.
func ltForm(v *Val) (*Aff, bool) {
	if v == nil || v.K != KAtom || v.At.A == nil {
		return nil, false
	}
	a := v.At.A
	switch v.At.Op {
	case "lt":
		if !v.Neg {
			return a, true
		}
		return a.scale(-1).add(affConst(1), -1), true // !(A<0) == A>=0 == -A-1<0
	case "le":
		if !v.Neg {
			return a.add(affConst(1), -1), true // A<=0 == A-1<0
		}
		return a.scale(-1), true // !(A<=0) == A>0 == -A<0
	}
	return nil, false
}

// ltIs: the condition is equivalent to canon < 0 (canon given as the Aff's canonical string).
func ltIs(v *Val, canon string) bool {
	a, ok := ltForm(v)
	return ok && a.String() == canon
}

func condsString(cs []Cond) string {
	var ss []string
	for _, c := range cs {
		ss = append(ss, c.String())
	}
	return strings.Join(ss, " && ")
}
