package main

import (
	"fmt"
	"go/token"
	"go/types"
	"sort"
	"strings"

	"golang.org/x/tools/go/ssa"
)

func init() {
	register(&propDef{
		ID: "C07", Level: "other", Run: withShared(runC07, share{"C14", runC14, ruleIs("cursor-lockstep")}),
		Explanation: "Structural conditions under which a game rebuilt from its JSON state is indistinguishable from the live object: (1) no function reachable from an operation writes a field of the runtime wrappers (game, player) or a package-level variable of an engine package - operations change only *GameState; wrapper fields are written only by construction and by the rebuild path; (2) every field in GameState's type closure is exported and JSON-named, has no interface/func/chan type and only int/string map keys, except a derived set that is reported; (3) every read of a derived (non-serialised) field by an operation happens in an activation that first rebuilt it: the pots are re-published before the settlement reads their level lists and the settlement's private ranking fields are only touched on a Result allocated in the same activation; (4) Resume re-enters the recorded event through inverse total symbol tables and every accepted action ends in Resume; (5) every NativeBackend method uses the state handed to it only as the argument of cloneState, builds the engine from the clone, calls the engine method of its own name and returns a clone; cloneState does not store through its argument; (6) the only clock/random sources reachable from operations are the timestamp store and the shuffle, the shuffle runs only in the handler of an event emitted by Start alone, and clock-derived fields are read by no operation. Map-iteration sites are listed, their order-insensitivity is NOT decided; equality of all continuations is NOT decided.",
		Trusted:     append([]string{"encoding/json field rules (exported fields, tag not \"-\")"}, commonTrusted...),
		Assumptions: []string{"operations = Start, Resume and the methods of table.Backend on the engine, plus the Player actions they dispatch to"},
		NotCovered:  "behavioural equality of all continuations; map-iteration order-insensitivity of the three map loops in pot/level_list.go (reviewed by hand, not proved)",
	})
}

var enginePkgs = map[string]bool{"pokerface": true, "pot": true, "settlement": true, "combination": true}

func (c *Ctx) operationRoots(ea *engineAnchors) []*ssa.Function {
	p := c.P
	var roots []*ssa.Function
	seen := map[*ssa.Function]bool{}
	add := func(f *ssa.Function) {
		if f != nil && !seen[f] {
			seen[f] = true
			roots = append(roots, f)
		}
	}
	for _, n := range []string{"Start", "Resume"} {
		add(p.Func("pokerface", ea.gameImpl, n))
	}
	for _, m := range backendMethods(p) {
		add(p.Func("pokerface", ea.gameImpl, m))
	}
	for _, am := range c.actionMethods(ea) {
		add(am.Fn)
	}
	for _, n := range []string{"PayAnte", "PayBlinds"} {
		add(p.Func("pokerface", ea.playerImpl, n))
	}
	return roots
}

func runC07(c *Ctx) {
	p := c.P
	ix := p.Index()
	ea := c.engine()
	if ea.playerImpl == "" || ea.gameImpl == "" {
		c.undecided("anchors", "engine-implementations", "-", "pokerface.Player / pokerface.Game do not have exactly one implementation each")
		return
	}
	roots := c.operationRoots(ea)
	c.floor("no-hidden-state", "operation entry points", len(roots), 15)
	R := ix.Reachable(roots...)
	for f := range R {
		c.touch(fnKey(f))
	}

	// ---- no-hidden-state
	wrapper := map[string]bool{"pokerface." + ea.gameImpl: true, "pokerface." + ea.playerImpl: true}
	rebuild := ix.Reachable(p.Func("pokerface", "", "NewGameFromState"), p.Func("pokerface", "", "NewGame"))
	nWrapperFields := 0
	for w := range wrapper {
		if t := namedType(p, "pokerface", strings.TrimPrefix(w, "pokerface.")); t != nil {
			if st, ok := t.Underlying().(*types.Struct); ok {
				nWrapperFields += st.NumFields()
			}
		}
	}
	c.floor("no-hidden-state", "wrapper fields", nWrapperFields, 4)
	var hidden, outside []string
	for _, fn := range p.Funcs {
		if fn.Pkg == nil || !enginePkgs[shortPkg(fn.Pkg.Pkg.Path())] {
			continue
		}
		for _, b := range fn.Blocks {
			for _, in := range b.Instrs {
				key, fresh := "", false
				switch x := in.(type) {
				case *ssa.Store:
					if fa, ok := x.Addr.(*ssa.FieldAddr); ok {
						key = fieldKeyOf(fa.X, fa.Field)
						_, fresh = rootOf(x.Addr)
					} else if g, ok := x.Addr.(*ssa.Global); ok && fn.Name() != "init" {
						key = "global:" + g.Name()
					}
				case *ssa.Call:
					// a method of a container from outside the module called on an engine global
					// (sync.Map.Store, LoadOrStore, a pool, an atomic): process-wide mutable state
					if callee := x.Call.StaticCallee(); callee != nil && !inModule(callee) && len(x.Call.Args) > 0 && fn.Name() != "init" {
						if g, ok := x.Call.Args[0].(*ssa.Global); ok && g.Pkg != nil && enginePkgs[shortPkg(g.Pkg.Pkg.Path())] {
							if nm := callee.Name(); nm != "Load" && nm != "Range" && nm != "Len" {
								key = "global:" + g.Name() + "." + nm + "()"
							}
						}
						// ... or handed the address of a wrapper field (a buffer, a cache kept on the
						// engine object): whatever it keeps there a rebuilt game does not have
						if key == "" {
							for _, a := range x.Call.Args {
								if fa, ok := a.(*ssa.FieldAddr); ok && wrapper[ownerOfKey(fieldKeyOf(fa.X, fa.Field))] {
									if nm := callee.Name(); nm != "Load" && nm != "Range" && nm != "Len" && nm != "Bytes" && nm != "String" && nm != "RLock" && nm != "RUnlock" {
										key = fieldKeyOf(fa.X, fa.Field)
										_, fresh = rootOf(a)
									}
								}
							}
						}
					}
				case *ssa.MapUpdate:
					if l, ok := x.Map.(*ssa.UnOp); ok {
						if fa, ok := l.X.(*ssa.FieldAddr); ok {
							key = fieldKeyOf(fa.X, fa.Field) + "[]"
						}
					}
					if l, ok := x.Map.(*ssa.UnOp); ok {
						if g, ok := l.X.(*ssa.Global); ok {
							key = "global:" + g.Name() + "[]"
						}
					}
				}
				if key == "" {
					continue
				}
				owner := key
				if i := strings.LastIndex(key, "."); i > 0 {
					owner = key[:i]
				}
				isWrapper := wrapper[owner]
				isGlobal := strings.HasPrefix(key, "global:")
				if !isWrapper && !isGlobal {
					continue
				}
				c.Sites++
				if R[fn] && !fresh {
					hidden = append(hidden, fmt.Sprintf("%s writes %s at %s: state that a rebuilt game does not have", fnKey(fn), key, p.InstrPos(in)))
				} else if isWrapper && !fresh && !rebuild[fn] {
					outside = append(outside, fmt.Sprintf("%s writes %s at %s outside construction and the rebuild path", fnKey(fn), key, p.InstrPos(in)))
				}
			}
		}
	}
	c.check(len(hidden) == 0, "no-hidden-state", "operations-write-only-GameState", "-", fmt.Sprintf("none of the %d functions reachable from operations writes a wrapper field or an engine global", len(R)), "an operation keeps state outside *GameState", uniq(hidden, 4)...)
	c.check(len(outside) == 0, "no-hidden-state", "wrapper-fields-written-by-rebuild-only", "-", "wrapper fields are written only by construction and by NewGameFromState's rebuild path", "a wrapper field is written somewhere a rebuilt game would not repeat", uniq(outside, 4)...)

	// ---- serialized-closure
	root := namedType(p, "pokerface", "GameState")
	var derived []string
	derivedSet := map[string]bool{}
	nFields := 0
	var badT []string
	seenT := map[string]bool{}
	var walk func(t types.Type, under bool)
	walk = func(t types.Type, under bool) {
		for i := 0; i < 8; i++ {
			switch x := t.(type) {
			case *types.Pointer:
				t = x.Elem()
				continue
			case *types.Slice:
				t = x.Elem()
				continue
			case *types.Array:
				t = x.Elem()
				continue
			case *types.Map:
				if b, ok := x.Key().Underlying().(*types.Basic); !ok || b.Info()&(types.IsInteger|types.IsString) == 0 {
					badT = append(badT, "map key type "+typeShort(x.Key())+" does not survive JSON")
				}
				t = x.Elem()
				continue
			}
			break
		}
		n, ok := t.(*types.Named)
		if !ok {
			switch t.Underlying().(type) {
			case *types.Interface, *types.Signature, *types.Chan:
				if !under {
					badT = append(badT, "a field of type "+typeShort(t)+" cannot be rebuilt from JSON")
				}
			}
			return
		}
		st, ok := n.Underlying().(*types.Struct)
		if !ok {
			if _, isI := n.Underlying().(*types.Interface); isI && !under {
				badT = append(badT, "interface-typed field "+typeShort(t))
			}
			return
		}
		if n.Obj().Pkg() == nil || !strings.HasPrefix(n.Obj().Pkg().Path(), modPath) {
			return
		}
		name := shortPkg(n.Obj().Pkg().Path()) + "." + n.Obj().Name()
		k := name
		if under {
			k += "#derived"
		}
		if seenT[k] {
			return
		}
		seenT[k] = true
		// two serialised fields of one struct with the same JSON name: encoding/json drops BOTH,
		// silently, on the way out and on the way in
		jsonNames := map[string]string{}
		for i := 0; i < st.NumFields(); i++ {
			f := st.Field(i)
			if !f.Exported() || f.Embedded() {
				continue
			}
			jn := jsonName(st.Tag(i))
			if jn == "-" {
				continue
			}
			if jn == "" {
				jn = f.Name()
			}
			if other, dup := jsonNames[jn]; dup && !under {
				badT = append(badT, fmt.Sprintf("%s.%s and %s.%s share the JSON name %q: neither is serialised", name, other, name, f.Name(), jn))
			}
			jsonNames[jn] = f.Name()
		}
		for i := 0; i < st.NumFields(); i++ {
			f := st.Field(i)
			key := name + "." + f.Name()
			nFields++
			u := under
			if !f.Exported() || jsonName(st.Tag(i)) == "-" {
				if !derivedSet[key] {
					derivedSet[key] = true
					derived = append(derived, key)
				}
				u = true
			} else if under && !derivedSet[key] {
				derivedSet[key] = true
			}
			switch f.Type().Underlying().(type) {
			case *types.Interface, *types.Signature, *types.Chan:
				if !u {
					badT = append(badT, key+" has type "+typeShort(f.Type())+" which cannot be rebuilt from JSON")
				}
			}
			walk(f.Type(), u)
		}
	}
	if root == nil {
		c.undecided("serialized-closure", "GameState", "-", "type not found")
	} else {
		walk(root, false)
		sort.Strings(derived)
		c.floor("serialized-closure", "fields in GameState's type closure", nFields, 30)
		c.role("derived (non-serialised) fields", strings.Join(derived, ","))
		c.check(len(badT) == 0, "serialized-closure", "GameState#types", "-", fmt.Sprintf("%d fields: all serialised ones have JSON-compatible types; %d derived roots reported", nFields, len(derived)), "part of the state cannot survive a JSON hop", uniq(badT, 4)...)
	}
	// nil tests on omitempty slices/maps in operation-reachable code
	{
		var bad []string
		for fn := range R {
			for _, b := range fn.Blocks {
				for _, in := range b.Instrs {
					bo, ok := in.(*ssa.BinOp)
					if !ok || (bo.Op.String() != "==" && bo.Op.String() != "!=") {
						continue
					}
					var other ssa.Value
					if isNilConst(bo.X) {
						other = bo.Y
					} else if isNilConst(bo.Y) {
						other = bo.X
					} else {
						continue
					}
					switch other.Type().Underlying().(type) {
					case *types.Slice, *types.Map:
					default:
						continue
					}
					if u, ok := other.(*ssa.UnOp); ok {
						if fa, ok := u.X.(*ssa.FieldAddr); ok {
							k := fieldKeyOf(fa.X, fa.Field)
							if strings.HasPrefix(k, "pokerface.") || strings.HasPrefix(k, "pot.") || strings.HasPrefix(k, "settlement.") {
								bad = append(bad, fmt.Sprintf("%s compares %s with nil at %s: nil and empty differ before and after a JSON hop", fnKey(fn), k, p.InstrPos(in)))
							}
						}
					}
				}
			}
		}
		c.check(len(bad) == 0, "serialized-closure", "no-nil-test-on-collections", "-", "no operation distinguishes a nil from an empty slice/map of the state", "engine behaviour depends on nil-ness that JSON does not preserve", uniq(bad, 3)...)
	}

	// ---- derived-recomputed
	var settle *ssa.Function
	if ws := ix.Writers("pokerface.GameState.Result"); len(ws) == 1 {
		settle = ws[0]
	}
	var publisher *ssa.Function
	for _, w := range ix.Writers("pokerface.Status.Pots") {
		for _, cc := range ix.Info[w].Calls {
			if f := cc.StaticCallee(); f != nil && f.Name() == "GetPots" {
				publisher = w
			}
		}
	}
	if settle == nil || publisher == nil {
		c.undecided("derived-recomputed", "anchors", "-", "settlement entry or pot publisher not resolvable")
	} else {
		c.role("settlement entry", fnKey(settle))
		c.role("pot publisher", fnKey(publisher))
		nDer := 0
		for key := range derivedSet {
			readers := ix.Readers(key)
			for _, rd := range readers {
				if !R[rd] {
					continue
				}
				nDer++
				inPublisher := !reachableWithout(ix, roots, map[*ssa.Function]bool{publisher: true})[rd] || rd == publisher
				inSettle := !reachableWithout(ix, roots, map[*ssa.Function]bool{settle: true})[rd]
				inEither := !reachableWithout(ix, roots, map[*ssa.Function]bool{settle: true, publisher: true})[rd]
				obKey := key + "@" + fnKey(rd)
				switch {
				case inPublisher:
					c.ok("derived-recomputed", obKey, p.FnPos(rd), "read only inside the activation that builds the pots (fresh level list)")
				case strings.HasPrefix(key, "settlement.") && (inSettle || rd == settle):
					c.ok("derived-recomputed", obKey, p.FnPos(rd), "read only inside the settlement activation, on a Result allocated there")
				case strings.HasPrefix(key, "pot.") && (inEither || rd == settle):
					// the settlement reads level lists published earlier: every caller of the settlement republishes first
					var bad []string
					callers := ix.Callers(settle)
					if len(callers) == 0 {
						bad = append(bad, "the settlement entry has no caller")
					}
					for _, cl := range callers {
						s := newSumm(p, 0)
						paths, _ := s.Function(cl)
						for _, ps := range paths {
							iPub, iRead := -1, -1
							for i, e := range ps.Events {
								if e.Kind == "call" && (e.Fn == publisher || mustCall(p, e.Fn, publisher, 0)) {
									iPub = i
								}
								if e.Kind == "call" && e.Fn == settle && iRead < 0 {
									iRead = i
								}
							}
							if iRead >= 0 && (iPub < 0 || iPub > iRead) {
								bad = append(bad, fmt.Sprintf("%s runs the settlement without republishing the pots first (path [%s]): after a JSON hop %s is empty and nobody is paid", fnKey(cl), ps.CondString(), key))
							}
						}
					}
					c.check(len(bad) == 0, "derived-recomputed", obKey, p.FnPos(rd), "read by the settlement only after the pots were rebuilt in the same handler", "a derived field is read without being recomputed", uniq(bad, 3)...)
				default:
					c.bad("derived-recomputed", obKey, p.FnPos(rd), "a non-serialised field is read by an operation outside the activation that builds it: it is empty after a JSON hop")
				}
			}
		}
		c.floor("derived-recomputed", "operation-reachable reads of derived fields", nDer, 2)
		// the settlement entry allocates the Result it works on
		s := withPrivateHelpers(newSumm(p, 0), settle)
		paths, _ := s.Function(settle)
		okFresh := len(paths) > 0
		for _, ps := range paths {
			for _, e := range ps.storesTo("pokerface.GameState.Result") {
				if !strings.HasPrefix(e.Val.String(), "&new") && !strings.Contains(e.Val.String(), "NewResult(") {
					okFresh = false
				}
			}
		}
		c.check(okFresh, "derived-recomputed", fnKey(settle)+"#fresh-result", p.FnPos(settle), "the settlement works on a Result allocated in the same activation", "the settlement continues from a stored Result whose private fields do not survive JSON")
	}

	// ---- resume-reentry (with C06)
	{
		eg := buildEventGraph(c, ea)
		okR := false
		if eg.Resume != nil && eg.Emit != nil {
			for _, o := range eg.Outcomes(eg.Resume) {
				for _, e := range o.Path.Events {
					if e.Kind == "call" && e.Fn == eg.Emit && len(e.Args) >= 2 && strings.Contains(e.Args[1].String(), "GameEventBySymbol") && strings.Contains(e.Args[1].String(), "GS.Status.CurrentEvent") {
						okR = true
					}
				}
			}
		}
		c.check(okR, "resume-reentry", "Resume", "-", "Resume emits GameEventBySymbol[Status.CurrentEvent]", "Resume does not re-enter the recorded event")
		symT := p.ConstTable("pokerface", "GameEventSymbols")
		invT := p.ConstTable("pokerface", "GameEventBySymbol")
		okT := symT.OK && invT.OK && len(symT.Entries) == len(invT.Entries) && len(symT.Entries) == len(eg.EventTyp)
		if okT {
			inv := map[string]string{}
			for _, e := range invT.Entries {
				inv[cstr(e.Key)] = e.Val.ExactString()
			}
			for _, e := range symT.Entries {
				if inv[cstr(e.Val)] != e.Key.ExactString() {
					okT = false
				}
			}
		}
		c.check(okT, "resume-reentry", "symbol-tables-inverse", p.Pos(symT.Pos), "the two symbol tables are total on the events and mutually inverse", "the recorded symbol does not lead back to the same event")
		// accepted actions end in Resume
		offered, _, _ := c.offeredActions(ea)
		var bad []string
		for _, am := range c.actionMethods(ea) {
			if !offered[am.Const] {
				continue
			}
			for _, o := range eg.Outcomes(am.Fn) {
				passed := false
				for _, cd := range o.Chain[0].Conds {
					if a, ok := actionGuardAtom(cd.V); ok && a == am.Const && !cd.V.Neg {
						passed = true
					}
				}
				if passed && o.Kind != "resume" && o.Kind != "refuse" {
					bad = append(bad, am.Fn.Name()+" ends with "+o.Kind)
				}
			}
		}
		c.check(len(bad) == 0, "resume-reentry", "actions-end-in-Resume", "-", "every accepted action re-enters the chain through Resume", "an action does not re-enter through the recorded event", uniq(bad, 3)...)
	}

	runC07Backend(c, ea)
	runC07Load(c, ea)
	runC07Determinism(c, ea, roots, R)
}

func reachableWithout(ix *Index, roots []*ssa.Function, cut map[*ssa.Function]bool) map[*ssa.Function]bool {
	seen := map[*ssa.Function]bool{}
	var stack []*ssa.Function
	for _, r := range roots {
		if r != nil && !cut[r] {
			stack = append(stack, r)
		}
	}
	for len(stack) > 0 {
		f := stack[len(stack)-1]
		stack = stack[:len(stack)-1]
		if seen[f] {
			continue
		}
		seen[f] = true
		fi := ix.Info[f]
		if fi == nil {
			continue
		}
		for _, cc := range fi.Calls {
			for _, t := range ix.targets(f, cc) {
				if !cut[t] && !seen[t] {
					stack = append(stack, t)
				}
			}
		}
	}
	return seen
}

// runC07Backend: clone in, run one engine operation of the same name, clone out.
// runC07Load: rebuilding a game from a state adopts the state as it is. The loader (the function
// that stores its *GameState argument as the game's state) and everything it calls write only the
// engine's own wiring, never a field of the state: a loader that "repairs" a value makes the
// rebuilt game differ from the one that was serialised.
func runC07Load(c *Ctx, ea *engineAnchors) {
	p := c.P
	ix := p.Index()
	var loaders []*ssa.Function
	for _, fn := range p.MethodsOf("pokerface", ea.gameImpl) {
		for _, b := range fn.Blocks {
			for _, in := range b.Instrs {
				if st, ok := in.(*ssa.Store); ok && accessKey(st.Addr) == "pokerface."+ea.gameImpl+".gs" {
					if prm, ok := st.Val.(*ssa.Parameter); ok && typeShort(prm.Type()) == "*pokerface.GameState" {
						loaders = append(loaders, fn)
					}
				}
			}
		}
	}
	c.floor("load-is-identity", "functions that adopt a state", len(loaders), 1)
	for _, ld := range loaders {
		c.touch(fnKey(ld))
		var bad []string
		fi := ix.Info[ld]
		for _, k := range sortedKeys(fi.TWrites) {
			for _, pre := range []string{"pokerface.GameState.", "pokerface.Status.", "pokerface.Meta.", "pokerface.PlayerState.", "pokerface.BlindSetting.", "pokerface.Action.", "pokerface.CombinationInfo.", "pot.", "settlement."} {
				if strings.HasPrefix(k, pre) {
					bad = append(bad, "writes "+k+" of the state it is given")
				}
			}
		}
		// and the wiring is rebuilt for every player of the adopted state, unconditionally: a wrapper
		// kept from before still points into the state that was replaced
		{
			s := newSumm(p, 0)
			s.EngineAliases = true
			owner := ld
			s.HelperInline = func(f *ssa.Function) bool {
				return privateHelper(owner, f) && len(findLoops(f)) == 0 && ix.Info[f] != nil && len(ix.Info[f].Writes) == 0
			}
			nLoop := 0
			for _, l := range s.loops(ld) {
				ri := analyseRange(l)
				if !loadsField(ri.Coll, "pokerface.GameState.Players") {
					continue
				}
				nLoop++
				if !ri.Full || len(l.Exits) != 1 {
					bad = append(bad, "the wiring is not rebuilt for every player of the state")
				}
				body, _ := s.LoopBody(ld, l)
				for _, bp := range body {
					wired := false
					for _, e := range bp.Events {
						if e.Kind == "call" && e.Fn != nil && ix.Info[e.Fn] != nil && len(ix.Info[e.Fn].TWrites) > 0 {
							for _, a := range e.Args {
								if strings.Contains(a.String(), "[iter:") {
									wired = true
								}
							}
						}
					}
					if !wired && bp.End == "continue" {
						bad = append(bad, "a player of the adopted state keeps its old wiring under ["+bp.CondString()+"]")
					}
				}
			}
			if nLoop == 0 {
				bad = append(bad, "no loop over the players of the adopted state rebuilds the wiring")
			} else {
				// ... on every path that adopts the state and returns normally
				paths, _ := s.Function(ld)
				for _, ps := range paths {
					if ps.End != "return" {
						continue
					}
					if len(ps.Ret) == 1 {
						if _, refuses := c.sentinelError(ps.Ret[0]); refuses {
							continue
						}
					}
					through := false
					for _, e := range ps.Events {
						if e.Kind == "loop" && e.Loop != nil && loadsField(analyseRange(e.Loop).Coll, "pokerface.GameState.Players") {
							through = true
						}
					}
					if !through {
						bad = append(bad, "the wiring is kept from before under ["+ps.CondString()+"]")
					}
				}
			}
		}
		c.check(len(bad) == 0, "load-is-identity", fnKey(ld), p.FnPos(ld), "adopts the state unchanged: only the engine's own wiring is written, and it is rebuilt for every player", "a rebuilt game differs from the serialised one", uniq(bad, 3)...)
	}
}

func runC07Backend(c *Ctx, ea *engineAnchors) {
	p := c.P
	want := backendMethods(p)
	clone := p.Func("table", "", "cloneState")
	if clone == nil {
		c.undecided("backend-purity", "cloneState", "-", "not found")
		return
	}
	c.touch(fnKey(clone))
	// cloneState never stores through its argument and returns a fresh object
	{
		fi := p.Index().Info[clone]
		var bad []string
		for _, w := range fi.Writes {
			if !w.Fresh {
				bad = append(bad, "stores "+w.Key)
			}
		}
		for _, b := range clone.Blocks {
			for _, in := range b.Instrs {
				if call, ok := in.(*ssa.Call); ok {
					n := extCalleeName(call.Common())
					if n == "encoding/json.Unmarshal" {
						if _, fresh := rootOf(call.Call.Args[1]); !fresh {
							bad = append(bad, "unmarshals into a non-fresh object")
						}
					} else if n != "encoding/json.Marshal" && !pureExternal(n) {
						bad = append(bad, "calls "+n)
					}
				}
				if r, ok := in.(*ssa.Return); ok && len(r.Results) == 1 && !isNilConst(r.Results[0]) {
					if r.Results[0] == ssa.Value(clone.Params[0]) {
						bad = append(bad, "returns its argument")
					}
				}
			}
		}
		c.check(len(bad) == 0, "backend-purity", fnKey(clone), p.FnPos(clone), "marshals its argument and unmarshals into a fresh object; never stores through the argument", "cloneState is not a pure copy", uniq(bad, 3)...)
	}
	n := 0
	for _, m := range want {
		fn := p.Func("table", "NativeBackend", m)
		if fn == nil {
			c.bad("backend-purity", "NativeBackend."+m, "-", "table.Backend method not implemented by NativeBackend")
			continue
		}
		n++
		c.touch(fnKey(fn))
		var bad []string
		// uses of a *GameState parameter: only as the argument of cloneState
		for _, prm := range fn.Params[1:] {
			if typeShort(prm.Type()) != "*pokerface.GameState" {
				continue
			}
			var checkUses func(v *ssa.Parameter, depth int)
			checkUses = func(v *ssa.Parameter, depth int) {
				for _, ref := range *v.Referrers() {
					okUse := false
					if call, ok := ref.(*ssa.Call); ok {
						callee := call.Common().StaticCallee()
						if callee == clone {
							okUse = true
						} else if callee != nil && depth < 2 && callee.Pkg != nil && shortPkg(callee.Pkg.Pkg.Path()) == "table" && !token.IsExported(callee.Name()) {
							// forwarded to a package-private helper: the helper's parameter must obey the same rule
							for i, a := range call.Common().Args {
								if a == ssa.Value(v) && i < len(callee.Params) {
									checkUses(callee.Params[i], depth+1)
									okUse = true
								}
							}
						}
					}
					if _, ok := ref.(*ssa.DebugRef); ok {
						okUse = true
					}
					if !okUse {
						bad = append(bad, "the state handed in is used directly at "+p.InstrPos(ref)+" (not through cloneState): the caller's state can be modified or aliased")
					}
				}
			}
			checkUses(prm, 0)
		}
		// depth 3: the body may be shared through package-private helpers (load / apply); the calls
		// the rule looks for are outside the table package or excluded, so they stay visible
		s := newSumm(p, 3)
		s.EngineAliases = false
		s.NoInline[fnKey(clone)] = true
		s.InlineFilter = func(f *ssa.Function) bool { return f.Pkg != nil && shortPkg(f.Pkg.Pkg.Path()) == "table" }
		paths, _ := s.Function(fn)
		called := false
		// the operation may be handed to a shared helper as a function value (a method expression
		// or a closure): resolve which engine method that value invokes
		opNames := funcArgEngineMethods(fn)
		for _, ps := range paths {
			var eng *Event
			for _, e := range ps.Events {
				if e.Kind != "call" {
					continue
				}
				if strings.HasSuffix(e.Callee, ".NewGameFromState") {
					if len(e.Args) < 1 || !strings.HasPrefix(e.Args[len(e.Args)-1].String(), "table.cloneState(") {
						bad = append(bad, "the engine is built from "+e.Args[len(e.Args)-1].String()+", not from a clone")
					}
				}
				name := m
				if m == "CreateGame" {
					name = "Start"
				}
				if strings.HasSuffix(e.Callee, ")."+name) && (strings.Contains(e.Callee, "pokerface.") || strings.Contains(e.Callee, "Game")) {
					eng = e
					called = true
				}
				if strings.HasPrefix(e.Callee, "dynamic:") && len(opNames) == 1 && opNames[0] == name && len(e.Args) >= 1 && strings.Contains(e.Args[0].String(), "NewGameFromState(") {
					eng = e
					called = true
				}
			}
			if len(ps.Ret) == 2 {
				r := ps.Ret[0]
				if !(r.K == KConst && r.S == "nil") && !strings.HasPrefix(r.String(), "table.cloneState(") {
					bad = append(bad, "returns "+r.String()+", not a clone of the engine's state")
				}
				if !(r.K == KConst && r.S == "nil") && eng == nil {
					bad = append(bad, "returns a state without having run the engine operation "+m)
				}
			}
		}
		if !called {
			bad = append(bad, "does not call the engine method of its own name")
		}
		c.check(len(bad) == 0, "backend-purity", fnKey(fn), p.FnPos(fn), "clone in, run the engine operation of the same name, clone out", "the backend shares state with its caller or runs the wrong operation", uniq(bad, 3)...)
	}
	c.floor("backend-purity", "backend methods", n, 13)
}

// runC07Determinism: clock and random sources.
func runC07Determinism(c *Ctx, ea *engineAnchors, roots []*ssa.Function, R map[*ssa.Function]bool) {
	p := c.P
	ix := p.Index()
	isSource := func(name string) bool {
		return strings.HasPrefix(name, "time.Now") || strings.HasPrefix(name, "math/rand.") || strings.HasPrefix(name, "crypto/rand.") || strings.HasPrefix(name, "github.com/google/uuid.New")
	}
	eg := buildEventGraph(c, ea)
	// fields receiving clock/random-derived values (explicit flow inside the function)
	clockFields := map[string]bool{}
	type site struct {
		fn   *ssa.Function
		in   ssa.Instruction
		name string
	}
	var sites []site
	for _, fn := range p.Funcs {
		if fn.Pkg == nil || !enginePkgs[shortPkg(fn.Pkg.Pkg.Path())] {
			continue
		}
		for _, b := range fn.Blocks {
			for _, in := range b.Instrs {
				call, ok := in.(*ssa.Call)
				if !ok {
					continue
				}
				n := extCalleeName(call.Common())
				if !isSource(n) {
					continue
				}
				sites = append(sites, site{fn, in, n})
				// forward flow of the value inside fn
				work := []ssa.Value{call}
				seen := map[ssa.Value]bool{}
				for len(work) > 0 {
					v := work[len(work)-1]
					work = work[:len(work)-1]
					if seen[v] || v.Referrers() == nil {
						continue
					}
					seen[v] = true
					for _, ref := range *v.Referrers() {
						switch x := ref.(type) {
						case *ssa.Store:
							if fa, ok := x.Addr.(*ssa.FieldAddr); ok && x.Val == v {
								clockFields[fieldKeyOf(fa.X, fa.Field)] = true
							}
						case ssa.Value:
							work = append(work, x)
						}
					}
				}
			}
		}
	}
	// scheduling is a source too: work started with `go` (or a select over several channels) from
	// an operation finishes in an order the state does not determine
	{
		var conc []string
		for _, fn := range sortedFns(R) {
			if fn.Pkg == nil || !enginePkgs[shortPkg(fn.Pkg.Pkg.Path())] {
				continue
			}
			for _, b := range fn.Blocks {
				for _, in := range b.Instrs {
					switch in.(type) {
					case *ssa.Go:
						conc = append(conc, fmt.Sprintf("%s starts a goroutine at %s", fnKey(fn), p.InstrPos(in)))
					case *ssa.Select:
						conc = append(conc, fmt.Sprintf("%s selects over channels at %s", fnKey(fn), p.InstrPos(in)))
					}
				}
			}
		}
		c.check(len(conc) == 0, "determinism-sources", "operations-are-sequential", "-", fmt.Sprintf("none of the %d functions reachable from operations starts a goroutine or selects over channels", len(R)), "an operation's result can depend on scheduling", uniq(conc, 3)...)
	}
	c.role("clock/random-derived fields", strings.Join(sortedSet(clockFields), ","))
	c.floor("determinism-sources", "clock/random call sites in engine packages", len(sites), 2)
	// classify each site
	shuffle := p.Func("pokerface", "", "ShuffleCards")
	for _, st := range sites {
		c.Sites++
		key := fnKey(st.fn) + "#" + st.name
		switch {
		case !R[st.fn]:
			c.ok("determinism-sources", key, p.InstrPos(st.in), "not reachable from any operation (construction only)")
		case st.fn == shuffle || (st.fn.Parent() != nil && st.fn.Parent() == shuffle):
			c.ok("determinism-sources", key, p.InstrPos(st.in), "inside the shuffle (gating checked separately)")
		default:
			// must be a pure timestamp: the value flows only into clock fields
			call := st.in.(*ssa.Call)
			okTS := true
			work := []ssa.Value{call}
			seen := map[ssa.Value]bool{}
			for len(work) > 0 {
				v := work[len(work)-1]
				work = work[:len(work)-1]
				if seen[v] || v.Referrers() == nil {
					continue
				}
				seen[v] = true
				for _, ref := range *v.Referrers() {
					switch x := ref.(type) {
					case *ssa.Store:
						fa, ok := x.Addr.(*ssa.FieldAddr)
						if !ok || !strings.HasSuffix(fieldKeyOf(fa.X, fa.Field), "GameState.UpdatedAt") {
							okTS = false
						}
					case *ssa.Call:
						if !strings.HasPrefix(extCalleeName(x.Common()), "time.") {
							okTS = false
						}
						work = append(work, x)
					case ssa.Value:
						work = append(work, x)
					case *ssa.DebugRef:
					default:
						okTS = false
					}
				}
			}
			c.check(okTS, "determinism-sources", key, p.InstrPos(st.in), "the clock value is only stored as the UpdatedAt timestamp", "a clock/random value reachable from operations influences more than the timestamp")
		}
	}
	// the shuffle runs only in the handler chain of an event emitted by Start alone
	if shuffle != nil && eg.Trigger != nil {
		c.touch(fnKey(shuffle))
		var bad []string
		// handlers from which the shuffle is reachable without passing through EmitEvent
		for ev, h := range eg.Handler {
			if h == nil {
				continue
			}
			reach := reachableWithout(ix, []*ssa.Function{h}, map[*ssa.Function]bool{eg.Emit: true, eg.Resume: true})
			if !reach[shuffle] {
				continue
			}
			// who emits ev? every constant emit site in the module
			for _, fn := range p.Funcs {
				for _, b := range fn.Blocks {
					for _, in := range b.Instrs {
						call, ok := in.(*ssa.Call)
						if !ok || len(call.Call.Args) < 2 {
							continue
						}
						if f := call.Common().StaticCallee(); f == eg.Emit {
							if cv, ok := constInt(call.Call.Args[1]); ok && eg.ByVal[fmt.Sprint(cv)] == ev {
								if fn.Name() != "Start" {
									bad = append(bad, fmt.Sprintf("%s emits %s whose handler shuffles the deck", fnKey(fn), ev))
								}
							}
						}
					}
				}
			}
			// and it must not be a wait event (never the recorded event at a wait point)
			for _, o := range eg.Outcomes(h) {
				if o.Kind == "wait" {
					bad = append(bad, ev+" is a wait event: Resume could re-enter its handler and reshuffle")
				}
			}
		}
		// direct callers outside handlers
		for fn := range R {
			for _, cc := range ix.Info[fn].Calls {
				if cc.StaticCallee() == shuffle {
					inHandlerChain := false
					for _, h := range eg.Handler {
						if h != nil && reachableWithout(ix, []*ssa.Function{h}, map[*ssa.Function]bool{eg.Emit: true, eg.Resume: true})[fn] {
							inHandlerChain = true
						}
					}
					if !inHandlerChain {
						bad = append(bad, fnKey(fn)+" shuffles outside an event handler")
					}
				}
			}
		}
		c.check(len(bad) == 0, "determinism-sources", "shuffle-only-at-start", p.FnPos(shuffle), "the shuffle runs only in the handler of an event that Start alone emits and that is not a wait point", "the deck can be reshuffled by an operation other than Start", uniq(bad, 3)...)
	}
	// clock-derived fields are read by no operation
	var bad []string
	for k := range clockFields {
		for _, rd := range ix.Readers(k) {
			if R[rd] {
				bad = append(bad, fnKey(rd)+" reads "+k)
			}
		}
	}
	c.check(len(bad) == 0, "determinism-sources", "timestamps-not-read", "-", "no operation reads a clock-derived field", "a timestamp can leak into the rest of the state", uniq(bad, 3)...)
	// map range sites (listed, not decided)
	var mr []string
	for _, fn := range p.Funcs {
		if fn.Pkg == nil || !enginePkgs[shortPkg(fn.Pkg.Pkg.Path())] || !R[fn] {
			continue
		}
		for _, b := range fn.Blocks {
			for _, in := range b.Instrs {
				if r, ok := in.(*ssa.Range); ok {
					if _, isMap := r.X.Type().Underlying().(*types.Map); isMap {
						mr = append(mr, fnKey(fn)+" at "+p.InstrPos(in))
					}
				}
			}
		}
	}
	sort.Strings(mr)
	c.Notes = append(c.Notes, "map-range sites reachable from operations (order-insensitivity reviewed by hand, not decided): "+strings.Join(mr, "; "))
}

// funcArgEngineMethods: the interface methods invoked by the function values (method expressions,
// closures) that fn passes to functions of its own package.
func funcArgEngineMethods(fn *ssa.Function) []string {
	set := map[string]bool{}
	var scan func(f *ssa.Function)
	scan = func(f *ssa.Function) {
		if f == nil {
			return
		}
		for _, b := range f.Blocks {
			for _, in := range b.Instrs {
				if call, ok := in.(ssa.CallInstruction); ok && call.Common().IsInvoke() {
					set[call.Common().Method.Name()] = true
				}
			}
		}
	}
	for _, b := range fn.Blocks {
		for _, in := range b.Instrs {
			call, ok := in.(*ssa.Call)
			if !ok {
				continue
			}
			callee := call.Common().StaticCallee()
			if callee == nil || callee.Pkg != fn.Pkg {
				continue
			}
			for _, a := range call.Common().Args {
				switch x := a.(type) {
				case *ssa.Function:
					scan(x)
				case *ssa.MakeClosure:
					if f, ok := x.Fn.(*ssa.Function); ok {
						scan(f)
					}
				}
			}
		}
	}
	return sortedSet(set)
}

// mustCall: every returning path of f calls target, directly or through a function that must call
// it (a wrapper keeps the obligation of what it wraps).
func mustCall(p *Prog, f, target *ssa.Function, depth int) bool {
	if f == nil || f.Blocks == nil || depth > 3 || !inModule(f) {
		return false
	}
	s := newSumm(p, 0)
	paths, cut := s.Function(f)
	if cut != "" || len(paths) == 0 {
		return false
	}
	for _, ps := range paths {
		if ps.End != "return" {
			continue
		}
		ok := false
		for _, e := range ps.Events {
			if e.Kind == "call" && e.Fn != nil && (e.Fn == target || mustCall(p, e.Fn, target, depth+1)) {
				ok = true
			}
		}
		if !ok {
			return false
		}
	}
	return true
}

func ownerOfKey(key string) string {
	if i := strings.LastIndex(key, "."); i > 0 {
		return key[:i]
	}
	return key
}
