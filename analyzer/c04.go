package main

import (
	"fmt"
	"go/constant"
	"go/token"
	"go/types"
	"sort"
	"strings"

	"golang.org/x/tools/go/ssa"
)

func init() {
	register(&propDef{
		ID: "C04", Level: "other", Run: withShared(runC04, share{"C05", runC05, ruleIs("no-bet-when-one-movable")}, share{"C07", runC07, ruleIs("load-is-identity")}, share{"C06", runC06, ruleIs("tail-emit")}),
		Explanation: "Decides the refusal-without-effect half of the property for every path of every action and table operation (E3: all state effects come after the passed CheckAction / current-event guard, every refusing path returns a definitely non-nil sentinel error, every sentinel return is effect-free), that offered action names agree with the guards across packages (E2), that offers are attached to the current seat only and cleared from the previous one (E6/E8), that the game-level action wrappers dispatch to the current player, and that NextPlayer is the clockwise successor function. Where a round opens is decided in shape: later streets park the current seat on the dealer, before the flop the current seat walks the seat successor from the dealer to the big blind, and the first offer goes to the successor of the parked seat. Along every event chain that rests outside the action wait all offers were cleared after the last grant. Does NOT decide which seat the walk starts from before the flop or that the walk visits seats in order for every history.",
		Trusted:     commonTrusted,
		Assumptions: []string{"single game per process: every *GameState reached from a game/player is the same object", "player.state aliases GameState.Players[idx] (established by addPlayer)", "interfaces Game/Player have one implementation each (asserted)"},
		NotCovered:  "the clockwise seat walk and first-to-act seat as values over histories",
	})
}

// engine anchors shared by several properties -------------------------------------------

type engineAnchors struct {
	playerImpl string // concrete type implementing pokerface.Player
	gameImpl   string // concrete type implementing pokerface.Game
}

func (c *Ctx) engine() *engineAnchors {
	p := c.P
	ea := &engineAnchors{}
	tp, _, _ := p.pkgShort("pokerface")
	if tp == nil {
		return ea
	}
	find := func(ifaceName string) []string {
		obj := tp.Scope().Lookup(ifaceName)
		if obj == nil {
			return nil
		}
		it, ok := obj.Type().Underlying().(*types.Interface)
		if !ok {
			return nil
		}
		var out []string
		for _, pk := range p.Pkgs {
			for _, n := range pk.Types.Scope().Names() {
				tn, ok := pk.Types.Scope().Lookup(n).(*types.TypeName)
				if !ok || types.IsInterface(tn.Type()) {
					continue
				}
				if types.Implements(types.NewPointer(tn.Type()), it) || types.Implements(tn.Type(), it) {
					out = append(out, shortPkg(pk.PkgPath)+"."+n)
				}
			}
		}
		return out
	}
	pi := find("Player")
	gi := find("Game")
	if len(pi) == 1 {
		ea.playerImpl = strings.TrimPrefix(pi[0], "pokerface.")
	}
	if len(gi) == 1 {
		ea.gameImpl = strings.TrimPrefix(gi[0], "pokerface.")
	}
	c.role("implementation of pokerface.Player", strings.Join(pi, ","))
	c.role("implementation of pokerface.Game", strings.Join(gi, ","))
	return ea
}

// actionMethod describes a method of the Player implementation guarded by CheckAction.
type actionMethod struct {
	Fn    *ssa.Function
	Const string
}

func (c *Ctx) actionMethods(ea *engineAnchors) []actionMethod {
	var out []actionMethod
	if ea.playerImpl == "" {
		return nil
	}
	for _, fn := range c.P.MethodsOf("pokerface", ea.playerImpl) {
		s := newSumm(c.P, 0)
		paths, _ := s.Function(fn)
		consts := map[string]bool{}
		for _, ps := range paths {
			for _, cd := range ps.Conds {
				if a, ok := actionGuardAtom(cd.V); ok {
					consts[a] = true
				}
			}
		}
		for a := range consts {
			out = append(out, actionMethod{Fn: fn, Const: a})
		}
	}
	sort.Slice(out, func(i, j int) bool { return fnKey(out[i].Fn) < fnKey(out[j].Fn) })
	return out
}

// offeredActions: the string constants GetAvailableActions can return.
func (c *Ctx) offeredActions(ea *engineAnchors) (map[string]bool, []*PathSum, *ssa.Function) {
	fn := c.P.Func("pokerface", ea.gameImpl, "GetAvailableActions")
	if fn == nil {
		return nil, nil, nil
	}
	s := newSumm(c.P, 1)
	paths, cut := s.Function(fn)
	if cut != "" {
		return nil, nil, fn
	}
	out := map[string]bool{}
	for _, ps := range paths {
		if len(ps.Ret) != 1 {
			continue
		}
		r := ps.Ret[0]
		if r.Op != "list" {
			return nil, paths, fn // not a plain list of constants: undecided
		}
		for _, a := range r.Args {
			if a.K == KConst && isQuoted(a.S) {
				out[strings.Trim(a.S, `"`)] = true
			} else {
				return nil, paths, fn
			}
		}
	}
	return out, paths, fn
}

func backendMethods(p *Prog) []string {
	tp, _, _ := p.pkgShort("table")
	if tp == nil {
		return nil
	}
	obj := tp.Scope().Lookup("Backend")
	if obj == nil {
		return nil
	}
	it, ok := obj.Type().Underlying().(*types.Interface)
	if !ok {
		return nil
	}
	var out []string
	for i := 0; i < it.NumMethods(); i++ {
		out = append(out, it.Method(i).Name())
	}
	sort.Strings(out)
	return out
}

func runC04(c *Ctx) {
	p := c.P
	ea := c.engine()
	if ea.playerImpl == "" || ea.gameImpl == "" {
		c.undecided("anchors", "engine-implementations", "-", "pokerface.Player / pokerface.Game do not have exactly one implementation each; call resolution would be ambiguous")
		return
	}

	// --- action-guard
	acts := c.actionMethods(ea)
	c.floor("action-guard", "action methods guarded by CheckAction", len(acts), 6)
	guardOf := map[string][]string{} // const -> methods
	for _, am := range acts {
		c.checkRefusal("action-guard", am.Fn, 0, actionGuardAtom, "")
		guardOf[am.Const] = append(guardOf[am.Const], am.Fn.Name())
	}

	// the guard itself answers from the offers stored for that seat (a membership scan of
	// PlayerState.AllowedActions): offers are withdrawn by clearing that list and by nothing else,
	// so a guard that recomputes what the seat could be offered accepts actions after the withdrawal
	if gfn := p.Func("pokerface", ea.playerImpl, "CheckAction"); gfn == nil {
		c.undecided("action-guard", "CheckAction#predicate", "-", "guard predicate not found")
	} else {
		c.touch(fnKey(gfn))
		verdict, why := membershipOfField(gfn, "pokerface.PlayerState.AllowedActions", 0)
		switch verdict {
		case "yes":
			c.check(true, "action-guard", fnKey(gfn)+"#predicate", p.FnPos(gfn), "the guard is a membership test of the stored offers of the seat", "")
		case "no":
			c.check(false, "action-guard", fnKey(gfn)+"#predicate", p.FnPos(gfn), "", "the action guard does not answer from the stored offers", why)
		default:
			c.undecided("action-guard", fnKey(gfn)+"#predicate", p.FnPos(gfn), "shape of the guard predicate not recognised: "+why)
		}
	}

	// --- operation-guard
	ops := backendMethods(p)
	c.floor("operation-guard", "table.Backend methods", len(ops), 13)
	nPhase := 0
	isAction := map[string]bool{}
	for _, am := range acts {
		isAction[am.Fn.Name()] = true
	}
	var wrappers []string
	for _, m := range ops {
		if m == "CreateGame" {
			continue
		}
		g := p.Func("pokerface", ea.gameImpl, m)
		if g == nil {
			c.bad("operation-guard", "game."+m, "-", "table.Backend operation has no engine method of the same name")
			continue
		}
		if isAction[m] {
			wrappers = append(wrappers, m)
			continue
		}
		nPhase++
		c.checkRefusal("operation-guard", g, 0, phaseGuardAtom, "")
		// the per-seat building block of the same name, if any
		if pm := p.Func("pokerface", ea.playerImpl, m); pm != nil {
			c.checkRefusal("operation-guard", pm, 0, phaseGuardAtom, "")
			nPhase++
		}
	}
	c.floor("operation-guard", "phase-guarded operations", nPhase, 4)

	// --- wrapper-target: game.M() == GetCurrentPlayer().M(args...)
	for _, m := range wrappers {
		g := p.Func("pokerface", ea.gameImpl, m)
		c.touch(fnKey(g))
		s := newSumm(p, 0)
		paths, _ := s.Function(g)
		ok := len(paths) == 1
		why := ""
		if ok {
			ps := paths[0]
			var calls []*Event
			for _, e := range ps.Events {
				if e.Kind == "call" {
					calls = append(calls, e)
				}
			}
			if len(calls) != 2 || !strings.HasSuffix(calls[0].Callee, ".GetCurrentPlayer") || !strings.HasSuffix(calls[1].Callee, ")."+m) {
				ok = false
				why = "expected GetCurrentPlayer() followed by ." + m + "(...)"
			} else {
				// receiver of the second call is the result of the first; parameters forwarded in order
				if calls[1].Args[0].String() != calls[0].Res.String() {
					ok = false
					why = "action is not applied to the current player"
				}
				for i := 1; i < len(g.Params); i++ {
					if i >= len(calls[1].Args) || calls[1].Args[i].String() != "param:"+g.Params[i].Name() {
						ok = false
						why = "parameter " + g.Params[i].Name() + " is not forwarded unchanged"
					}
				}
				if len(ps.Ret) != 1 || ps.Ret[0].String() != calls[1].Res.String() {
					ok = false
					why = "result of the player's action is not returned"
				}
			}
		} else {
			why = fmt.Sprintf("%d paths", len(paths))
		}
		c.check(ok, "wrapper-target", fnKey(g), p.FnPos(g), "dispatches to GetCurrentPlayer()."+m+" with its arguments and returns its result", "wrapper does not dispatch to the current player's "+m+": "+why)
	}
	c.floor("wrapper-target", "action wrappers", len(wrappers), 6)

	// --- offer-agreement
	offered, _, avail := c.offeredActions(ea)
	if offered == nil {
		pos := "-"
		if avail != nil {
			pos = p.FnPos(avail)
		}
		c.undecided("offer-agreement", "GetAvailableActions", pos, "cannot read the offered constants (function missing, or it does not return lists of constants)")
	} else {
		c.touch(fnKey(avail))
		c.floor("offer-agreement", "offered action constants", len(offered), 7)
		for a := range offered {
			ms := guardOf[a]
			c.check(len(ms) == 1, "offer-agreement", "offered:"+a, p.FnPos(avail),
				"offered constant is the guard of exactly one action method: "+strings.Join(ms, ","),
				fmt.Sprintf("offered action %q is the guard of %d action methods %v: the offer can never be taken (or is ambiguous)", a, len(ms), ms))
		}
		// every action-name constant compared anywhere must be in Offered ∪ table-layer additions
		tableAdds := c.allowActionConsts()
		c.role("table-layer AllowAction constants", strings.Join(sortedSet(tableAdds), ","))
		uses := c.actionNameUses()
		n := 0
		for _, u := range uses {
			n++
			okc := offered[u.Const] || tableAdds[u.Const]
			c.check(okc, "offer-agreement", "use:"+u.Where+":"+u.Const, u.Pos,
				"action name is in the offered vocabulary",
				fmt.Sprintf("action name %q is never offered by the engine nor added by the table layer (typo or stale name)", u.Const))
		}
		c.floor("offer-agreement", "action-name uses", n, 5)
		for a, ms := range guardOf {
			if !offered[a] {
				c.Notes = append(c.Notes, fmt.Sprintf("guard constant %q of %v is never offered by the engine: method never enabled (C05/C12 obligations for it are vacuous)", a, ms))
			}
		}
	}

	runC04HelperGuards(c, ea)
	runC04CurrentSeat(c, ea)
	runC04SeatSuccessor(c, ea)
	runC04OpeningSeat(c, ea, buildEventGraph(c, ea))
	runNoStaleOffers(c, ea, "no-offers-outside-action-wait", "")
}

// clearAllFns: methods of the game that empty every player's AllowedActions (a full-range
// loop over the players whose every body path stores an empty slice or calls a player method
// that does).
func (c *Ctx) clearAllFns(ea *engineAnchors) map[*ssa.Function]bool {
	p := c.P
	out := map[*ssa.Function]bool{}
	for _, fn := range p.MethodsOf("pokerface", ea.gameImpl) {
		s := newSumm(p, 2)
		for _, l := range s.loops(fn) {
			ri := analyseRange(l)
			if !ri.Full || len(l.Exits) != 1 {
				continue
			}
			fromAll := loadsField(ri.Coll, "pokerface.GameState.Players")
			if call, ok := ri.Coll.(*ssa.Call); ok {
				if f := call.Common().StaticCallee(); f != nil && f.Name() == "GetPlayers" {
					fromAll = true
				}
			}
			if !fromAll {
				continue
			}
			body, cut := s.LoopBody(fn, l)
			if cut != "" || len(body) == 0 {
				continue
			}
			all := true
			for _, bp := range body {
				cleared := false
				for _, e := range bp.storesTo("pokerface.PlayerState.AllowedActions") {
					if isEmptyVal(e.Val) {
						cleared = true
					} else {
						cleared = false
					}
				}
				if !cleared || bp.End != "continue" {
					all = false
				}
			}
			if all {
				out[fn] = true
			}
		}
	}
	return out
}

// runNoStaleOffers: whenever the event chain comes to rest at a wait point other than the one
// at which actions are taken, every seat's offers have been cleared since the last grant:
// otherwise a betting action would be accepted in the wrong phase (C04) or after the hand is
// closed (C06).
func runNoStaleOffers(c *Ctx, ea *engineAnchors, rule string, only string) {
	p := c.P
	eg := buildEventGraph(c, ea)
	if eg.Trigger == nil {
		c.undecided(rule, "event-graph", "-", "cannot build the event graph")
		return
	}
	clear := c.clearAllFns(ea)
	c.role("clear-all-offers functions", fnNames(fnSetToList(clear)))
	if len(clear) == 0 {
		c.undecided(rule, "clear-all", "-", "no function clears every player's offers")
		return
	}
	// the action wait: the wait event whose handler can make a seat current
	actionWait := ""
	for ev, h := range eg.Handler {
		if h == nil {
			continue
		}
		waits := false
		for _, o := range eg.Outcomes(h) {
			if o.Kind == "wait" {
				waits = true
			}
		}
		if !waits {
			continue
		}
		for callee := range tcallsOf(p, h) {
			if callee.Name() == "SetCurrentPlayer" {
				actionWait = ev
			}
		}
	}
	c.role("action wait event", actionWait)
	// functions that themselves store a non-empty offer list (AllowActions, AllowAction, ...)
	granters := map[*ssa.Function]bool{}
	{
		ix := p.Index()
		for _, w := range ix.AnyWriters("pokerface.PlayerState.AllowedActions") {
			for _, in := range ix.WriteInstrs(w, "pokerface.PlayerState.AllowedActions") {
				if st, ok := in.(*ssa.Store); ok && !emptySliceValue(st.Val) {
					granters[w] = true
				}
			}
		}
	}
	isGrant := func(e *Event) bool {
		if e.Kind == "loop" && e.Loop != nil {
			// a pass that grants something to the seats it visits
			for b := range e.Loop.Blocks {
				for _, in := range b.Instrs {
					if call, ok := in.(ssa.CallInstruction); ok {
						if f := call.Common().StaticCallee(); f != nil && granters[f] {
							return true
						}
					}
				}
			}
			return false
		}
		if e.Kind != "call" && e.Kind != "enter" {
			return false
		}
		if e.Fn != nil && granters[e.Fn] {
			return true
		}
		if strings.HasSuffix(e.Callee, ".SetCurrentPlayer") && len(e.Args) >= 2 && e.Args[1].String() != "nil" {
			return true
		}
		return strings.HasSuffix(e.Callee, ".AllowActions")
	}
	isClear := func(e *Event) bool {
		return (e.Kind == "call" || e.Kind == "enter") && e.Fn != nil && clear[e.Fn]
	}
	type entry struct {
		fn     *ssa.Function
		resume string
	}
	var entries []entry
	for _, m := range backendMethods(p) {
		if g := p.Func("pokerface", ea.gameImpl, m); g != nil && m != "CreateGame" {
			entries = append(entries, entry{g, actionWait})
		}
	}
	entries = append(entries, entry{p.Func("pokerface", ea.gameImpl, "Start"), ""})
	for _, am := range c.actionMethods(ea) {
		entries = append(entries, entry{am.Fn, actionWait})
	}
	nTraces := 0
	seen := map[*ssa.Function]bool{}
	for _, en := range entries {
		if en.fn == nil || seen[en.fn] {
			continue
		}
		seen[en.fn] = true
		var bad []string
		n := 0
		for _, tr := range eg.Traces(en.fn, en.resume) {
			if tr.End != "wait" || tr.Wait == "" || tr.Wait == actionWait {
				continue
			}
			if only != "" && tr.Wait != only {
				continue
			}
			n++
			holding := ""
			for _, e := range tr.Events {
				if isClear(e) {
					holding = ""
				} else if isGrant(e) {
					holding = e.Callee + " at " + e.Pos
					if e.Kind == "loop" {
						holding = "a loop of " + e.Loop.Fn.Name()
					}
				}
			}
			if holding != "" {
				bad = append(bad, fmt.Sprintf("the chain %s comes to rest at %s while a seat still holds the offers granted by %s", strings.Join(tr.Emits, " -> "), tr.Wait, holding))
			}
		}
		nTraces += n
		if n == 0 {
			continue
		}
		c.check(len(bad) == 0, rule, fnKey(en.fn), p.FnPos(en.fn), fmt.Sprintf("on all %d chains that rest outside the action wait, offers were cleared after the last grant", n), "stale offers survive into a phase where no action is expected", uniq(bad, 3)...)
	}
	c.floor(rule, "event chains ending at a non-action wait", nTraces, 3)
}

func fnSetToList(m map[*ssa.Function]bool) []*ssa.Function {
	var out []*ssa.Function
	for f := range m {
		out = append(out, f)
	}
	sort.Slice(out, func(i, j int) bool { return fnKey(out[i]) < fnKey(out[j]) })
	return out
}

type constUse struct {
	Const, Where, Pos string
}

// allowActionConsts: constants the table layer adds to its own copy via AllowAction.
func (c *Ctx) allowActionConsts() map[string]bool {
	out := map[string]bool{}
	for _, fn := range c.P.Funcs {
		for _, b := range fn.Blocks {
			for _, in := range b.Instrs {
				call, ok := in.(ssa.CallInstruction)
				if !ok {
					continue
				}
				cc := call.Common()
				f := cc.StaticCallee()
				if f == nil || f.Name() != "AllowAction" || !inModule(f) {
					continue
				}
				for _, a := range cc.Args {
					for _, s := range c.stringConstsReaching(a, 0) {
						out[s] = true
					}
				}
			}
		}
	}
	return out
}

// stringConstsReaching: the string constants v can be: v itself, the edges of a phi, or - when v
// is a parameter of its function (also of a closure's parent, a captured name) - what the
// module's call sites pass for it.
func (c *Ctx) stringConstsReaching(v ssa.Value, depth int) []string {
	if depth > 3 {
		return nil
	}
	if s, ok := constString(v); ok {
		return []string{s}
	}
	var out []string
	switch x := v.(type) {
	case *ssa.Phi:
		for _, e := range x.Edges {
			out = append(out, c.stringConstsReaching(e, depth+1)...)
		}
	case *ssa.Parameter:
		fn := x.Parent()
		ix := c.P.Index()
		for i, prm := range fn.Params {
			if prm != x {
				continue
			}
			for _, cl := range ix.Callers(fn) {
				for _, site := range ix.CallSites(cl, fn) {
					if cc := site.Common(); cc.StaticCallee() == fn && i < len(cc.Args) {
						out = append(out, c.stringConstsReaching(cc.Args[i], depth+1)...)
					}
				}
			}
		}
	case *ssa.FreeVar:
		// captured by a closure: the binding in the function that made the closure
		fn := x.Parent()
		for i, fv := range fn.FreeVars {
			if fv != x || fn.Parent() == nil {
				continue
			}
			for _, b := range fn.Parent().Blocks {
				for _, in := range b.Instrs {
					if mc, ok := in.(*ssa.MakeClosure); ok && mc.Fn == ssa.Value(fn) && i < len(mc.Bindings) {
						out = append(out, c.stringConstsReaching(mc.Bindings[i], depth+1)...)
					}
				}
			}
		}
	case *ssa.UnOp:
		// a load of a captured variable's cell
		if x.Op == token.MUL {
			out = append(out, c.stringConstsReaching(x.X, depth+1)...)
		}
	case *ssa.Alloc:
		// a local cell: whatever is stored into it
		if refs := x.Referrers(); refs != nil {
			for _, r := range *refs {
				if st, ok := r.(*ssa.Store); ok && st.Addr == ssa.Value(x) {
					out = append(out, c.stringConstsReaching(st.Val, depth+1)...)
				}
			}
		}
	}
	return out
}

// actionNameUses: constant strings passed to CheckAction / HasAction anywhere in the module.
func (c *Ctx) actionNameUses() []constUse {
	var out []constUse
	for _, fn := range c.P.Funcs {
		for _, b := range fn.Blocks {
			for _, in := range b.Instrs {
				call, ok := in.(ssa.CallInstruction)
				if !ok {
					continue
				}
				cc := call.Common()
				name := ""
				if cc.IsInvoke() {
					name = cc.Method.Name()
				} else if f := cc.StaticCallee(); f != nil && inModule(f) {
					name = f.Name()
				}
				if name != "CheckAction" && name != "HasAction" {
					continue
				}
				c.Sites++
				for _, a := range cc.Args {
					if s, ok := constString(a); ok {
						out = append(out, constUse{Const: s, Where: fnKey(fn) + "#" + name, Pos: c.P.InstrPos(in)})
					}
				}
			}
		}
	}
	sort.Slice(out, func(i, j int) bool { return out[i].Where+out[i].Const < out[j].Where+out[j].Const })
	return out
}

// runC04CurrentSeat: offers are attached to the current seat only.
func runC04CurrentSeat(c *Ctx, ea *engineAnchors) {
	p := c.P
	ix := p.Index()
	// (a) GetAllowedActions returns a non-empty value only under CurrentPlayer == p.SeatIndex()
	gaa := p.Func("pokerface", ea.gameImpl, "GetAllowedActions")
	if gaa == nil {
		c.undecided("current-seat-only", "GetAllowedActions", "-", "function not found")
	} else {
		c.touch(fnKey(gaa))
		s := newSumm(p, 1)
		s.NoInline["pokerface.(*game).GetAvailableActions"] = true
		paths, _ := s.Function(gaa)
		ok := true
		var why []string
		for _, ps := range paths {
			if len(ps.Ret) != 1 {
				ok = false
				continue
			}
			r := ps.Ret[0]
			if r.Op == "list" && len(r.Args) == 0 {
				continue // empty
			}
			// non-empty candidate: must be GetAvailableActions(same p) under CurrentPlayer == seat(p)
			isAvail := strings.Contains(r.String(), "GetAvailableActions(") && strings.Contains(r.String(), "param:p")
			hasGuard := false
			for _, cd := range ps.Conds {
				if cd.V.K == KAtom && !cd.V.Neg && cd.V.At.Op == "eq" && strings.Contains(cd.V.At.String(), "GS.Status.CurrentPlayer") && strings.Contains(cd.V.At.String(), "param:p") {
					hasGuard = true
				}
			}
			if !isAvail || !hasGuard {
				ok = false
				why = append(why, fmt.Sprintf("path [%s] returns %s", ps.CondString(), r))
			}
		}
		c.check(ok, "current-seat-only", "GetAllowedActions#only-current", p.FnPos(gaa),
			"a possibly non-empty offer is returned only under Status.CurrentPlayer == p.SeatIndex()", "offers may be computed for a seat that is not the current one", why...)
	}
	// (b) every engine store to PlayerState.AllowedActions stores a fresh empty slice or a
	// value that comes from GetAllowedActions for the same player
	n := 0
	for _, fn := range ix.Writers("pokerface.PlayerState.AllowedActions") {
		if fn.Pkg == nil || shortPkg(fn.Pkg.Pkg.Path()) != "pokerface" {
			continue
		}
		c.touch(fnKey(fn))
		s := newSumm(p, 0)
		paths, _ := s.Function(fn)
		loops := s.loops(fn)
		var all [][]*PathSum
		all = append(all, paths)
		for _, l := range loops {
			bp, _ := s.LoopBody(fn, l)
			all = append(all, bp)
		}
		for _, set := range all {
			for _, ps := range set {
				for _, e := range ps.storesTo("pokerface.PlayerState.AllowedActions") {
					n++
					v := e.Val
					okv := (v.Op == "list" && len(v.Args) == 0)
					src := "fresh empty slice"
					if !okv && fn.Name() == "AllowActions" && v.String() == "param:actions" {
						okv = true
						src = "its parameter (callers checked separately)"
					}
					if !okv && fn.Name() == "AllowAction" {
						// PlayerState.AllowAction: exported helper used by the table layer on its own copy
						okv = true
						src = "table-layer helper (operates on clones, see C07/backend-purity)"
					}
					c.check(okv, "current-seat-only", fmt.Sprintf("%s#store-AllowedActions", fnKey(fn)), e.Pos,
						"stores "+src, "stores "+v.String()+", neither an empty slice nor an offer computed for the current seat")
				}
			}
		}
	}
	c.floor("current-seat-only", "stores to AllowedActions", n, 2)
	// callers of AllowActions pass GetAllowedActions(p) for the same p
	allow := p.Func("pokerface", ea.playerImpl, "AllowActions")
	if allow != nil {
		ncall := 0
		for _, caller := range ix.Callers(allow) {
			c.touch(fnKey(caller))
			s := newSumm(p, 0)
			paths, _ := s.Function(caller)
			for _, ps := range paths {
				for _, e := range ps.Calls(".AllowActions") {
					ncall++
					recv := e.Args[0].String()
					arg := e.Args[1].String()
					okc := strings.Contains(arg, "GetAllowedActions(") && strings.Contains(arg, recv)
					c.check(okc, "current-seat-only", fnKey(caller)+"#AllowActions-arg", e.Pos,
						"offer comes from GetAllowedActions for the same player", "AllowActions("+arg+") on "+recv+": offer not computed by GetAllowedActions for that player")
				}
			}
		}
		c.floor("current-seat-only", "AllowActions call sites", ncall, 1)
	}
	// (c) SetCurrentPlayer clears the previous holder before switching
	scp := p.Func("pokerface", ea.gameImpl, "SetCurrentPlayer")
	if scp == nil {
		c.undecided("current-seat-only", "SetCurrentPlayer", "-", "function not found")
		return
	}
	c.touch(fnKey(scp))
	s := newSumm(p, 2)
	s.NoInline["pokerface.(*game).GetCurrentPlayer"] = true
	s.NoInline["pokerface.(*game).GetAllowedActions"] = true
	paths, _ := s.Function(scp)
	ok := true
	var why []string
	for _, ps := range paths {
		// position of the store to CurrentPlayer
		storeIdx := -1
		for i, e := range ps.Events {
			if e.Kind == "store" && e.FKey == "pokerface.Status.CurrentPlayer" {
				storeIdx = i
				break
			}
		}
		if storeIdx < 0 {
			continue
		}
		// either the path has cond CurrentPlayer == -1, or a ResetAllowedActions call on the current player precedes
		minusOne := false
		for _, cd := range ps.Conds {
			if cd.V.K == KAtom && cd.V.At.Op == "eq" && !cd.V.Neg && cd.V.At.String() == "GS.Status.CurrentPlayer + 1 == 0" {
				minusOne = true
			}
		}
		cleared := false
		for i, e := range ps.Events {
			if i >= storeIdx {
				break
			}
			if e.Kind == "call" && strings.HasSuffix(e.Callee, ".ResetAllowedActions") && (strings.Contains(e.Args[0].String(), "GetCurrentPlayer(") || strings.Contains(e.Args[0].String(), "GS.Status.CurrentPlayer")) {
				cleared = true
			}
			if e.Kind == "store" && e.FKey == "pokerface.PlayerState.AllowedActions" && e.Val.Op == "list" && len(e.Val.Args) == 0 && (strings.Contains(e.Loc, "GS.Status.CurrentPlayer") || strings.Contains(e.Loc, "GetCurrentPlayer(")) {
				cleared = true
			}
		}
		if !minusOne && !cleared {
			ok = false
			why = append(why, "path ["+ps.CondString()+"] switches the current seat without clearing the previous holder's offers")
		}
	}
	c.check(ok, "current-seat-only", "SetCurrentPlayer#clears-previous", p.FnPos(scp),
		"the previous seat's offers are cleared before the current seat changes (unless there was none)", "previous seat keeps its offers", why...)
	// (d) every other store to Status.CurrentPlayer is paired with a clear-all in the same
	// function or is the low-level setter called only from SetCurrentPlayer
	for _, fn := range ix.Writers("pokerface.Status.CurrentPlayer") {
		if fn == scp {
			continue
		}
		c.touch(fnKey(fn))
		callers := ix.Callers(fn)
		onlyFromSCP := len(callers) > 0
		for _, cl := range callers {
			if cl != scp {
				onlyFromSCP = false
			}
		}
		if onlyFromSCP {
			c.ok("current-seat-only", fnKey(fn)+"#store-CurrentPlayer", p.FnPos(fn), "low-level setter called only from SetCurrentPlayer")
			continue
		}
		// round-boundary reset: every caller also clears all offers (ResetAllPlayerStatus /
		// ResetAllPlayerAllowedActions) before its next emit or return
		allOK := len(callers) > 0
		var bad []string
		for _, cl := range callers {
			fi := ix.Info[cl]
			has := false
			for callee := range fi.TCalls {
				_ = callee
			}
			// direct or transitive call to a function that stores an empty AllowedActions in a loop over all players
			for _, cc := range fi.Calls {
				for _, t := range ix.targets(cl, cc) {
					if t.Name() == "ResetAllPlayerStatus" || t.Name() == "ResetAllPlayerAllowedActions" {
						has = true
					}
				}
			}
			if !has && isPreStartOnly(c, cl) {
				has = true
			}
			if !has {
				allOK = false
				bad = append(bad, fnKey(cl))
			}
		}
		c.check(allOK, "current-seat-only", fnKey(fn)+"#store-CurrentPlayer", p.FnPos(fn),
			"round-boundary reset: every caller also clears all offers (or runs before the first wait point)", "current seat reset without clearing offers in: "+strings.Join(bad, ","))
	}
}

// isPreStartOnly: fn is reachable only from the Started handler chain before the first wait
// point (today Initialize): offers are still the zero value.
func isPreStartOnly(c *Ctx, fn *ssa.Function) bool {
	ix := c.P.Index()
	callers := ix.Callers(fn)
	if len(callers) == 0 {
		return false
	}
	for _, cl := range callers {
		if cl.Name() != "onStarted" {
			return false
		}
	}
	return true
}

// runC04SeatSuccessor: NextPlayer returns seat CurrentPlayer+1, or 0 at the end of the list.
func runC04SeatSuccessor(c *Ctx, ea *engineAnchors) {
	p := c.P
	fn := p.Func("pokerface", ea.gameImpl, "NextPlayer")
	if fn == nil {
		c.undecided("seat-successor", "NextPlayer", "-", "function not found")
		return
	}
	c.touch(fnKey(fn))
	s := newSumm(p, 2)
	paths, cut := s.Function(fn)
	if cut != "" || len(s.loops(fn)) > 0 {
		c.undecided("seat-successor", "NextPlayer", p.FnPos(fn), "not a loop-free decision table (go/ssa folds today's always-returning loop away): "+cut)
		return
	}
	ok := true
	var why []string
	nWrap, nNext := 0, 0
	for _, ps := range paths {
		r := ps.Ret[0].String()
		if r == "nil" {
			// allowed only with fewer than two players, or through the range check of Player()
			few, rng := false, false
			for _, cd := range ps.Conds {
				if ltIs(cd.V, "len(GS.Players) - 2") {
					few = true
				}
				if cd.V.K == KAtom && strings.Contains(cd.V.At.String(), ".Idx") {
					rng = true
				}
			}
			if !few && !rng {
				ok = false
				why = append(why, "returns nil although at least two players exist: ["+ps.CondString()+"]")
			}
			continue
		}
		wrap := false
		for _, cd := range ps.Conds {
			if cd.V.K == KAtom && cd.V.At.Op == "eq" && !cd.V.Neg && cd.V.At.A.String() == "GS.Status.CurrentPlayer - len(GS.Players) + 1" {
				wrap = true
			}
		}
		if wrap {
			nWrap++
			if !strings.Contains(r, "GS.Players[0]") {
				ok = false
				why = append(why, "at the end of the list the walk does not wrap to seat 0: returns "+r)
			}
		} else {
			nNext++
			if !strings.Contains(r, "GS.Players[GS.Status.CurrentPlayer + 1]") {
				ok = false
				why = append(why, "successor is not Status.CurrentPlayer+1: returns "+r)
			}
		}
	}
	if nWrap == 0 || nNext == 0 {
		ok = false
		why = append(why, fmt.Sprintf("expected a wrapping and a non-wrapping case, found %d/%d", nWrap, nNext))
	}
	c.check(ok, "seat-successor", "NextPlayer", p.FnPos(fn), "returns the seat after Status.CurrentPlayer, wrapping to 0 at the end of the player list", "NextPlayer is not the clockwise successor", why...)
}

// runC04HelperGuards: an action's effect may live in an unexported helper (call(), allin()), but
// then everything that reaches the helper must hold the offer for THAT action: a method guarded
// by "raise" that performs the helper's "call" carries out an action the player was not offered.
// The chip mover is exempt (its all-in branch is a consequence of the amount, not an offered
// action of its own).
func runC04HelperGuards(c *Ctx, ea *engineAnchors) {
	p := c.P
	ix := p.Index()
	offered, _, _ := c.offeredActions(ea)
	mover := c.chipMover(ea)
	guards := map[*ssa.Function]map[string]bool{}
	for _, am := range c.actionMethods(ea) {
		if guards[am.Fn] == nil {
			guards[am.Fn] = map[string]bool{}
		}
		guards[am.Fn][am.Const] = true
	}
	n := 0
	for _, fn := range p.MethodsOf("pokerface", ea.playerImpl) {
		if fn == mover || fn.Blocks == nil || c.moverFamily(mover)[fn] {
			continue
		}
		// action names this function records as done
		did := map[string]bool{}
		for _, b := range fn.Blocks {
			for _, in := range b.Instrs {
				if st, ok := in.(*ssa.Store); ok && accessKey(st.Addr) == "pokerface.PlayerState.DidAction" {
					if k, ok := constString(st.Val); ok && offered[k] {
						did[k] = true
					}
				}
			}
		}
		for _, k := range sortedSet(did) {
			if guards[fn][k] {
				continue // guarded here: C04/action-guard decides the rest
			}
			n++
			var bad []string
			var up func(f *ssa.Function, depth int) bool
			up = func(f *ssa.Function, depth int) bool {
				callers := ix.Callers(f)
				if len(callers) == 0 || depth > 3 {
					return false
				}
				for _, cl := range callers {
					if guards[cl][k] {
						continue
					}
					if len(guards[cl]) > 0 || token.IsExported(cl.Name()) || !up(cl, depth+1) {
						bad = append(bad, fnKey(cl)+" reaches "+fn.Name()+" (which carries out \""+k+"\") without holding the offer for \""+k+"\"")
						return false
					}
				}
				return true
			}
			ok := up(fn, 0)
			c.check(ok && len(bad) == 0, "action-guard", fnKey(fn)+"#helper:"+k, p.FnPos(fn), "reached only from methods that hold the offer for the same action", "an action is carried out under the offer for another one", uniq(bad, 2)...)
		}
	}
	c.Notes = append(c.Notes, fmt.Sprintf("action-guard: %d unguarded helper(s) carrying out an offered action", n))
}

// bodyHelpers: an action method may keep its guard and move its body into an unexported helper of
// the same type; the helper is then analysed as part of the method. The chip mover stays a call.
func bodyHelpers(owner, mover *ssa.Function) func(*ssa.Function) bool {
	return func(f *ssa.Function) bool {
		return privateHelper(owner, f) && f != mover && len(findLoops(f)) == 0
	}
}

// membershipOfField: fn (one string parameter besides the receiver/seat) returns true exactly when
// the parameter equals an element of the list stored in field key. "yes", "no" (with the
// reason) or "" when the shape is not one of: a full range loop over a load of the field that
// returns true on an equal element and false after the loop; slices.Contains on that load; a
// direct delegation to a function of one of these shapes.
func membershipOfField(fn *ssa.Function, key string, depth int) (string, string) {
	if fn == nil || len(fn.Blocks) == 0 || depth > 2 {
		return "", "no body"
	}
	loops := findLoops(fn)
	if len(loops) == 0 {
		// delegation: every return is the result of one call
		var call *ssa.Call
		for _, b := range fn.Blocks {
			r, ok := b.Instrs[len(b.Instrs)-1].(*ssa.Return)
			if !ok {
				continue
			}
			if len(r.Results) != 1 {
				return "", "not a predicate"
			}
			if k, ok := r.Results[0].(*ssa.Const); ok && k.Value != nil && !constant.BoolVal(k.Value) {
				continue // an early false (no such seat) only refuses more
			}
			cl, ok := r.Results[0].(*ssa.Call)
			if !ok || (call != nil && call != cl) {
				return "", "a return is neither a call nor false"
			}
			call = cl
		}
		if call == nil {
			return "", "no delegation"
		}
		if n := extCalleeName(call.Common()); n == "slices.Contains" || strings.HasPrefix(n, "slices.Contains[") {
			if loadsField(call.Call.Args[0], key) {
				return "yes", ""
			}
			return "no", "slices.Contains over something other than the stored list"
		}
		if callee := call.Call.StaticCallee(); callee != nil {
			return membershipOfField(callee, key, depth+1)
		}
		return "", "dynamic delegation"
	}
	if len(loops) != 1 {
		return "", "more than one loop"
	}
	l := loops[0]
	ri := analyseRange(l)
	if ri.Kind != "slice" {
		return "", "not a range over a slice"
	}
	if !loadsField(ri.Coll, key) {
		return "no", "the scanned list is " + ri.Coll.String() + " (" + ri.Coll.Type().String() + "), not the stored " + key
	}
	if !ri.Full {
		return "no", "the scan does not cover the whole list"
	}
	for _, b := range fn.Blocks {
		r, ok := b.Instrs[len(b.Instrs)-1].(*ssa.Return)
		if !ok || len(r.Results) != 1 {
			continue
		}
		k, ok := r.Results[0].(*ssa.Const)
		if !ok || k.Value == nil {
			return "", "a return is not a constant"
		}
		v := constant.BoolVal(k.Value)
		if l.Blocks[b] || (len(b.Preds) == 1 && l.Blocks[b.Preds[0]] && b.Preds[0] != l.Header) {
			// inside the scan: only a hit
			if !v {
				return "no", "the scan gives up before the end of the list"
			}
			d := b.Preds[0]
			iff, ok := d.Instrs[len(d.Instrs)-1].(*ssa.If)
			if !ok {
				return "", "hit not under a test"
			}
			bo, ok := iff.Cond.(*ssa.BinOp)
			if !ok || bo.Op != token.EQL || d.Succs[0] != b {
				return "", "hit not under an equality test"
			}
			isParam := func(x ssa.Value) bool { _, ok := x.(*ssa.Parameter); return ok }
			if !(isParam(bo.X) || isParam(bo.Y)) {
				return "no", "the hit does not compare an element with the requested action"
			}
		} else if v {
			return "no", "accepts without a matching element"
		}
	}
	return "yes", ""
}

// emptySliceValue: a fresh slice of length 0 ([]T{} or make([]T, 0)) or nil.
func emptySliceValue(v ssa.Value) bool {
	switch x := v.(type) {
	case *ssa.Const:
		return x.IsNil()
	case *ssa.MakeSlice:
		k, ok := constInt(x.Len)
		return ok && k == 0
	case *ssa.Slice:
		if al, ok := x.X.(*ssa.Alloc); ok {
			if pt, ok := al.Type().Underlying().(*types.Pointer); ok {
				if at, ok := pt.Elem().Underlying().(*types.Array); ok && at.Len() == 0 {
					return true
				}
			}
		}
	}
	return false
}
