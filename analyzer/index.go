package main

import (
	"go/types"
	"sort"
	"strings"

	"golang.org/x/tools/go/ssa"
)

// E1 — Index: per-function direct read/write sets keyed by (named struct type, field),
// state effects, and transitive summaries over the resolved call graph.

type Access struct {
	Key   string // "pkg.Type.Field", "global:pkg.name", "elem:<type>", "map:<type>"
	Instr ssa.Instruction
	Root  string // "recv", "param:<name>", "local", "global", "loaded", "call", "free"
	Fresh bool   // root object was allocated in this function (not a state effect)
}

type FnInfo struct {
	Fn      *ssa.Function
	Writes  []Access
	Reads   []Access
	Calls   []*ssa.CallCommon
	CallIns []ssa.CallInstruction
	Ext     []string // external callees (full names)
	// transitive (module-local) summaries
	TWrites map[string]bool // field keys written as state effects, transitively
	TReads  map[string]bool
	TExt    map[string]bool
	TCalls  map[*ssa.Function]bool
}

type Index struct {
	P    *Prog
	Info map[*ssa.Function]*FnInfo
}

func (p *Prog) Index() *Index {
	if p.idx != nil {
		return p.idx
	}
	ix := &Index{P: p, Info: map[*ssa.Function]*FnInfo{}}
	for _, fn := range p.Funcs {
		ix.Info[fn] = ix.scan(fn)
	}
	// a helper that stores through a pointer parameter writes, on behalf of its caller, the field
	// whose address the caller passes (locate(seats, &sm.bb)): book that write at the call site
	paramStore := map[*ssa.Function]map[int]bool{}
	for _, fn := range p.Funcs {
		for _, b := range fn.Blocks {
			for _, in := range b.Instrs {
				if st, ok := in.(*ssa.Store); ok {
					if prm, ok := st.Addr.(*ssa.Parameter); ok {
						for i, q := range fn.Params {
							if q == prm {
								if paramStore[fn] == nil {
									paramStore[fn] = map[int]bool{}
								}
								paramStore[fn][i] = true
							}
						}
					}
				}
			}
		}
	}
	if len(paramStore) > 0 {
		for _, fi := range ix.Info {
			for _, ci := range fi.CallIns {
				f := ci.Common().StaticCallee()
				if f == nil || paramStore[f] == nil {
					continue
				}
				for i, a := range ci.Common().Args {
					if !paramStore[f][i] {
						continue
					}
					if fa, ok := a.(*ssa.FieldAddr); ok {
						cls, fresh := rootOf(fa)
						fi.Writes = append(fi.Writes, Access{Key: fieldKeyOf(fa.X, fa.Field), Instr: ci, Root: cls, Fresh: fresh})
					}
				}
			}
		}
	}
	// transitive closure (simple fixpoint; the module is small)
	for _, fi := range ix.Info {
		fi.TWrites = map[string]bool{}
		fi.TReads = map[string]bool{}
		fi.TExt = map[string]bool{}
		fi.TCalls = map[*ssa.Function]bool{}
		for _, w := range fi.Writes {
			if !w.Fresh {
				fi.TWrites[w.Key] = true
			}
		}
		for _, r := range fi.Reads {
			fi.TReads[r.Key] = true
		}
		for _, e := range fi.Ext {
			fi.TExt[e] = true
		}
	}
	changed := true
	for changed {
		changed = false
		for _, fi := range ix.Info {
			for _, c := range fi.Calls {
				for _, callee := range ix.targets(fi.Fn, c) {
					ci := ix.Info[callee]
					if ci == nil {
						continue
					}
					if !fi.TCalls[callee] {
						fi.TCalls[callee] = true
						changed = true
					}
					for k := range ci.TCalls {
						if !fi.TCalls[k] {
							fi.TCalls[k] = true
							changed = true
						}
					}
					for k := range ci.TWrites {
						if !fi.TWrites[k] {
							fi.TWrites[k] = true
							changed = true
						}
					}
					for k := range ci.TReads {
						if !fi.TReads[k] {
							fi.TReads[k] = true
							changed = true
						}
					}
					for k := range ci.TExt {
						if !fi.TExt[k] {
							fi.TExt[k] = true
							changed = true
						}
					}
				}
			}
		}
	}
	p.idx = ix
	return ix
}

// targets resolves module-local callees of a call: static callee, CHA for interface
// invokes, and closures created in the caller when the callee is a local function value.
func (ix *Index) targets(caller *ssa.Function, c *ssa.CallCommon) []*ssa.Function {
	if !c.IsInvoke() {
		if mc, ok := c.Value.(*ssa.MakeClosure); ok {
			if f, ok := mc.Fn.(*ssa.Function); ok {
				return []*ssa.Function{f}
			}
		}
	}
	var out []*ssa.Function
	if !c.IsInvoke() {
		// a function value looked up by a module function (a handler table): whatever method values
		// that function can return
		if call, ok := c.Value.(*ssa.Call); ok {
			if g := call.Call.StaticCallee(); g != nil && inModule(g) && g.Blocks != nil {
				seen := map[ssa.Value]bool{}
				var walk func(v ssa.Value)
				walk = func(v ssa.Value) {
					if seen[v] {
						return
					}
					seen[v] = true
					if ph, ok := v.(*ssa.Phi); ok {
						for _, e := range ph.Edges {
							walk(e)
						}
						return
					}
					if f := methodOfValue(v); f != nil && inModule(f) {
						out = append(out, f)
					}
				}
				for _, b := range g.Blocks {
					if r, ok := b.Instrs[len(b.Instrs)-1].(*ssa.Return); ok && len(r.Results) >= 1 {
						walk(r.Results[0])
					}
				}
			}
		}
	}
	if !c.IsInvoke() && c.StaticCallee() == nil {
		// a function value looked up in a package-level map (a handler table)
		if _, table := handlerMapOf(ix.P, c.Value); len(table) > 0 {
			keys := make([]string, 0, len(table))
			for k := range table {
				keys = append(keys, k)
			}
			sort.Strings(keys)
			for _, k := range keys {
				if inModule(table[k]) {
					out = append(out, table[k])
				}
			}
		}
	}
	ts := ix.P.Callees(c)
	for _, t := range ts {
		if inModule(t) {
			out = append(out, t)
		}
	}
	// function literals passed as arguments (sort.Slice less, rand.Shuffle swap, callbacks)
	// are treated as called by the callee: attribute them to the caller.
	for _, a := range c.Args {
		if mc, ok := a.(*ssa.MakeClosure); ok {
			if f, ok := mc.Fn.(*ssa.Function); ok {
				out = append(out, f)
			}
		}
		if f, ok := a.(*ssa.Function); ok && inModule(f) {
			out = append(out, f)
		}
	}
	return out
}

// rootOf walks an address/value chain back to its root object and reports the root class
// and whether the object is fresh (allocated in this function).
func rootOf(v ssa.Value) (class string, fresh bool) {
	return rootOfV(v, map[ssa.Value]bool{})
}

func rootOfV(v ssa.Value, visiting map[ssa.Value]bool) (class string, fresh bool) {
	seen := 0
	for seen < 64 {
		seen++
		switch x := v.(type) {
		case *ssa.FieldAddr:
			v = x.X
		case *ssa.Field:
			v = x.X
		case *ssa.IndexAddr:
			v = x.X
		case *ssa.Index:
			v = x.X
		case *ssa.Slice:
			v = x.X
		case *ssa.ChangeType:
			v = x.X
		case *ssa.Convert:
			v = x.X
		case *ssa.MakeInterface:
			v = x.X
		case *ssa.UnOp:
			// load of a pointer stored somewhere: the pointee is not fresh unless the
			// container is a fresh local that only ever held fresh pointers — be conservative.
			if _, isAlloc := x.X.(*ssa.Alloc); isAlloc {
				// a local variable holding a pointer: look at what was stored into it
				a := x.X.(*ssa.Alloc)
				if visiting[a] {
					return "local", true // cycle through the same local: decided by its other stores
				}
				visiting[a] = true
				allFresh := true
				n := 0
				for _, r := range *a.Referrers() {
					if st, ok := r.(*ssa.Store); ok && st.Addr == ssa.Value(a) {
						n++
						if visiting[st.Val] {
							continue
						}
						if _, f := rootOfV(st.Val, visiting); !f {
							allFresh = false
						}
					}
				}
				if n > 0 && allFresh {
					return "local", true
				}
				return "loaded", false
			}
			return "loaded", false
		case *ssa.Alloc:
			return "local", true
		case *ssa.MakeSlice, *ssa.MakeMap, *ssa.MakeChan:
			return "local", true
		case *ssa.Parameter:
			if x.Parent().Signature.Recv() != nil && len(x.Parent().Params) > 0 && x.Parent().Params[0] == x {
				return "recv", false
			}
			return "param:" + x.Name(), false
		case *ssa.FreeVar:
			return "free:" + x.Name(), false
		case *ssa.Global:
			return "global", false
		case *ssa.Phi:
			if visiting[x] {
				return "local", true // cycle: decided by the other edges
			}
			visiting[x] = true
			allFresh := len(x.Edges) > 0
			for _, e := range x.Edges {
				if e == ssa.Value(x) {
					continue
				}
				if _, f := rootOfV(e, visiting); !f {
					allFresh = false
				}
			}
			delete(visiting, x)
			if allFresh {
				return "local", true
			}
			return "loaded", false
		case *ssa.Call:
			if b, ok := x.Call.Value.(*ssa.Builtin); ok && b.Name() == "append" {
				// append result: fresh iff first arg fresh (conservative)
				v = x.Call.Args[0]
				continue
			}
			return "call", false
		case *ssa.Const:
			return "local", true
		case *ssa.Extract, *ssa.Lookup, *ssa.TypeAssert, *ssa.Next:
			return "loaded", false
		default:
			return "loaded", false
		}
	}
	return "loaded", false
}

func accessKey(addr ssa.Value) string {
	switch x := addr.(type) {
	case *ssa.FieldAddr:
		return fieldKeyOf(x.X, x.Field)
	case *ssa.IndexAddr:
		return "elem:" + typeShort(x.X.Type())
	case *ssa.Global:
		pk := ""
		if x.Pkg != nil {
			pk = shortPkg(x.Pkg.Pkg.Path()) + "."
		}
		return "global:" + pk + x.Name()
	case *ssa.Alloc:
		return "local:" + x.Comment
	case *ssa.FreeVar:
		return "free:" + x.Name()
	}
	return "deref:" + typeShort(addr.Type())
}

func (ix *Index) scan(fn *ssa.Function) *FnInfo {
	fi := &FnInfo{Fn: fn}
	for _, b := range fn.Blocks {
		for _, in := range b.Instrs {
			switch x := in.(type) {
			case *ssa.Store:
				cls, fresh := rootOf(x.Addr)
				if _, isAlloc := x.Addr.(*ssa.Alloc); isAlloc {
					continue // plain local variable
				}
				fi.Writes = append(fi.Writes, Access{Key: accessKey(x.Addr), Instr: in, Root: cls, Fresh: fresh})
			case *ssa.MapUpdate:
				cls, fresh := rootOf(x.Map)
				fi.Writes = append(fi.Writes, Access{Key: "map:" + typeShort(x.Map.Type()), Instr: in, Root: cls, Fresh: fresh})
			case *ssa.UnOp:
				if x.Op.String() == "*" {
					if _, isAlloc := x.X.(*ssa.Alloc); isAlloc {
						continue
					}
					cls, fresh := rootOf(x.X)
					fi.Reads = append(fi.Reads, Access{Key: accessKey(x.X), Instr: in, Root: cls, Fresh: fresh})
				}
			case *ssa.Field:
				cls, fresh := rootOf(x.X)
				fi.Reads = append(fi.Reads, Access{Key: fieldKeyOf(x.X, x.Field), Instr: in, Root: cls, Fresh: fresh})
			case *ssa.Lookup:
				cls, fresh := rootOf(x.X)
				fi.Reads = append(fi.Reads, Access{Key: "map:" + typeShort(x.X.Type()), Instr: in, Root: cls, Fresh: fresh})
			case ssa.CallInstruction:
				c := x.Common()
				fi.Calls = append(fi.Calls, c)
				fi.CallIns = append(fi.CallIns, x)
				if b, ok := c.Value.(*ssa.Builtin); ok {
					if b.Name() == "delete" {
						cls, fresh := rootOf(c.Args[0])
						fi.Writes = append(fi.Writes, Access{Key: "map:" + typeShort(c.Args[0].Type()), Instr: in, Root: cls, Fresh: fresh})
					}
					continue
				}
				if f := c.StaticCallee(); f != nil && !inModule(f) {
					fi.Ext = append(fi.Ext, extCalleeName(c))
				}
				if !c.IsInvoke() && c.StaticCallee() == nil {
					if _, ok := c.Value.(*ssa.MakeClosure); !ok {
						fi.Ext = append(fi.Ext, "dynamic:"+typeShort(c.Value.Type()))
					}
				}
			}
		}
	}
	return fi
}

// Writers returns all module functions that directly store to the field key as a state
// effect (root object not fresh), sorted.
func (ix *Index) Writers(key string) []*ssa.Function {
	var out []*ssa.Function
	for fn, fi := range ix.Info {
		for _, w := range fi.Writes {
			if w.Key == key && !w.Fresh {
				out = append(out, fn)
				break
			}
		}
	}
	sort.Slice(out, func(i, j int) bool { return fnKey(out[i]) < fnKey(out[j]) })
	return out
}

// AnyWriters includes writes into fresh objects (composite literals).
func (ix *Index) AnyWriters(key string) []*ssa.Function {
	var out []*ssa.Function
	for fn, fi := range ix.Info {
		for _, w := range fi.Writes {
			if w.Key == key {
				out = append(out, fn)
				break
			}
		}
	}
	sort.Slice(out, func(i, j int) bool { return fnKey(out[i]) < fnKey(out[j]) })
	return out
}

func (ix *Index) Readers(key string) []*ssa.Function {
	var out []*ssa.Function
	for fn, fi := range ix.Info {
		for _, r := range fi.Reads {
			if r.Key == key {
				out = append(out, fn)
				break
			}
		}
	}
	sort.Slice(out, func(i, j int) bool { return fnKey(out[i]) < fnKey(out[j]) })
	return out
}

func (ix *Index) WriteInstrs(fn *ssa.Function, key string) []ssa.Instruction {
	var out []ssa.Instruction
	if fi := ix.Info[fn]; fi != nil {
		for _, w := range fi.Writes {
			if w.Key == key {
				out = append(out, w.Instr)
			}
		}
	}
	return out
}

// Callers returns module functions with a call that may target fn.
func (ix *Index) Callers(fn *ssa.Function) []*ssa.Function {
	var out []*ssa.Function
	for caller, fi := range ix.Info {
		found := false
		for _, c := range fi.Calls {
			for _, t := range ix.targets(caller, c) {
				if t == fn {
					found = true
				}
			}
		}
		if found {
			out = append(out, caller)
		}
	}
	sort.Slice(out, func(i, j int) bool { return fnKey(out[i]) < fnKey(out[j]) })
	return out
}

// CallSites returns call instructions in caller that may target fn.
func (ix *Index) CallSites(caller, fn *ssa.Function) []ssa.CallInstruction {
	var out []ssa.CallInstruction
	fi := ix.Info[caller]
	if fi == nil {
		return nil
	}
	for _, ci := range fi.CallIns {
		for _, t := range ix.targets(caller, ci.Common()) {
			if t == fn {
				out = append(out, ci)
				break
			}
		}
	}
	return out
}

// Reachable returns the set of module functions reachable from the roots through resolved
// calls (roots included).
func (ix *Index) Reachable(roots ...*ssa.Function) map[*ssa.Function]bool {
	out := map[*ssa.Function]bool{}
	for _, r := range roots {
		if r == nil {
			continue
		}
		out[r] = true
		if fi := ix.Info[r]; fi != nil {
			for k := range fi.TCalls {
				out[k] = true
			}
		}
	}
	return out
}

// hasStateEffect: does the instruction change state visible outside the function?
// Stores through non-fresh roots, map updates, and calls whose transitive write set is
// non-empty or that are unknown external calls with pointer arguments.
func (ix *Index) instrEffect(fn *ssa.Function, in ssa.Instruction) (bool, string) {
	switch x := in.(type) {
	case *ssa.Store:
		if _, isAlloc := x.Addr.(*ssa.Alloc); isAlloc {
			return false, ""
		}
		if _, fresh := rootOf(x.Addr); fresh {
			return false, ""
		}
		return true, "store " + accessKey(x.Addr)
	case *ssa.MapUpdate:
		if _, fresh := rootOf(x.Map); fresh {
			return false, ""
		}
		return true, "map update " + typeShort(x.Map.Type())
	case *ssa.Send:
		return true, "channel send"
	case *ssa.Go:
		return true, "go statement"
	case ssa.CallInstruction:
		c := x.Common()
		if b, ok := c.Value.(*ssa.Builtin); ok {
			if b.Name() == "delete" {
				if _, fresh := rootOf(c.Args[0]); !fresh {
					return true, "delete from map"
				}
			}
			return false, ""
		}
		ts := ix.targets(fn, c)
		if len(ts) > 0 {
			for _, t := range ts {
				if ti := ix.Info[t]; ti != nil {
					if len(ti.TWrites) > 0 {
						return true, "call " + fnKey(t) + " writes " + strings.Join(firstN(sortedSet(ti.TWrites), 4), ",")
					}
					for e := range ti.TExt {
						if !pureExternal(e) {
							return true, "call " + fnKey(t) + " reaches " + e
						}
					}
				}
			}
			return false, ""
		}
		name := extCalleeName(c)
		if pureExternal(name) {
			return false, ""
		}
		return true, "call " + name
	}
	return false, ""
}

func sortedSet(m map[string]bool) []string {
	var out []string
	for k := range m {
		out = append(out, k)
	}
	sort.Strings(out)
	return out
}

func firstN(s []string, n int) []string {
	if len(s) > n {
		return s[:n]
	}
	return s
}

// pureExternal lists external functions without effect on analysed state.
func pureExternal(name string) bool {
	switch {
	case strings.HasPrefix(name, "fmt.Print"), strings.HasPrefix(name, "fmt.Sprint"), name == "fmt.Errorf":
		return true
	case strings.HasPrefix(name, "errors."), strings.HasPrefix(name, "math."), strings.HasPrefix(name, "strings."), strings.HasPrefix(name, "strconv."):
		return true
	case name == "encoding/json.Marshal", name == "encoding/json.MarshalIndent":
		return true
	case name == "sort.Slice", name == "sort.Ints", name == "sort.Strings":
		return true // reorders its argument; rules that care look at the call explicitly
	case strings.HasPrefix(name, "time."), strings.HasPrefix(name, "math/rand."):
		return true // clock/random sources: tracked by C07/determinism-sources, not a state write
	case strings.HasPrefix(name, "sync."):
		return true // lock effects: E9's business
	case strings.HasPrefix(name, "github.com/google/uuid."):
		return true
	}
	// read-only helpers of the slices package (instantiations carry their type arguments in the name)
	for _, ro := range []string{"slices.Contains", "slices.ContainsFunc", "slices.Index", "slices.IndexFunc", "slices.Equal", "slices.Clone", "slices.Max", "slices.Min", "slices.BinarySearch", "slices.Compare"} {
		if name == ro || strings.HasPrefix(name, ro+"[") {
			return true
		}
	}
	return false
}

// implementsIface reports whether named type (pkg short, name) implements iface.
func namedType(p *Prog, pkg, name string) types.Type {
	for _, pk := range p.Pkgs {
		if shortPkg(pk.PkgPath) != pkg {
			continue
		}
		if o := pk.Types.Scope().Lookup(name); o != nil {
			return o.Type()
		}
	}
	return nil
}

// tcallsOf: the transitive callees of fn, empty for a function without index entry (a synthetic
// wrapper).
func tcallsOf(p *Prog, fn *ssa.Function) map[*ssa.Function]bool {
	if fi := p.Index().Info[fn]; fi != nil {
		return fi.TCalls
	}
	return nil
}
