package main

import "strings"

// Rules that are necessary conditions of more than one property are decided by the property that
// owns them and reported again under every property they are necessary for (see Ctx.borrow). The
// wrapper keeps the run functions free of mutual recursion.
type share struct {
	from string
	run  func(*Ctx)
	keep func(sub *Ctx, o *Obligation) bool
}

func withShared(run func(*Ctx), shares ...share) func(*Ctx) {
	return func(c *Ctx) {
		run(c)
		for _, sh := range shares {
			c.borrow(sh.from, sh.run, sh.keep)
		}
	}
}

// roleConstruct keeps the obligations of a rule whose construct is the symbol resolved for a role.
func roleConstruct(rule, role string) func(*Ctx, *Obligation) bool {
	return func(sub *Ctx, o *Obligation) bool {
		sym := sub.Resolved[role]
		return sym != "" && o.Rule == rule && (strings.HasSuffix(o.Key, "/"+sym) || strings.Contains(o.Key, "/"+sym+"#"))
	}
}

// chipMoverInvariant keeps C01's account-identity obligation for the routine that moves chips (the
// one PayAnte and PayBlinds post through): "capped at what the player has" is that routine's
// all-in branch.
func chipMoverInvariant(sub *Ctx, o *Obligation) bool {
	if o.Rule != "inv-player" {
		return false
	}
	m := sub.chipMover(sub.engine())
	return m != nil && strings.HasSuffix(o.Key, "/"+fnKey(m))
}
