package main

import "strings"

// Rules that are necessary conditions of more than one property are decided by the property that
// owns them and reported again under every property they are necessary for (see Ctx.borrow). The
// wrapper keeps the run functions free of mutual recursion.
type share struct {
	from string
	run  func(*Ctx)
	keep func(sub *Ctx, o *Obligation) bool
}

func withShared(run func(*Ctx), shares ...share) func(*Ctx) {
	return func(c *Ctx) {
		run(c)
		for _, sh := range shares {
			c.borrow(sh.from, sh.run, sh.keep)
		}
	}
}

// roleConstruct keeps the obligations of a rule whose construct is the symbol resolved for a role.
func roleConstruct(rule, role string) func(*Ctx, *Obligation) bool {
	return func(sub *Ctx, o *Obligation) bool {
		sym := sub.Resolved[role]
		return sym != "" && o.Rule == rule && (strings.HasSuffix(o.Key, "/"+sym) || strings.Contains(o.Key, "/"+sym+"#"))
	}
}

// chipMoverInvariant keeps C01's account-identity obligation for the routine that moves chips (the
// one PayAnte and PayBlinds post through): "capped at what the player has" is that routine's
// all-in branch.
func chipMoverInvariant(sub *Ctx, o *Obligation) bool {
	if o.Rule != "inv-player" {
		return false
	}
	m := sub.chipMover(sub.engine())
	if m == nil {
		return false
	}
	for f := range sub.moverFamily(m) {
		if strings.HasSuffix(o.Key, "/"+fnKey(f)) {
			return true
		}
	}
	return false
}

// minRaiseSurvivesReload keeps C07's obligations about the serialised form of the state as far as
// they concern the fields the raise rule reads: the table backend rebuilds the engine from JSON
// before every operation, so a minimum that does not survive the hop is no minimum.
func minRaiseSurvivesReload(sub *Ctx, o *Obligation) bool {
	if o.Rule == "serialized-closure" {
		return true
	}
	if o.Rule != "derived-recomputed" {
		return false
	}
	for _, f := range []string{"PreviousRaiseSize", "CurrentWager", "MiniBet", "CurrentRaiser"} {
		if strings.Contains(o.Key, "Status."+f) {
			return true
		}
	}
	return false
}

// cardsSurviveReload: the same for the card accounts of C14 (deck, cursor, hole cards, board, burn
// pile): a pile that is dropped by the JSON hop leaves consumed cards that belong to nobody.
func cardsSurviveReload(sub *Ctx, o *Obligation) bool {
	if o.Rule == "serialized-closure" {
		return true
	}
	if o.Rule != "derived-recomputed" {
		return false
	}
	for _, f := range []string{"Status.Burned", "Status.Board", "Status.CurrentDeckPosition", "Meta.Deck", "PlayerState.HoleCards"} {
		if strings.Contains(o.Key, f) {
			return true
		}
	}
	return false
}
