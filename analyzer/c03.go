package main

import (
	"fmt"
	"go/token"
	"go/types"
	"strings"

	"golang.org/x/tools/go/ssa"
)

func init() {
	register(&propDef{
		ID: "C03", Level: "other", Run: withShared(runC03, share{"C07", runC07, ruleIs("no-hidden-state")}),
		Explanation: "Decides that the constant tables the hand score is built from are well-formed (necessary for any total order to come out right): every ranking table shipped in package combination is a permutation of all declared categories; the standard and short-deck tables are the poker order of the property; each category's score span (CombinationLevel) exceeds the largest in-category score the scoring code can produce, computed from the radix and calibration constants found in CalculatePowerScore and the rank table; the symbol table is total, injective and not cross-wired; the multiples ladder in CalculatePower tests the stronger pattern first. Every pattern detector scans its whole input, and the slice sorted by descending rank is, unchanged, what detectors, grouping and result see. Does NOT decide category detection or kicker weighting on the 2.6M hands (values).",
		Trusted:     commonTrusted,
		Assumptions: []string{"category constants and the two exported ranking tables are API and resolved by name", "five-card hands: at most 5 distinct ranks"},
		NotCovered:  "correctness of the order on all five-card hands and of category detection (wheel, flush); equality exactly on ties",
	})
}

var pokerOrder = []string{"HighCard", "Pair", "TwoPair", "ThreeOfAKind", "Straight", "Flush", "FullHouse", "FourOfAKind", "StraightFlush"}

func runC03(c *Ctx) {
	p := c.P
	cats := p.ConstsOfType("combination", "Combination")
	c.floor("ranking-permutation", "Combination constants", len(cats), 9)
	catName := map[int64]string{}
	for _, k := range cats {
		v, _ := cint(k.Val)
		catName[v] = strings.TrimPrefix(k.Name, "Combination")
	}

	// discover ranking tables: package-level vars of package combination whose type is a
	// slice of Combination (or the named PowerRankings)
	tp, _, _ := p.pkgShort("combination")
	var tables []string
	if tp != nil {
		for _, n := range tp.Scope().Names() {
			v, ok := tp.Scope().Lookup(n).(*types.Var)
			if !ok {
				continue
			}
			if sl, ok := v.Type().Underlying().(*types.Slice); ok {
				if nt, ok := sl.Elem().(*types.Named); ok && nt.Obj().Name() == "Combination" {
					tables = append(tables, n)
				}
			}
		}
	}
	c.floor("ranking-permutation", "ranking tables", len(tables), 2)
	order := map[string][]string{}
	for _, tn := range tables {
		ct := p.ConstTable("combination", tn)
		pos := p.Pos(ct.Pos)
		if !ct.OK {
			c.undecided("ranking-permutation", "combination."+tn, pos, "table is not a constant composite literal: "+ct.Why)
			continue
		}
		seen := map[int64]int{}
		var names []string
		for _, e := range ct.Entries {
			v, _ := cint(e.Val)
			seen[v]++
			names = append(names, catName[v])
		}
		order[tn] = names
		var problems []string
		for _, k := range cats {
			v, _ := cint(k.Val)
			if seen[v] == 0 {
				problems = append(problems, k.Name+" missing (would score offset 0)")
			} else if seen[v] > 1 {
				problems = append(problems, k.Name+" listed "+fmt.Sprint(seen[v])+" times (shifts every later category)")
			}
		}
		if len(ct.Entries) != len(cats) {
			problems = append(problems, fmt.Sprintf("%d entries for %d categories", len(ct.Entries), len(cats)))
		}
		c.check(len(problems) == 0, "ranking-permutation", "combination."+tn, pos,
			"permutation of all "+fmt.Sprint(len(cats))+" categories: "+strings.Join(names, " < "),
			"not a permutation of the declared categories: "+strings.Join(problems, "; "))
	}

	// category order
	want := map[string][]string{
		"CombinationPowerStandard":  pokerOrder,
		"CombinationPowerShortDeck": swap(pokerOrder, "Flush", "FullHouse"),
	}
	for _, tn := range []string{"CombinationPowerStandard", "CombinationPowerShortDeck"} {
		got, ok := order[tn]
		ct := p.ConstTable("combination", tn)
		if !ok {
			c.undecided("category-order", "combination."+tn, "-", "exported ranking table not found or not constant")
			continue
		}
		c.check(strings.Join(got, ",") == strings.Join(want[tn], ","), "category-order", "combination."+tn, p.Pos(ct.Pos),
			"equals the order stated in the property",
			"order is "+strings.Join(got, " < ")+", the property states "+strings.Join(want[tn], " < "))
	}
	// the option constructors select these tables
	for _, pr := range [][2]string{{"NewStardardGameOptions", "CombinationPowerStandard"}, {"NewShortDeckGameOptions", "CombinationPowerShortDeck"}} {
		fn := p.Func("pokerface", "", pr[0])
		if fn == nil {
			c.undecided("category-order", "options:"+pr[0], "-", "constructor not found")
			continue
		}
		c.touch(fnKey(fn))
		// the last store to GameOptions.CombinationPowers on every path loads that global
		found, okAll := 0, true
		s := newSumm(p, 2)
		paths, cut := s.Function(fn)
		if cut != "" {
			c.undecided("category-order", "options:"+pr[0], p.FnPos(fn), "summary cut: "+cut)
			continue
		}
		for _, ps := range paths {
			var last *Event
			for _, e := range ps.Events {
				if e.Kind == "store" && e.FKey == "pokerface.GameOptions.CombinationPowers" {
					last = e
				}
			}
			if last == nil {
				okAll = false
				continue
			}
			found++
			if !strings.Contains(last.Val.String(), "global:combination."+pr[1]) {
				okAll = false
			}
		}
		c.check(okAll && found > 0, "category-order", "options:"+pr[0], p.FnPos(fn),
			"sets CombinationPowers to combination."+pr[1],
			"does not (always) set CombinationPowers to combination."+pr[1])
	}

	// level span
	lv := p.ConstTable("combination", "CombinationLevel")
	ranks := p.ConstTable("combination", "CardRank")
	score := p.Func("combination", "", "CalculatePowerScore")
	if !lv.OK || !ranks.OK || score == nil {
		c.undecided("level-span", "inputs", "-", "CombinationLevel / CardRank / CalculatePowerScore not resolvable as constants: "+lv.Why+" "+ranks.Why)
	} else {
		c.touch(fnKey(score))
		radix, calib, straightSub, ok, why := scoreConstants(score)
		minR, maxR := int64(1<<40), int64(-1)
		for _, e := range ranks.Entries {
			v, _ := cint(e.Val)
			if v < minR {
				minR = v
			}
			if v > maxR {
				maxR = v
			}
		}
		if !ok {
			c.undecided("level-span", "CalculatePowerScore#constants", p.FnPos(score), "cannot read the radix / calibration constants: "+why)
		} else {
			c.role("score radix", fmt.Sprint(radix))
			c.role("rank calibration", fmt.Sprint(calib))
			c.check(minR-calib >= 0 && maxR-calib <= radix-1, "level-span", "CalculatePowerScore#digit-range", p.FnPos(score),
				fmt.Sprintf("rank digits %d..%d fit radix %d", minR-calib, maxR-calib, radix),
				fmt.Sprintf("rank digits %d..%d do not fit radix %d (positions overlap)", minR-calib, maxR-calib, radix))
			// largest in-category score: digits of the strongest hand of each category
			top := maxR - calib
			digits := map[string][]int64{
				"HighCard":     {top, top - 1, top - 2, top - 3, top - 5}, // A K Q J 9
				"Flush":        {top, top - 1, top - 2, top - 3, top - 5},
				"Pair":         {top, top - 1, top - 2, top - 3},
				"TwoPair":      {top, top - 1, top - 2},
				"ThreeOfAKind": {top, top - 1, top - 2},
				"FullHouse":    {top, top - 1},
				"FourOfAKind":  {top, top - 1},
			}
			level := map[string]int64{}
			for _, e := range lv.Entries {
				k, _ := cint(e.Key)
				v, _ := cint(e.Val)
				level[catName[k]] = v
			}
			n := 0
			for _, k := range cats {
				name := strings.TrimPrefix(k.Name, "Combination")
				l, has := level[name]
				if !has {
					c.bad("level-span", "CombinationLevel["+name+"]", p.Pos(lv.Pos), "no span declared for this category: every later category starts at the same offset")
					continue
				}
				n++
				var maxScore int64
				if d, ok := digits[name]; ok {
					for _, x := range d {
						maxScore = maxScore*radix + x
					}
				} else if strings.Contains(name, "Straight") {
					maxScore = maxR - straightSub
				} else {
					c.undecided("level-span", "CombinationLevel["+name+"]", p.Pos(lv.Pos), "unknown category: no rank pattern known for it")
					continue
				}
				c.check(l > maxScore, "level-span", "CombinationLevel["+name+"]", p.Pos(lv.Pos),
					fmt.Sprintf("span %d exceeds the largest in-category score %d", l, maxScore),
					fmt.Sprintf("span %d does not exceed the largest in-category score %d: the best %s outranks the weakest hand of the next category", l, maxScore, name))
			}
			c.floor("level-span", "category spans", n, 9)
		}
	}

	// symbol table
	sym := p.ConstTable("combination", "CombinationSymbol")
	if !sym.OK {
		c.undecided("symbol-table", "combination.CombinationSymbol", p.Pos(sym.Pos), "not a constant table: "+sym.Why)
	} else {
		byKey := map[int64]string{}
		byVal := map[string][]string{}
		for _, e := range sym.Entries {
			k, _ := cint(e.Key)
			byKey[k] = cstr(e.Val)
			byVal[cstr(e.Val)] = append(byVal[cstr(e.Val)], catName[k])
		}
		for _, k := range cats {
			v, _ := cint(k.Val)
			name := strings.TrimPrefix(k.Name, "Combination")
			s, has := byKey[v]
			switch {
			case !has || s == "":
				c.bad("symbol-table", "CombinationSymbol["+name+"]", p.Pos(sym.Pos), "category has no symbol: its hands are published with an empty type")
			case len(byVal[s]) > 1:
				c.bad("symbol-table", "CombinationSymbol["+name+"]", p.Pos(sym.Pos), fmt.Sprintf("symbol %q is shared by %v", s, byVal[s]))
			default:
				cross := ""
				for _, o := range cats {
					on := strings.TrimPrefix(o.Name, "Combination")
					if on != name && strings.EqualFold(s, on) {
						cross = on
					}
				}
				c.check(cross == "", "symbol-table", "CombinationSymbol["+name+"]", p.Pos(sym.Pos),
					fmt.Sprintf("unique symbol %q", s), fmt.Sprintf("symbol %q is the name of category %s", s, cross))
			}
		}
		c.floor("symbol-table", "symbols", len(sym.Entries), 9)
	}

	runC03Ladder(c)
	runC03Detectors(c)
	runC03SortedInput(c)
	runC03Elements(c)
	runC03TablesReadOnly(c)
	runC03AceLow(c)
	runC03ScoreCases(c)
	runC03TablesByValue(c)
}

// runC03TablesByValue: which ranking table a hand is scored with is decided by what the table
// holds, never by where it is stored. A table that went through JSON (every step of the table
// backend) or was copied by the caller is equal value for value and lives in another array; a
// test on the address of an element takes it for a different table.
func runC03TablesByValue(c *Ctx) {
	p := c.P
	const rule = "tables-by-value"
	var bad []string
	nFn, nCmp := 0, 0
	for _, fn := range p.Funcs {
		if fn.Pkg == nil || shortPkg(fn.Pkg.Pkg.Path()) != "combination" || fn.Blocks == nil {
			continue
		}
		nFn++
		for _, b := range fn.Blocks {
			for _, in := range b.Instrs {
				bo, ok := in.(*ssa.BinOp)
				if !ok || (bo.Op != token.EQL && bo.Op != token.NEQ) {
					continue
				}
				if _, isPtr := bo.X.Type().Underlying().(*types.Pointer); !isPtr {
					continue
				}
				nCmp++
				_, xa := bo.X.(*ssa.IndexAddr)
				_, ya := bo.Y.(*ssa.IndexAddr)
				if xa || ya {
					bad = append(bad, fmt.Sprintf("%s compares the address of a slice element at %s: a table is recognised by its storage, an equal copy is not", fnKey(fn), p.InstrPos(in)))
				}
			}
		}
	}
	c.Sites += nCmp
	c.check(len(bad) == 0 && nFn > 0, rule, "combination", "-", fmt.Sprintf("no function of the evaluator (%d inspected) compares addresses of table elements", nFn), "the ranking depends on which array a table lives in", uniq(bad, 3)...)
}

// runC03ScoreCases: inside a category the score is positional over ALL rank groups, which is what
// makes every kicker count. Only the two straight categories are scored differently (by their top
// card). A further special case (three of a kind by the set's rank alone, say) makes hands that
// differ in a side card tie.
func runC03ScoreCases(c *Ctx) {
	p := c.P
	const rule = "score-cases"
	fn := p.Func("combination", "", "CalculatePowerScore")
	if fn == nil {
		c.undecided(rule, "combination.CalculatePowerScore", "-", "function not found")
		return
	}
	cats := p.ConstsOfType("combination", "Combination")
	name := map[int64]string{}
	for _, k := range cats {
		v, _ := cint(k.Val)
		name[v] = strings.TrimPrefix(k.Name, "Combination")
	}
	s := newSumm(p, 0)
	s.EngineAliases = false
	paths, _ := s.Function(fn)
	special := map[string]bool{}
	for _, ps := range paths {
		for _, cd := range ps.Conds {
			v := cd.V
			if v.K == KAtom && v.At.Op == "eq" && !v.Neg && len(v.At.A.T) == 1 && strings.HasSuffix(v.At.A.terms()[0], ".Combination") {
				special[name[-v.At.A.C]] = true
			}
		}
	}
	var bad []string
	for k := range special {
		if !strings.Contains(k, "Straight") {
			bad = append(bad, "category "+k+" is scored by a rule of its own instead of positionally over all its rank groups")
		}
	}
	c.check(len(bad) == 0, rule, fnKey(fn), p.FnPos(fn), fmt.Sprintf("only the straight categories are scored apart (%v)", sortedSet(special)), "a category is scored without all of its kickers", uniq(bad, 2)...)
}

// runC03AceLow: in the straight detector the ace may stand in for a low card in the five-high
// straight only. The detector singles out "first card is the ace" (rank 14); whatever other rank it
// tests for equality on those paths must be one of the wheel's ranks 2..5. A second low-ace
// pattern (A-6-7-8-9, say) makes five cards that are not a straight in the 52-card game one.
func runC03AceLow(c *Ctx) {
	p := c.P
	const rule = "ace-low-only-in-wheel"
	n := 0
	for _, fn := range p.Funcs {
		if fn.Pkg == nil || shortPkg(fn.Pkg.Pkg.Path()) != "combination" || fn.Parent() != nil || fn.Blocks == nil {
			continue
		}
		sig := fn.Signature
		if sig.Results().Len() != 1 || !isBoolType(sig.Results().At(0).Type()) || sig.Params().Len() != 1 || typeShort(sig.Params().At(0).Type()) != "[]*combination.Card" {
			continue
		}
		s := newSumm(p, 0)
		s.EngineAliases = false
		s.HelperInline = purePredicate(p, fn)
		paths, _ := s.Function(fn)
		aceFirst := func(ps *PathSum) bool {
			return hasCond(ps, func(v *Val) bool {
				return v.K == KAtom && v.At.Op == "eq" && !v.Neg && v.At.A.C == -14 && len(v.At.A.T) == 1 && strings.HasSuffix(v.At.A.terms()[0], ".Rank")
			})
		}
		uses := false
		var bad []string
		for _, ps := range paths {
			if !aceFirst(ps) {
				continue
			}
			uses = true
			for _, cd := range ps.Conds {
				v := cd.V
				if v.K != KAtom || v.At.Op != "eq" || v.Neg || len(v.At.A.T) != 1 || !strings.HasSuffix(v.At.A.terms()[0], ".Rank") {
					continue
				}
				k := -v.At.A.C
				if v.At.A.T[v.At.A.terms()[0]] != 1 || k == 14 {
					continue
				}
				if k < 2 || k > 5 {
					bad = append(bad, fmt.Sprintf("with the ace first, a card of rank %d is accepted as the start of a low straight", k))
				}
			}
		}
		if !uses {
			continue
		}
		n++
		c.touch(fnKey(fn))
		c.check(len(bad) == 0, rule, fnKey(fn), p.FnPos(fn), "the ace plays low next to ranks 2..5 only", "the ace plays low outside the five-high straight", uniq(bad, 2)...)
	}
	c.floor(rule, "detectors that single out the ace", n, 1)
}

// runC03TablesReadOnly: the ranking tables are shared constants (the options hand the package-level
// slices to every game): no element of a slice of categories is ever overwritten, anywhere in the
// module. One game "fixing" its table changes the category order of every other game.
func runC03TablesReadOnly(c *Ctx) {
	p := c.P
	var bad []string
	n := 0
	for _, fn := range p.Funcs {
		if fn.Synthetic != "" && fn.Name() == "init" {
			continue // package initialisers build the tables
		}
		for _, b := range fn.Blocks {
			for _, in := range b.Instrs {
				st, ok := in.(*ssa.Store)
				if !ok {
					continue
				}
				ia, ok := st.Addr.(*ssa.IndexAddr)
				if !ok {
					continue
				}
				var elem types.Type
				switch t := ia.X.Type().Underlying().(type) {
				case *types.Slice:
					elem = t.Elem()
				case *types.Pointer:
					if a, ok := t.Elem().Underlying().(*types.Array); ok {
						elem = a.Elem()
					}
				}
				if elem == nil || typeShort(elem) != "combination.Combination" {
					continue
				}
				n++
				if _, fresh := rootOf(ia.X); fresh {
					continue // filling a slice allocated in this very function
				}
				bad = append(bad, fnKey(fn)+" overwrites an element of a ranking table at "+p.InstrPos(in))
			}
		}
	}
	c.Sites += n
	c.check(len(bad) == 0, "tables-read-only", "combination.Combination slices", "-", "no element of a ranking table is overwritten after its construction", "a shared ranking table can be changed at run time", uniq(bad, 3)...)
}

// runC03Elements: the score weights the rank groups by position, so the grouping function must
// return them ordered by group size, largest first, and must never put a lower rank ahead of a
// higher one among groups of equal size (the cards arrive in descending rank order, see
// sorted-input). Decided on the comparison the library sort is given: for every pair of groups
// (size 1..4, rank 2..14) less(i,j) is true when i is larger, false when it is smaller, and among
// equal sizes at most "rank i > rank j".
func runC03Elements(c *Ctx) {
	p := c.P
	const rule = "elements-ordered"
	cp := p.Func("combination", "", "CalculatePower")
	if cp == nil {
		c.undecided(rule, "combination.CalculatePower", "-", "function not found")
		return
	}
	var grp *ssa.Function
	for _, cc := range p.Index().Info[cp].Calls {
		if f := cc.StaticCallee(); f != nil && f.Pkg == cp.Pkg && f.Signature.Results().Len() == 1 && typeShort(f.Signature.Results().At(0).Type()) == "[]*combination.Element" {
			grp = f
		}
	}
	if grp == nil {
		c.undecided(rule, "grouping", "-", "the function that groups the cards by rank was not resolved")
		return
	}
	c.touch(fnKey(grp))
	var closure *ssa.Function
	for _, b := range grp.Blocks {
		for _, in := range b.Instrs {
			if call, ok := in.(*ssa.Call); ok {
				if n := extCalleeName(call.Common()); (n == "sort.Slice" || n == "sort.SliceStable") && len(call.Call.Args) == 2 {
					if mc, ok := call.Call.Args[1].(*ssa.MakeClosure); ok {
						closure, _ = mc.Fn.(*ssa.Function)
					}
				}
			}
		}
	}
	if closure == nil {
		c.undecided(rule, fnKey(grp), p.FnPos(grp), "the groups are not ordered by a library sort with a comparison closure: the order they are returned in cannot be decided")
		return
	}
	s := newSumm(p, 1)
	s.EngineAliases = false
	paths, cut := s.Function(closure)
	if cut != "" || len(paths) == 0 {
		c.undecided(rule, fnKey(grp), p.FnPos(grp), "the comparison closure is not a decision table: "+cut)
		return
	}
	// the four quantities: Count and Rank of element i and of element j
	pi, pj := "[param:"+closure.Params[0].Name()+"]", "[param:"+closure.Params[1].Name()+"]"
	role := func(t string) string {
		switch {
		case strings.HasSuffix(t, pi+".Count"):
			return "ci"
		case strings.HasSuffix(t, pj+".Count"):
			return "cj"
		case strings.HasSuffix(t, pi+".Rank"):
			return "ri"
		case strings.HasSuffix(t, pj+".Rank"):
			return "rj"
		}
		return ""
	}
	terms := map[string]bool{}
	collect := func(v *Val) {
		if v != nil && v.K == KAtom && v.At.A != nil {
			for t := range v.At.A.T {
				terms[t] = true
			}
		}
	}
	for _, ps := range paths {
		for _, cd := range ps.Conds {
			collect(cd.V)
		}
		if len(ps.Ret) == 1 {
			collect(ps.Ret[0])
		}
	}
	var bad []string
	names := map[string]string{}
	for t := range terms {
		r := role(t)
		if r == "" {
			bad = append(bad, "the comparison depends on "+t+", which is neither a group's size nor its rank")
		}
		names[r] = t
	}
	if names["ci"] == "" || names["cj"] == "" {
		bad = append(bad, "the comparison does not look at the sizes of both groups")
	}
	cells := 0
	if len(bad) == 0 {
		for ci := int64(1); ci <= 4 && len(bad) < 3; ci++ {
			for cj := int64(1); cj <= 4 && len(bad) < 3; cj++ {
				for ri := int64(2); ri <= 14 && len(bad) < 3; ri++ {
					for rj := int64(2); rj <= 14; rj++ {
						a := Asg{I: map[string]int64{}, B: map[string]bool{}}
						for r, v := range map[string]int64{"ci": ci, "cj": cj, "ri": ri, "rj": rj} {
							if names[r] != "" {
								a.I[names[r]] = v
							}
						}
						row, err := selectPath(paths, a)
						if err != "" || row == nil || len(row.Ret) != 1 {
							bad = append(bad, "the comparison is not decided for sizes "+fmt.Sprint(ci, cj)+" ranks "+fmt.Sprint(ri, rj)+": "+err)
							break
						}
						less, ok := evalCond(row.Ret[0], a)
						if !ok {
							bad = append(bad, "the comparison's result "+row.Ret[0].String()+" is not a comparison of sizes and ranks")
							break
						}
						cells++
						switch {
						case ci > cj && !less:
							bad = append(bad, fmt.Sprintf("a group of %d (rank %d) is not put before a group of %d (rank %d)", ci, ri, cj, rj))
						case ci < cj && less:
							bad = append(bad, fmt.Sprintf("a group of %d (rank %d) is put before a group of %d (rank %d)", ci, ri, cj, rj))
						case ci == cj && less && ri <= rj:
							bad = append(bad, fmt.Sprintf("among groups of %d, rank %d is put before rank %d", ci, ri, rj))
						}
						if len(bad) >= 3 {
							break
						}
					}
				}
			}
		}
	}
	c.Sites += cells
	c.check(len(bad) == 0 && cells > 0, rule, fnKey(grp), p.FnPos(grp), fmt.Sprintf("groups ordered by size descending, never a lower rank ahead of a higher one among equals (%d cells)", cells), "the rank groups are returned in an order the positional score does not expect", uniq(bad, 3)...)
}

// runC03SortedInput: the detectors and the rank grouping assume cards in descending rank order
// (the wheel test looks at positions 0 and 1, the straight walk at neighbours, kickers are
// weighted by position). So in the evaluator the slice that was sorted is, unchanged, the one
// handed to every detector and to the grouping and stored as the hand's cards: nothing
// re-orders it between the sort and its uses.
func runC03SortedInput(c *Ctx) {
	p := c.P
	const rule = "sorted-input"
	fn := p.Func("combination", "", "CalculatePower")
	if fn == nil {
		c.undecided(rule, "combination.CalculatePower", "-", "function not found")
		return
	}
	s := newSumm(p, 0)
	s.EngineAliases = false
	s.HelperInline = func(f *ssa.Function) bool {
		return privateHelper(fn, f) && len(findLoops(f)) == 0 && f.Signature.Results().Len() == 1 && !isBoolType(f.Signature.Results().At(0).Type())
	}
	paths, cut := s.Function(fn)
	if cut != "" {
		c.undecided(rule, fnKey(fn), p.FnPos(fn), "summary cut: "+cut)
		return
	}
	var bad []string
	n := 0
	cl, _ := sortClosure(fn)
	if o := sortOrientation(p, cl, "Rank"); o != "desc" {
		bad = append(bad, "the cards are not sorted by descending rank (orientation "+fmt.Sprintf("%q", o)+")")
	}
	for _, ps := range paths {
		if ps.End != "return" {
			continue
		}
		sorted := ""
		for _, e := range ps.Events {
			if e.Kind == "call" && e.Callee == "sort.Slice" && len(e.Args) > 0 {
				sorted = e.Args[0].String()
			}
		}
		if sorted == "" {
			bad = append(bad, "a path evaluates a hand without sorting it")
			continue
		}
		n++
		for _, e := range ps.Events {
			switch {
			case e.Kind == "store" && e.FKey == "combination.PowerState.Cards":
				if e.Val.String() != sorted {
					bad = append(bad, "the hand's cards are stored as "+e.Val.String()+", not as the sorted slice")
				}
			case e.Kind == "call" && e.Fn != nil && e.Fn.Pkg == fn.Pkg && len(e.Args) == 1 && typeShort(e.Fn.Signature.Params().At(0).Type()) == "[]*combination.Card":
				if e.Args[0].String() != sorted {
					bad = append(bad, e.Fn.Name()+" is given "+e.Args[0].String()+", not the sorted slice")
				}
			}
		}
	}
	c.check(len(bad) == 0 && n > 0, rule, fnKey(fn), p.FnPos(fn), "the descending-rank sorted slice is what every detector, the grouping and the result see", "the evaluated cards are re-ordered after sorting", uniq(bad, 3)...)
}

// runC03Detectors: every pattern detector of the evaluator (a function of package combination
// that takes the cards or the rank groups and returns a bool) looks at ALL of its input: each of
// its loops is a full range over the collection (or a neighbour walk i = 1 .. len-1 over all
// adjacent pairs), left early only by returning. A detector that stops one card short
// classifies four-card patterns as five-card ones.
func runC03Detectors(c *Ctx) {
	p := c.P
	n := 0
	for _, fn := range p.Funcs {
		if fn.Pkg == nil || shortPkg(fn.Pkg.Pkg.Path()) != "combination" || fn.Parent() != nil {
			continue
		}
		sig := fn.Signature
		// a detector answers yes/no; a counting helper behind two detectors (pairs in the hand)
		// answers with a number
		if sig.Results().Len() != 1 || !(isBoolType(sig.Results().At(0).Type()) || isIntType(sig.Results().At(0).Type())) || sig.Params().Len() < 1 {
			continue
		}
		if _, isSlice := sig.Params().At(0).Type().Underlying().(*types.Slice); !isSlice {
			continue
		}
		// further parameters are plain numbers (how many of a kind to count)
		scalarRest := true
		for i := 1; i < sig.Params().Len(); i++ {
			if !isIntType(sig.Params().At(i).Type()) {
				scalarRest = false
			}
		}
		if !scalarRest {
			continue
		}
		loops := findLoops(fn)
		if len(loops) == 0 {
			// a predicate that hands its input to a scanning helper is covered by that helper
			if isBoolType(sig.Results().At(0).Type()) {
				counted := false
				for _, b := range fn.Blocks {
					for _, in := range b.Instrs {
						if call, ok := in.(*ssa.Call); ok {
							if h := call.Call.StaticCallee(); h != nil && h.Pkg == fn.Pkg && len(findLoops(h)) > 0 && len(call.Call.Args) >= 1 && call.Call.Args[0] == ssa.Value(fn.Params[0]) && !counted {
								n++
								counted = true
							}
						}
					}
				}
			}
			continue
		}
		n++
		c.touch(fnKey(fn))
		var bad []string
		for _, l := range loops {
			ri := analyseRange(l)
			full := ri.Kind == "slice" && ri.Full
			if !full {
				// neighbour walk: i := 1; i < len(coll); i++ comparing coll[i] with coll[i-1]
				ci := analyseCounting(l)
				if ci.OK && ci.Step == 1 && ci.Op == "<" {
					// starts at the second card (the first is the reference), or at 0/1 chosen before the
					// loop (the ace of a wheel is skipped)
					startOK := false
					if c1, ok := constInt(ci.Init); ok && c1 >= 0 && c1 <= 1 {
						startOK = true
					}
					if ph, ok := ci.Init.(*ssa.Phi); ok {
						startOK = len(ph.Edges) > 0
						for _, e := range ph.Edges {
							if c1, ok := constInt(e); !ok || c1 < 0 || c1 > 1 {
								startOK = false
							}
						}
					}
					if startOK {
						if call, ok := ci.Bound.(*ssa.Call); ok {
							if b, ok := call.Call.Value.(*ssa.Builtin); ok && b.Name() == "len" && call.Call.Args[0] == ssa.Value(fn.Params[0]) {
								full = true
							}
						}
					}
				}
			}
			if !full {
				bad = append(bad, fmt.Sprintf("the loop at %s does not cover its whole input", p.InstrPos(l.Header.Instrs[len(l.Header.Instrs)-1])))
			}
			for _, ex := range l.Exits {
				if _, isRet := ex.Instrs[len(ex.Instrs)-1].(*ssa.Return); !isRet && len(l.Exits) > 1 {
					// an exit that is not a return and not the normal loop end: a break
					normal := false
					for _, pr := range ex.Preds {
						if pr == l.Header {
							normal = true
						}
					}
					if !normal {
						bad = append(bad, "the loop is left early by a break")
					}
				}
			}
		}
		// a detector that rejects from inside a loop (a mismatch between neighbours, a foreign suit)
		// accepts only after that loop has run to its end: no "return true" on a path that goes round it
		{
			s := newSumm(p, 0)
			s.EngineAliases = false
			s.HelperInline = purePredicate(p, fn)
			paths, _ := s.Function(fn)
			var rejecting []*Loop
			for _, l := range s.loops(fn) {
				body, _ := s.LoopBody(fn, l)
				for _, bp := range body {
					if strings.HasPrefix(bp.End, "exit-return") && len(bp.Ret) == 1 && bp.Ret[0].String() == "false" {
						rejecting = append(rejecting, l)
						break
					}
				}
			}
			if len(rejecting) > 0 {
				for _, ps := range paths {
					if ps.End != "return" || len(ps.Ret) != 1 || ps.Ret[0].String() != "true" {
						continue
					}
					for _, l := range rejecting {
						through := false
						for _, e := range ps.Events {
							if e.Kind == "loop" && e.Loop == l {
								through = true
							}
						}
						if !through {
							bad = append(bad, "the pattern is accepted on a path that does not run the comparing loop: ["+ps.CondString()+"]")
						}
					}
				}
			}
		}
		c.check(len(bad) == 0, "detectors-scan-all", fnKey(fn), p.FnPos(fn), "looks at its whole input", "a pattern detector ignores part of the hand", uniq(bad, 2)...)
	}
	c.floor("detectors-scan-all", "pattern detectors", n, 4)
}

func swap(in []string, a, b string) []string {
	out := append([]string(nil), in...)
	for i, x := range out {
		if x == a {
			out[i] = b
		} else if x == b {
			out[i] = a
		}
	}
	return out
}

// scoreConstants reads from CalculatePowerScore: the constant first argument of math.Pow
// (radix), the constant subtracted from an Element.Rank load (calibration), and the
// constant subtracted from the straight's top rank.
func scoreConstants(fn *ssa.Function) (radix, calib, straightSub int64, ok bool, why string) {
	radix, calib, straightSub = -1, -1, -1
	// the score may be split over unexported helpers (one per kind of hand): read them all
	fns := []*ssa.Function{fn}
	seenF := map[*ssa.Function]bool{fn: true}
	for i := 0; i < len(fns) && i < 16; i++ {
		for _, b := range fns[i].Blocks {
			for _, in := range b.Instrs {
				if call, ok := in.(*ssa.Call); ok {
					if f := call.Call.StaticCallee(); f != nil && !seenF[f] && privateHelper(fn, f) {
						seenF[f] = true
						fns = append(fns, f)
					}
				}
			}
		}
	}
	var blocks []*ssa.BasicBlock
	for _, f := range fns {
		blocks = append(blocks, f.Blocks...)
	}
	for _, b := range blocks {
		for _, in := range b.Instrs {
			switch x := in.(type) {
			case *ssa.Call:
				if extCalleeName(x.Common()) == "math.Pow" {
					if cv, isC := x.Call.Args[0].(*ssa.Const); isC && cv.Value != nil {
						f, _ := constantFloat(cv)
						radix = int64(f)
					}
				}
			case *ssa.BinOp:
				if x.Op.String() != "-" {
					continue
				}
				cv, isC := constInt(x.Y)
				if !isC {
					continue
				}
				// X is (a conversion of) a load of Element.Rank -> calibration; otherwise the straight offset
				if loadsField(x.X, "combination.Element.Rank") {
					calib = cv
				} else if cvt, isCvt := x.X.(*ssa.Convert); isCvt && isIntType(x.Type()) {
					// uint64(maxRank) - K: the straight's score is its top rank minus K
					if _, isPhi := cvt.X.(*ssa.Phi); isPhi {
						straightSub = cv
					}
				}
			}
		}
	}
	if radix < 2 {
		return 0, 0, 0, false, "no constant radix passed to math.Pow"
	}
	if calib < 0 {
		return 0, 0, 0, false, "no constant subtracted from Element.Rank"
	}
	if straightSub < 0 {
		return 0, 0, 0, false, "no constant subtracted from the straight's top rank"
	}
	return radix, calib, straightSub, true, ""
}

func constantFloat(c *ssa.Const) (float64, bool) {
	if c.Value == nil {
		return 0, false
	}
	f, _ := constantToFloat(c)
	return f, true
}

func loadsField(v ssa.Value, key string) bool {
	for i := 0; i < 4; i++ {
		switch x := v.(type) {
		case *ssa.Convert:
			v = x.X
		case *ssa.ChangeType:
			v = x.X
		case *ssa.UnOp:
			if fa, ok := x.X.(*ssa.FieldAddr); ok {
				return fieldKeyOf(fa.X, fa.Field) == key
			}
			return false
		case *ssa.Field:
			return fieldKeyOf(x.X, x.Field) == key
		default:
			return false
		}
	}
	return false
}

// runC03Ladder: in CalculatePower the category finally stored is decided by the multiples
// ladder in the order four-of-a-kind, full house, three-of-a-kind, two pair, pair: a hand
// matching a stronger pattern must never be classified by a weaker test first.
func runC03Ladder(c *Ctx) {
	p := c.P
	fn := p.Func("combination", "", "CalculatePower")
	if fn == nil {
		c.undecided("ladder-priority", "combination.CalculatePower", "-", "function not found")
		return
	}
	c.touch(fnKey(fn))
	s := newSumm(p, 0)
	s.EngineAliases = false
	// helpers that compute something are analysed in place; pattern predicates (bool results) stay
	// opaque atoms, whatever they are built from
	s.HelperInline = func(f *ssa.Function) bool {
		return privateHelper(fn, f) && len(findLoops(f)) == 0 && !(f.Signature.Results().Len() == 1 && isBoolType(f.Signature.Results().At(0).Type()))
	}
	paths, cut := s.Function(fn)
	if cut != "" {
		c.undecided("ladder-priority", "combination.CalculatePower", p.FnPos(fn), "summary cut: "+cut)
		return
	}
	// On five cards the pattern predicates overlap in exactly one way: a full house also
	// satisfies the three-of-a-kind test (it has a triple) and the one-pair test (it has
	// exactly one pair). So the full-house test must be ruled out on every path on which
	// one of those two decides. The category stored on a path is the one named by the
	// deciding predicate (isX -> CombinationX).
	cats := p.ConstsOfType("combination", "Combination")
	catByVal := map[string]string{}
	for _, k := range cats {
		v, _ := cint(k.Val)
		catByVal[fmt.Sprint(v)] = strings.TrimPrefix(k.Name, "Combination")
	}
	n := 0
	bad := []string{}
	for _, ps := range paths {
		if ps.End != "return" {
			continue
		}
		var trueP []string
		falseP := map[string]bool{}
		for _, cd := range ps.Conds {
			if cd.V.K != KAtom || cd.V.At.Op != "b" {
				continue
			}
			l := cd.V.At.L
			if i := strings.Index(l, "combination.is"); i >= 0 {
				name := l[i+len("combination.is"):]
				if j := strings.Index(name, "("); j > 0 {
					name = name[:j]
				}
				isCat := false
				for _, cn := range catByVal {
					if cn == name {
						isCat = true
					}
				}
				if !isCat {
					continue // a predicate that does not name a category decides nothing here
				}
				if cd.V.Neg {
					falseP[name] = true
				} else {
					trueP = append(trueP, name)
				}
			}
		}
		// the multiples ladder: first true predicate among the non-flush/straight ones
		first := ""
		for _, t := range trueP {
			if t != "Flush" && t != "Straight" {
				first = t
				break
			}
		}
		if first == "" {
			continue
		}
		n++
		if (first == "ThreeOfAKind" || first == "Pair") && !falseP["FullHouse"] {
			bad = append(bad, fmt.Sprintf("is%s decides on a path where isFullHouse was not ruled out first: a full house would be classified as %s", first, first))
		}
		var last *Event
		for _, e := range ps.Events {
			if e.Kind == "store" && e.FKey == "combination.PowerState.Combination" {
				last = e
			}
		}
		got := "<none>"
		if last != nil {
			got = catByVal[last.Val.String()]
		}
		if got != first {
			bad = append(bad, fmt.Sprintf("path on which is%s decides stores category %s", first, got))
		}
	}
	c.floor("ladder-priority", "ladder paths", n, 3)
	if len(bad) > 6 {
		bad = bad[:6]
	}
	c.check(len(bad) == 0, "ladder-priority", "combination.CalculatePower", p.FnPos(fn),
		"stronger multiples patterns are tested before weaker ones and store their own category",
		"multiples ladder mis-ordered", bad...)
}
