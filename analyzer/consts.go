package main

import (
	"go/ast"
	"go/constant"
	"go/token"
	"go/types"
	"sort"
)

// E2 — constant tables read from the typed syntax tree.

type constEntry struct {
	KeyName string         // name of the constant identifier used as key ("" if literal / slice index)
	Key     constant.Value // value of the key (index for slices)
	ValName string
	Val     constant.Value
	Pos     token.Pos
}

type constTable struct {
	Name    string
	Pos     token.Pos
	Entries []constEntry
	OK      bool   // every key and value is a compile-time constant
	Why     string // reason when !OK
}

func (p *Prog) pkgShort(pkg string) (*types.Package, *types.Info, []*ast.File) {
	for _, pk := range p.Pkgs {
		if shortPkg(pk.PkgPath) == pkg {
			return pk.Types, pk.TypesInfo, pk.Syntax
		}
	}
	return nil, nil, nil
}

// ConstTable evaluates a package-level `var T = map[K]V{...}` or `[]V{...}` literal.
func (p *Prog) ConstTable(pkg, name string) *constTable {
	_, info, files := p.pkgShort(pkg)
	ct := &constTable{Name: pkg + "." + name}
	if info == nil {
		ct.Why = "package not loaded"
		return ct
	}
	for _, f := range files {
		for _, d := range f.Decls {
			gd, ok := d.(*ast.GenDecl)
			if !ok || gd.Tok != token.VAR {
				continue
			}
			for _, sp := range gd.Specs {
				vs := sp.(*ast.ValueSpec)
				for i, id := range vs.Names {
					if id.Name != name || i >= len(vs.Values) {
						continue
					}
					ct.Pos = id.Pos()
					cl, ok := vs.Values[i].(*ast.CompositeLit)
					if !ok {
						ct.Why = "initialiser is not a composite literal"
						return ct
					}
					ct.OK = true
					for idx, el := range cl.Elts {
						var e constEntry
						e.Pos = el.Pos()
						valExpr := el
						if kv, ok := el.(*ast.KeyValueExpr); ok {
							valExpr = kv.Value
							tv, ok := info.Types[kv.Key]
							if !ok || tv.Value == nil {
								ct.OK = false
								ct.Why = "non-constant key"
							} else {
								e.Key = tv.Value
							}
							e.KeyName = identName(kv.Key)
						} else {
							e.Key = constant.MakeInt64(int64(idx))
						}
						tv, ok := info.Types[valExpr]
						if !ok || tv.Value == nil {
							ct.OK = false
							ct.Why = "non-constant value"
						} else {
							e.Val = tv.Value
						}
						e.ValName = identName(valExpr)
						ct.Entries = append(ct.Entries, e)
					}
					return ct
				}
			}
		}
	}
	ct.Why = "variable not found"
	return ct
}

func identName(e ast.Expr) string {
	switch x := e.(type) {
	case *ast.Ident:
		return x.Name
	case *ast.SelectorExpr:
		return x.Sel.Name
	}
	return ""
}

type namedConst struct {
	Name string
	Val  constant.Value
	Pos  token.Pos
}

// ConstsOfType lists the package-level constants declared with the named type.
func (p *Prog) ConstsOfType(pkg, typeName string) []namedConst {
	tp, _, _ := p.pkgShort(pkg)
	if tp == nil {
		return nil
	}
	var out []namedConst
	for _, n := range tp.Scope().Names() {
		c, ok := tp.Scope().Lookup(n).(*types.Const)
		if !ok {
			continue
		}
		nt, ok := c.Type().(*types.Named)
		if !ok || nt.Obj().Name() != typeName || nt.Obj().Pkg() != tp {
			continue
		}
		out = append(out, namedConst{Name: n, Val: c.Val(), Pos: c.Pos()})
	}
	sort.Slice(out, func(i, j int) bool {
		return constant.Compare(out[i].Val, token.LSS, out[j].Val)
	})
	return out
}

func cstr(v constant.Value) string {
	if v == nil {
		return "<non-const>"
	}
	if v.Kind() == constant.String {
		return constant.StringVal(v)
	}
	return v.ExactString()
}

func cint(v constant.Value) (int64, bool) {
	if v == nil || v.Kind() != constant.Int {
		return 0, false
	}
	return constant.Int64Val(v)
}
