package main

import (
	"fmt"
	"sort"
	"strings"

	"golang.org/x/tools/go/ssa"
)

func init() {
	register(&propDef{
		ID: "C14", Level: "other", Run: withShared(runC14, share{"C07", runC07, cardsSurviveReload}),
		Explanation: "Deal is a counting loop in which the card appended in each iteration is Meta.Deck[i] with i equal to Status.CurrentDeckPosition at the loop head, both advancing by exactly one per card, and the cursor is written nowhere else; every store to HoleCards, Board or Burned stores a fresh empty slice, the result of Deal, or the same field extended by the result of Deal; the deck is stored only from the options and from the shuffle of itself; no element of a dealt slice is ever overwritten; the street switch deals HoleCardsCount to every player preflop, burns 1 and adds 3 on the flop, burns 1 and adds 1 on turn and river, with the burn first and no other dealing; nothing else calls Deal or Burn; the shuffle's only writes are the two stores of one exchange inside rand.Shuffle over the whole slice, and it returns the same slice. Deck sources return a newly allocated slice per call. Does NOT decide that the configured deck has no duplicates and enough cards.",
		Trusted:     commonTrusted,
		Assumptions: []string{"math/rand.Shuffle calls the swap function with in-range indices (documented)"},
		NotCovered:  "deck content (duplicates, length); that the hand reaches each street (C05/C06)",
	})
}

var cardFields = []string{"pokerface.PlayerState.HoleCards", "pokerface.Status.Board", "pokerface.Status.Burned"}

func runC14(c *Ctx) {
	p := c.P
	ix := p.Index()
	ea := c.engine()
	if ea.gameImpl == "" {
		c.undecided("anchors", "engine-implementations", "-", "pokerface.Game does not have exactly one implementation")
		return
	}
	deal := p.Func("pokerface", ea.gameImpl, "Deal")
	burn := p.Func("pokerface", ea.gameImpl, "Burn")
	if deal == nil || burn == nil {
		c.undecided("anchors", "Deal/Burn", "-", "Deal or Burn not found")
		return
	}

	// ---- cursor-lockstep
	c.touch(fnKey(deal))
	{
		s := newSumm(p, 0)
		loops := s.loops(deal)
		var bad []string
		if len(loops) != 1 {
			bad = append(bad, fmt.Sprintf("expected one loop in Deal, found %d", len(loops)))
		} else {
			l := loops[0]
			ci := analyseCounting(l)
			if !ci.OK || ci.Step != 1 || ci.Op != "<" {
				bad = append(bad, "Deal's loop is not a counting loop with step 1 and a strict upper bound")
			} else {
				if !loadsField(ci.Init, "pokerface.Status.CurrentDeckPosition") {
					bad = append(bad, "the loop index does not start at Status.CurrentDeckPosition")
				}
				// bound = CurrentDeckPosition + count
				okBound := false
				if bo, ok := ci.Bound.(*ssa.BinOp); ok && bo.Op.String() == "+" {
					if (loadsField(bo.X, "pokerface.Status.CurrentDeckPosition") && bo.Y == ssa.Value(deal.Params[1])) ||
						(loadsField(bo.Y, "pokerface.Status.CurrentDeckPosition") && bo.X == ssa.Value(deal.Params[1])) {
						okBound = true
					}
				}
				if !okBound {
					bad = append(bad, "the loop bound is not CurrentDeckPosition + count: the number of cards dealt is not the number asked for")
				}
				body, cut := s.LoopBody(deal, l)
				if cut != "" {
					bad = append(bad, "body summary cut: "+cut)
				}
				iter := "iter:Deal." + ci.Phi.Name()
				for _, ps := range body {
					if ps.End != "continue" {
						bad = append(bad, "the loop can stop early ("+ps.End+")")
						continue
					}
					// cursor advances by one
					st := ps.storesTo("pokerface.Status.CurrentDeckPosition")
					if len(st) != 1 || st[0].Val.String() != "GS.Status.CurrentDeckPosition + 1" {
						bad = append(bad, "the deck cursor does not advance by exactly one per card")
					}
					// appended element is Deck[i]; the slice returned is the one appended to
					appended := false
					for k, v := range ps.Store {
						if !strings.HasPrefix(k, "backedge:") || k == "backedge:"+ci.Phi.Name() {
							continue
						}
						if v.Op == "append" && len(v.Args) == 2 && v.Args[1].Op == "list" && len(v.Args[1].Args) == 1 {
							el := v.Args[1].Args[0].String()
							if el == "GS.Meta.Deck["+iter+"]" && strings.HasPrefix(v.Args[0].String(), "iter:Deal.") {
								appended = true
								// returned value is this phi
								retOK := false
								for _, b := range deal.Blocks {
									if r, ok := b.Instrs[len(b.Instrs)-1].(*ssa.Return); ok && len(r.Results) == 1 && "backedge:"+r.Results[0].Name() == k {
										retOK = true
									}
								}
								if !retOK {
									bad = append(bad, "Deal does not return the slice it appended to")
								}
							} else {
								bad = append(bad, "the card appended is "+el+", expected Meta.Deck[i] for the loop index i")
							}
						}
					}
					if !appended {
						bad = append(bad, "no card is appended per iteration")
					}
				}
			}
		}
		c.check(len(bad) == 0, "cursor-lockstep", fnKey(deal), p.FnPos(deal), "each iteration appends Meta.Deck[i] with i = cursor, and index and cursor advance by one", "cards and deck cursor are not in lock-step", uniq(bad, 4)...)
		ws := ix.Writers("pokerface.Status.CurrentDeckPosition")
		c.check(len(ws) == 1 && ws[0] == deal, "cursor-lockstep", "cursor#single-writer", p.FnPos(deal), "the deck cursor is written only by Deal", "the deck cursor is also written by "+fnNames(ws))
	}

	// ---- who may call Deal / Burn
	initRound := p.Func("pokerface", ea.gameImpl, "InitializeRound")
	// package-private helpers called only from the street initialiser are part of it
	partOfInit := map[*ssa.Function]bool{initRound: true}
	for changed := true; changed; {
		changed = false
		for _, fn := range p.MethodsOf("pokerface", ea.gameImpl) {
			if partOfInit[fn] || !privateHelper(initRound, fn) {
				continue
			}
			cs := ix.Callers(fn)
			all := len(cs) > 0
			for _, cl := range cs {
				if !partOfInit[cl] {
					all = false
				}
			}
			if all {
				partOfInit[fn] = true
				changed = true
			}
		}
	}
	for _, f := range []*ssa.Function{deal, burn} {
		var bad []string
		for _, cl := range ix.Callers(f) {
			if !partOfInit[cl] && !(f == deal && cl == burn) {
				bad = append(bad, fnKey(cl))
			}
		}
		c.check(len(bad) == 0, "street-table", fnKey(f)+"#callers", p.FnPos(f), "called only from the street initialiser (and Burn)", "cards are also dealt from "+strings.Join(bad, ","))
	}
	// Burn appends Deal(count) to Burned
	{
		c.touch(fnKey(burn))
		s := newSumm(p, 0)
		paths, _ := s.Function(burn)
		ok := len(paths) == 1
		if ok {
			st := paths[0].storesTo("pokerface.Status.Burned")
			ok = len(st) == 1 && st[0].Val.String() == "append(GS.Status.Burned, pokerface.(*game).Deal(recv, param:"+burn.Params[1].Name()+"))"
		}
		c.check(ok, "card-provenance", fnKey(burn), p.FnPos(burn), "Burned := append(Burned, Deal(count))", "Burn does not append exactly the dealt cards to the burned pile")
	}

	// ---- card-provenance: stores to the three card fields and to the deck
	nSt := 0
	inHandlers := map[*ssa.Function]bool{}
	{
		eg := buildEventGraph(c, c.engine())
		var hs []*ssa.Function
		for _, h := range eg.Handler {
			if h != nil {
				hs = append(hs, h)
			}
		}
		inHandlers = ix.Reachable(hs...)
	}
	for _, key := range cardFields {
		for _, w := range ix.Writers(key) {
			if w.Pkg == nil || shortPkg(w.Pkg.Pkg.Path()) != "pokerface" {
				c.bad("card-provenance", fnKey(w)+"#store:"+key, p.FnPos(w), "a card field of the engine state is written outside the engine package")
				continue
			}
			c.touch(fnKey(w))
			s := newSumm(p, 1)
			s.NoInline[fnKey(deal)] = true
			fpaths, _ := s.Function(w)
			sets := [][]*PathSum{fpaths}
			for _, l := range s.loops(w) {
				bp, _ := s.LoopBody(w, l)
				sets = append(sets, bp)
			}
			seen := map[string]bool{}
			for _, set := range sets {
				for _, ps := range set {
					for _, e := range ps.storesTo(key) {
						v := e.Val
						dealCall := "pokerface.(*game).Deal("
						okv := isEmptyVal(v) ||
							(v.K == KSym && strings.HasPrefix(v.S, dealCall)) ||
							(v.Op == "append" && len(v.Args) == 2 && v.Args[0].String() == e.Loc && strings.HasPrefix(v.Args[1].String(), dealCall))
						// emptying a card field is for the start of a hand and for the views only: once a
						// hand is running (any event handler), dealt cards stay what they are
						if okv && isEmptyVal(v) && inHandlers[w] {
							okv = false
						}
						k := fnKey(w) + "#store:" + key + ":" + fmt.Sprint(okv)
						if seen[k] {
							continue
						}
						seen[k] = true
						nSt++
						c.check(okv, "card-provenance", fnKey(w)+"#store:"+strings.TrimPrefix(key, "pokerface."), e.Pos, "stores Deal(...), the field extended by Deal(...), or — at the start of a hand and in the views only — an empty slice", "stores "+v.String()+": dealt cards change or do not come fresh from the deck")
					}
				}
			}
		}
	}
	c.floor("card-provenance", "store sites of card fields", nSt, 3)
	// deck stores
	for _, w := range ix.AnyWriters("pokerface.Meta.Deck") {
		c.touch(fnKey(w))
		s := newSumm(p, 0)
		paths, _ := s.Function(w)
		for _, ps := range paths {
			for _, e := range ps.storesTo("pokerface.Meta.Deck") {
				v := e.Val.String()
				okv := isEmptyVal(e.Val) || strings.HasSuffix(v, ".Deck") && strings.HasPrefix(v, "param:") || v == "pokerface.ShuffleCards(GS.Meta.Deck)"
				c.check(okv, "card-provenance", fnKey(w)+"#store:Meta.Deck", e.Pos, "the deck is set from the options, emptied in a view, or replaced by the shuffle of itself", "the deck is replaced by "+v)
			}
		}
	}
	// deck sources: a function whose result becomes GameOptions.Deck returns a slice of its own on
	// every call. The shuffle works in place on the deck it is given, so two hands whose decks share
	// a backing array re-order each other's undealt cards
	{
		srcs := map[*ssa.Function]bool{}
		for _, fn := range p.Funcs {
			for _, b := range fn.Blocks {
				for _, in := range b.Instrs {
					st, ok := in.(*ssa.Store)
					if !ok || accessKey(st.Addr) != "pokerface.GameOptions.Deck" {
						continue
					}
					if call, ok := st.Val.(*ssa.Call); ok {
						if f := call.Common().StaticCallee(); f != nil && inModule(f) {
							srcs[f] = true
						}
					}
				}
			}
		}
		nSrc := 0
		for _, f := range sortedFns(srcs) {
			nSrc++
			c.touch(fnKey(f))
			var bad []string
			for _, b := range f.Blocks {
				if r, ok := b.Instrs[len(b.Instrs)-1].(*ssa.Return); ok && len(r.Results) == 1 {
					if why := sliceNotFresh(r.Results[0], map[ssa.Value]bool{}, 0); why != "" {
						bad = append(bad, why)
					}
				}
			}
			c.check(len(bad) == 0, "card-provenance", fnKey(f)+"#fresh-deck", p.FnPos(f), "returns a newly allocated slice on every call", "decks of different hands can share one backing array", uniq(bad, 2)...)
		}
		c.floor("card-provenance", "deck sources", nSrc, 2)
	}
	// no element store into a card slice anywhere
	{
		var bad []string
		for _, fn := range p.Funcs {
			for _, b := range fn.Blocks {
				for _, in := range b.Instrs {
					st, ok := in.(*ssa.Store)
					if !ok {
						continue
					}
					ia, ok := st.Addr.(*ssa.IndexAddr)
					if !ok {
						continue
					}
					if src := cardSliceSource(ia.X, 0); src != "" {
						bad = append(bad, fmt.Sprintf("%s overwrites an element of %s at %s", fnKey(fn), src, p.InstrPos(in)))
					}
				}
			}
		}
		c.check(len(bad) == 0, "card-provenance", "no-element-store", "-", "no element of Deck, HoleCards, Board or Burned is overwritten in place (the shuffle works on its argument, checked separately)", "a dealt card can change", uniq(bad, 3)...)
	}

	// ---- street-table
	if initRound == nil {
		c.undecided("street-table", "InitializeRound", "-", "not found")
	} else {
		c.touch(fnKey(initRound))
		s := newSumm(p, 3)
		s.NoInline[fnKey(deal)] = true
		s.InlineFilter = func(f *ssa.Function) bool { return f == burn || partOfInit[f] }
		s.HelperInline = func(f *ssa.Function) bool { return partOfInit[f] && f != initRound }
		paths, cut := s.Function(initRound)
		if cut != "" {
			c.undecided("street-table", fnKey(initRound), p.FnPos(initRound), "summary cut: "+cut)
		}
		want := map[string][2]int64{"flop": {1, 3}, "turn": {1, 1}, "river": {1, 1}}
		seenStreet := map[string]bool{}
		for _, ps := range paths {
			street := ""
			for _, cd := range ps.Conds {
				if cd.V.K == KAtom && cd.V.At.Op == "is" && !cd.V.Neg {
					x := cd.V.At.L
					if x == "GS.Status.Round" {
						x = cd.V.At.R
					} else if cd.V.At.R != "GS.Status.Round" {
						continue
					}
					street = strings.Trim(x, `"`)
				}
			}
			var deals []*Event
			for _, e := range ps.Events {
				if e.Kind == "call" && e.Fn == deal {
					deals = append(deals, e)
				}
			}
			var bad []string
			switch street {
			case "preflop":
				// a full-range loop over the players dealing HoleCardsCount to each; nothing else dealt
				if len(deals) != 0 {
					bad = append(bad, "cards are dealt outside the per-player loop before the flop")
				}
				okLoop := false
				for _, e := range ps.Events {
					if e.Kind != "loop" {
						continue
					}
					ri := analyseRange(e.Loop)
					if !loadsField(ri.Coll, "pokerface.GameState.Players") || !ri.Full || len(e.Loop.Exits) != 1 {
						continue
					}
					body, _ := s.LoopBody(e.InFn, e.Loop)
					okLoop = len(body) > 0
					for _, bp := range body {
						hs := bp.storesTo("pokerface.PlayerState.HoleCards")
						ds := bp.Calls(".Deal")
						if bp.End != "continue" || len(hs) != 1 || len(ds) != 1 || ds[0].Args[1].String() != "GS.Meta.HoleCardsCount" || hs[0].Val != ds[0].Res || !strings.Contains(hs[0].Loc, "GS.Players[iter:") {
							okLoop = false
						}
					}
				}
				if !okLoop {
					bad = append(bad, "not every player is dealt exactly Meta.HoleCardsCount cards once")
				}
				if len(ps.storesTo("pokerface.Status.Board"))+len(ps.storesTo("pokerface.Status.Burned")) > 0 {
					bad = append(bad, "board or burned cards change before the flop")
				}
			case "flop", "turn", "river":
				w := want[street]
				if len(deals) != 2 {
					bad = append(bad, fmt.Sprintf("%d deals, expected a burn and a board deal", len(deals)))
				} else {
					b0, ok0 := deals[0].Args[1].isConstInt()
					b1, ok1 := deals[1].Args[1].isConstInt()
					burnSt := ps.storesTo("pokerface.Status.Burned")
					boardSt := ps.storesTo("pokerface.Status.Board")
					if !ok0 || b0 != w[0] || len(burnSt) != 1 || !strings.Contains(burnSt[0].Val.String(), deals[0].Res.String()) {
						bad = append(bad, fmt.Sprintf("the first deal must burn exactly %d card(s)", w[0]))
					}
					if !ok1 || b1 != w[1] || len(boardSt) != 1 || boardSt[0].Val.String() != "append(GS.Status.Board, "+deals[1].Res.String()+")" {
						bad = append(bad, fmt.Sprintf("the board must grow by exactly %d card(s) after the burn", w[1]))
					}
				}
				if len(ps.storesTo("pokerface.PlayerState.HoleCards")) > 0 {
					bad = append(bad, "hole cards are dealt again after the flop")
				}
				for _, e := range ps.Events {
					if e.Kind == "loop" {
						for blk := range e.Loop.Blocks {
							for _, in := range blk.Instrs {
								if ci, ok := in.(ssa.CallInstruction); ok {
									for _, t := range ix.targets(e.InFn, ci.Common()) {
										if t == deal || t == burn {
											bad = append(bad, "cards are dealt in a loop on a later street")
										}
									}
								}
							}
						}
					}
				}
			default:
				if len(deals) > 0 {
					bad = append(bad, "cards are dealt on an unknown street")
				}
				continue
			}
			key := "street:" + street
			if len(bad) == 0 && seenStreet[key] {
				continue
			}
			if seenStreet[key+"!"] {
				continue
			}
			if len(bad) > 0 {
				seenStreet[key+"!"] = true
			} else {
				seenStreet[key] = true
			}
			c.check(len(bad) == 0, "street-table", key, p.FnPos(initRound), "deals exactly the property's numbers, burn first", "the street deals the wrong cards", uniq(bad, 3)...)
		}
		n := 0
		for _, st := range []string{"preflop", "flop", "turn", "river"} {
			if seenStreet["street:"+st] || seenStreet["street:"+st+"!"] {
				n++
			}
		}
		c.floor("street-table", "streets", n, 4)
	}

	// ---- shuffle-swaps
	sh := p.Func("pokerface", "", "ShuffleCards")
	if sh == nil {
		c.undecided("shuffle-swaps", "ShuffleCards", "-", "not found")
		return
	}
	c.touch(fnKey(sh))
	s := newSumm(p, 0)
	paths, _ := s.Function(sh)
	var bad []string
	arg := "param:" + sh.Params[0].Name()
	nShuffle := 0
	for _, ps := range paths {
		if len(ps.Ret) != 1 || ps.Ret[0].String() != arg {
			bad = append(bad, "does not return the slice it was given")
		}
		for _, e := range ps.Events {
			if e.Kind == "store" && !e.Fresh {
				bad = append(bad, "writes "+e.Loc+" directly")
			}
			if e.Kind == "call" && e.Callee == "math/rand.Shuffle" {
				nShuffle++
				if e.Args[0].String() != "len("+arg+")" {
					bad = append(bad, "rand.Shuffle is not given the length of the whole slice")
				}
				// the swap closure
				var swap *ssa.Function
				if mc, ok := e.Instr.(*ssa.Call).Call.Args[1].(*ssa.MakeClosure); ok {
					swap, _ = mc.Fn.(*ssa.Function)
				}
				if swap == nil || len(swap.Params) != 2 {
					bad = append(bad, "the swap function is not a literal closure")
					continue
				}
				c.touch(fnKey(swap))
				s2 := newSumm(p, 0)
				sp, _ := s2.Function(swap)
				i, j := "param:"+swap.Params[0].Name(), "param:"+swap.Params[1].Name()
				for _, q := range sp {
					var sts []*Event
					for _, ev := range q.Events {
						if ev.Kind == "store" {
							sts = append(sts, ev)
						}
						if ev.Kind == "call" || ev.Kind == "loop" {
							bad = append(bad, "the swap function does more than exchange two elements")
						}
					}
					li, lj := "free:"+sh.Params[0].Name()+"["+i+"]", "free:"+sh.Params[0].Name()+"["+j+"]"
					okSwap := len(sts) == 2 &&
						((sts[0].Loc == li && sts[0].Val.String() == lj && sts[1].Loc == lj && sts[1].Val.String() == li) ||
							(sts[0].Loc == lj && sts[0].Val.String() == li && sts[1].Loc == li && sts[1].Val.String() == lj))
					if !okSwap {
						var d []string
						for _, st := range sts {
							d = append(d, st.String())
						}
						bad = append(bad, "the swap function's writes are not one exchange of cards[i] and cards[j]: "+strings.Join(d, "; "))
					}
				}
			} else if e.Kind == "call" && !pureExternal(e.Callee) && e.Callee != "math/rand.Seed" {
				if eff, why := c.effectOf(e); eff {
					bad = append(bad, "other effect: "+why)
				}
			}
		}
	}
	if nShuffle != 1 {
		bad = append(bad, fmt.Sprintf("%d calls of rand.Shuffle", nShuffle))
	}
	c.check(len(bad) == 0, "shuffle-swaps", fnKey(sh), p.FnPos(sh), "the only writes are the two stores of one exchange inside rand.Shuffle over the whole slice; the same slice is returned", "the shuffle is not a permutation of its argument", uniq(bad, 4)...)
}

// cardSliceSource: does slice value v derive (without a copy) from one of the card fields
// or the deck? Returns the field name.
func cardSliceSource(v ssa.Value, depth int) string {
	if depth > 8 {
		return ""
	}
	switch x := v.(type) {
	case *ssa.UnOp:
		if fa, ok := x.X.(*ssa.FieldAddr); ok {
			k := fieldKeyOf(fa.X, fa.Field)
			if k == "pokerface.Meta.Deck" {
				return k
			}
			for _, cf := range cardFields {
				if k == cf {
					return k
				}
			}
		}
	case *ssa.Slice:
		return cardSliceSource(x.X, depth+1)
	case *ssa.Phi:
		for _, e := range x.Edges {
			if r := cardSliceSource(e, depth+1); r != "" {
				return r
			}
		}
	case *ssa.ChangeType:
		return cardSliceSource(x.X, depth+1)
	}
	return ""
}

func sortedFns(m map[*ssa.Function]bool) []*ssa.Function {
	var out []*ssa.Function
	for f := range m {
		out = append(out, f)
	}
	sort.Slice(out, func(i, j int) bool { return fnKey(out[i]) < fnKey(out[j]) })
	return out
}

// sliceNotFresh returns "" when the slice value is backed by an array allocated during this call
// on every path, and otherwise says what it may share. append onto a zero-capacity or nil slice
// allocates; append onto anything else may write into the first operand's array.
func sliceNotFresh(v ssa.Value, seen map[ssa.Value]bool, depth int) string {
	if seen[v] || depth > 6 {
		return ""
	}
	seen[v] = true
	switch x := v.(type) {
	case *ssa.MakeSlice:
		return ""
	case *ssa.Const:
		if x.IsNil() {
			return ""
		}
	case *ssa.Phi:
		for _, e := range x.Edges {
			if why := sliceNotFresh(e, seen, depth); why != "" {
				return why
			}
		}
		return ""
	case *ssa.Slice:
		// s[:0:0]: capacity zero, whatever is appended is newly allocated
		if x.Max != nil {
			if m, ok := constInt(x.Max); ok && m == 0 {
				return ""
			}
		}
		if _, isAlloc := x.X.(*ssa.Alloc); isAlloc {
			return "" // a slice of a fresh array (composite literal)
		}
		return sliceNotFresh(x.X, seen, depth)
	case *ssa.Call:
		if b, ok := x.Call.Value.(*ssa.Builtin); ok && b.Name() == "append" {
			return sliceNotFresh(x.Call.Args[0], seen, depth)
		}
		if f := x.Call.StaticCallee(); f != nil && inModule(f) && f.Blocks != nil {
			for _, b := range f.Blocks {
				if r, ok := b.Instrs[len(b.Instrs)-1].(*ssa.Return); ok && len(r.Results) >= 1 {
					if why := sliceNotFresh(r.Results[0], seen, depth+1); why != "" {
						return why
					}
				}
			}
			return ""
		}
		if n := extCalleeName(x.Common()); n == "slices.Clone" {
			return ""
		}
	case *ssa.UnOp:
		if g, ok := x.X.(*ssa.Global); ok {
			return "the result can share the array of the package variable " + g.Name()
		}
	}
	return "the result is built on " + v.String() + " (" + fmt.Sprintf("%T", v) + "), which outlives the call"
}
