package main

import (
	"fmt"
	"go/ast"
	"go/token"
	"go/types"
	"os"
	"sort"
	"strings"
	"time"

	"golang.org/x/tools/go/callgraph"
	"golang.org/x/tools/go/callgraph/cha"
	"golang.org/x/tools/go/callgraph/vta"
	"golang.org/x/tools/go/packages"
	"golang.org/x/tools/go/ssa"
	"golang.org/x/tools/go/ssa/ssautil"
)

const modPath = "github.com/weedbox/pokerface"

// Prog is the resolved program every rule works on: type-checked packages of the
// module under /repo, their SSA form and a few indexes.
type Prog struct {
	Dir    string
	Fset   *token.FileSet
	Pkgs   []*packages.Package          // module packages only
	ByPath map[string]*packages.Package // import path -> package
	SSA    *ssa.Program
	SPkgs  map[string]*ssa.Package // import path -> ssa package
	Funcs  []*ssa.Function         // all source functions of the module (incl. anonymous)
	CG     *callgraph.Graph        // built lazily
	cgKind string

	idx *Index // E1, built lazily

	implCache    map[string][]*ssa.Function
	nilFns       map[*ssa.Function]bool // functions whose error result is always nil
	guardHelpers map[*ssa.Function]bool
}

type loadOpts struct {
	dir   string
	tags  string
	goarh string
}

func loadProg(o loadOpts) (*Prog, error) {
	// fast path: dependencies from export data (build cache); fall back to type-checking
	// everything from source when that fails (cold or read-only cache).
	if os.Getenv("PFVERIFY_ALLSYNTAX") != "1" {
		if p, err := loadProgMode(o, packages.LoadSyntax); err == nil {
			return p, nil
		}
	}
	return loadProgMode(o, packages.LoadAllSyntax)
}

func loadProgMode(o loadOpts, mode packages.LoadMode) (*Prog, error) {
	env := append(os.Environ(),
		"GOFLAGS=-mod=readonly",
		"GOWORK=off",
		"GOPROXY=off",
		"GOSUMDB=off",
		"GOTOOLCHAIN=local",
	)
	if o.goarh != "" {
		env = append(env, "GOARCH="+o.goarh)
	}
	cfg := &packages.Config{
		Mode:  mode,
		Dir:   o.dir,
		Tests: false,
		Env:   env,
	}
	if o.tags != "" {
		cfg.BuildFlags = []string{"-tags=" + o.tags}
	}
	t0 := time.Now()
	defer func() {
		if os.Getenv("PFVERIFY_TIMING") != "" {
			fmt.Fprintf(os.Stderr, "load total %.1fs\n", time.Since(t0).Seconds())
		}
	}()
	initial, err := packages.Load(cfg, "./...")
	if os.Getenv("PFVERIFY_TIMING") != "" {
		fmt.Fprintf(os.Stderr, "packages.Load %.1fs\n", time.Since(t0).Seconds())
	}
	if err != nil {
		return nil, fmt.Errorf("packages.Load: %v", err)
	}
	p := &Prog{Dir: o.dir, ByPath: map[string]*packages.Package{}, SPkgs: map[string]*ssa.Package{}}
	var errs []string
	for _, pk := range initial {
		if !strings.HasPrefix(pk.PkgPath, modPath) {
			continue
		}
		for _, e := range pk.Errors {
			errs = append(errs, e.Error())
		}
		p.Pkgs = append(p.Pkgs, pk)
		p.ByPath[pk.PkgPath] = pk
		p.Fset = pk.Fset
	}
	if len(errs) > 0 {
		return nil, fmt.Errorf("type/load errors in /repo: %s", strings.Join(errs, "; "))
	}
	sort.Slice(p.Pkgs, func(i, j int) bool { return p.Pkgs[i].PkgPath < p.Pkgs[j].PkgPath })
	if len(p.Pkgs) < 12 {
		return nil, fmt.Errorf("only %d module packages loaded from %s (expected >= 12)", len(p.Pkgs), o.dir)
	}
	// unsafe/reflect must be absent from the engine packages (memory abstraction relies on it)
	prog, spkgs := ssautil.Packages(initial, ssa.BuilderMode(0))
	prog.Build()
	p.SSA = prog
	for i, sp := range spkgs {
		if sp == nil {
			continue
		}
		if strings.HasPrefix(initial[i].PkgPath, modPath) {
			p.SPkgs[initial[i].PkgPath] = sp
		}
	}
	// source functions of the module
	for fn := range ssautil.AllFunctions(prog) {
		// instances of the module's own generic helpers (countIf[T], filter[T]) are source
		// functions too: their bodies are the generic's body with the types filled in
		if fn.Pkg == nil || (fn.Synthetic != "" && fn.Origin() == nil) {
			continue
		}
		if _, ok := p.SPkgs[fn.Pkg.Pkg.Path()]; !ok {
			continue
		}
		if fn.Blocks == nil {
			continue
		}
		p.Funcs = append(p.Funcs, fn)
	}
	sort.Slice(p.Funcs, func(i, j int) bool { return fnKey(p.Funcs[i]) < fnKey(p.Funcs[j]) })
	return p, nil
}

// fnKey gives a stable, human-readable key for a function: pkg.(Recv).Name or pkg.Name
// (anonymous functions get parent$N).
func fnKey(fn *ssa.Function) string {
	if fn == nil {
		return "<nil>"
	}
	if fn.Parent() != nil {
		return fnKey(fn.Parent()) + "$" + strings.TrimPrefix(fn.Name(), fn.Parent().Name()+"$")
	}
	pkg := ""
	if fn.Pkg != nil {
		pkg = shortPkg(fn.Pkg.Pkg.Path())
	} else if fn.Object() != nil && fn.Object().Pkg() != nil {
		pkg = shortPkg(fn.Object().Pkg().Path())
	}
	if fn.Signature.Recv() != nil {
		return pkg + ".(" + recvName(fn.Signature.Recv().Type()) + ")." + fn.Name()
	}
	return pkg + "." + fn.Name()
}

func shortPkg(path string) string {
	if path == modPath {
		return "pokerface"
	}
	return strings.TrimPrefix(path, modPath+"/")
}

func recvName(t types.Type) string {
	star := ""
	if pt, ok := t.(*types.Pointer); ok {
		star = "*"
		t = pt.Elem()
	}
	if n, ok := t.(*types.Named); ok {
		return star + n.Obj().Name()
	}
	return star + t.String()
}

// Func finds a function or method by package (short name, e.g. "pokerface", "seat_manager"),
// receiver type name ("" for package-level functions; pointer-ness ignored) and name.
func (p *Prog) Func(pkg, recv, name string) *ssa.Function {
	for _, fn := range p.Funcs {
		if fn.Parent() != nil || fn.Name() != name || fn.Pkg == nil {
			continue
		}
		if shortPkg(fn.Pkg.Pkg.Path()) != pkg {
			continue
		}
		r := ""
		if fn.Signature.Recv() != nil {
			r = strings.TrimPrefix(recvName(fn.Signature.Recv().Type()), "*")
		}
		if r == recv {
			return fn
		}
	}
	return nil
}

// MethodsOf lists source methods declared on the named type (pointer or value receiver).
func (p *Prog) MethodsOf(pkg, recv string) []*ssa.Function {
	var out []*ssa.Function
	for _, fn := range p.Funcs {
		if fn.Parent() != nil || fn.Pkg == nil || fn.Signature.Recv() == nil {
			continue
		}
		if shortPkg(fn.Pkg.Pkg.Path()) != pkg {
			continue
		}
		if strings.TrimPrefix(recvName(fn.Signature.Recv().Type()), "*") == recv {
			out = append(out, fn)
		}
	}
	return out
}

func (p *Prog) Pos(pos token.Pos) string {
	if !pos.IsValid() {
		return "-"
	}
	ps := p.Fset.Position(pos)
	f := ps.Filename
	if strings.HasPrefix(f, p.Dir+"/") {
		f = strings.TrimPrefix(f, p.Dir+"/")
	}
	return fmt.Sprintf("%s:%d", f, ps.Line)
}

func (p *Prog) FnPos(fn *ssa.Function) string {
	if fn == nil {
		return "-"
	}
	return p.Pos(fn.Pos())
}

// InstrPos returns the best position for an instruction (falls back to enclosing function).
func (p *Prog) InstrPos(in ssa.Instruction) string {
	if in == nil {
		return "-"
	}
	if in.Pos().IsValid() {
		return p.Pos(in.Pos())
	}
	// try operands
	var ops []*ssa.Value
	for _, op := range in.Operands(ops) {
		if *op != nil && (*op).Pos().IsValid() {
			return p.Pos((*op).Pos())
		}
	}
	return p.FnPos(in.Parent())
}

// CallGraph builds (once) the call graph: CHA (quick) or VTA refined from CHA (thorough).
func (p *Prog) CallGraph(kind string) *callgraph.Graph {
	if p.CG != nil && p.cgKind == kind {
		return p.CG
	}
	g := cha.CallGraph(p.SSA)
	if kind == "vta" {
		g = vta.CallGraph(ssautil.AllFunctions(p.SSA), g)
	}
	p.CG = g
	p.cgKind = kind
	return g
}

// Implementations returns the source methods in the module that may be the target of an
// interface method call (CHA restricted to module types).
func (p *Prog) Implementations(iface *types.Interface, method string) []*ssa.Function {
	ck := iface.String() + "#" + method
	if p.implCache == nil {
		p.implCache = map[string][]*ssa.Function{}
	}
	if r, ok := p.implCache[ck]; ok {
		return r
	}
	out := p.implementations(iface, method)
	p.implCache[ck] = out
	return out
}

func (p *Prog) implementations(iface *types.Interface, method string) []*ssa.Function {
	var out []*ssa.Function
	seen := map[*ssa.Function]bool{}
	for _, pk := range p.Pkgs {
		sc := pk.Types.Scope()
		for _, n := range sc.Names() {
			tn, ok := sc.Lookup(n).(*types.TypeName)
			if !ok {
				continue
			}
			for _, t := range []types.Type{tn.Type(), types.NewPointer(tn.Type())} {
				if types.IsInterface(t) {
					continue
				}
				if !types.Implements(t, iface) {
					continue
				}
				ms := p.SSA.MethodSets.MethodSet(t)
				sel := ms.Lookup(tn.Pkg(), method)
				if sel == nil {
					// exported method from another package
					for i := 0; i < ms.Len(); i++ {
						if ms.At(i).Obj().Name() == method {
							sel = ms.At(i)
						}
					}
				}
				if sel == nil {
					continue
				}
				fn := p.SSA.MethodValue(sel)
				if fn == nil {
					continue
				}
				// unwrap pointer-receiver wrappers
				if fn.Synthetic != "" {
					if obj, ok := sel.Obj().(*types.Func); ok {
						if f2 := p.SSA.FuncValue(obj); f2 != nil {
							fn = f2
						}
					}
				}
				if !seen[fn] {
					seen[fn] = true
					out = append(out, fn)
				}
			}
		}
	}
	sort.Slice(out, func(i, j int) bool { return fnKey(out[i]) < fnKey(out[j]) })
	return out
}

// Callees resolves the possible repo-local targets of a call instruction: the static
// callee, or all module implementations of the invoked interface method.
func (p *Prog) Callees(c *ssa.CallCommon) []*ssa.Function {
	if c.IsInvoke() {
		it, ok := c.Value.Type().Underlying().(*types.Interface)
		if !ok {
			return nil
		}
		return p.Implementations(it, c.Method.Name())
	}
	if f := c.StaticCallee(); f != nil {
		return []*ssa.Function{f}
	}
	return nil
}

func inModule(fn *ssa.Function) bool {
	if fn == nil {
		return false
	}
	if fn.Pkg != nil {
		return strings.HasPrefix(fn.Pkg.Pkg.Path(), modPath)
	}
	if fn.Parent() != nil {
		return inModule(fn.Parent())
	}
	return false
}

// FileOf returns the AST file containing pos.
func (p *Prog) FileOf(pos token.Pos) (*packages.Package, *ast.File) {
	for _, pk := range p.Pkgs {
		for _, f := range pk.Syntax {
			if f.Pos() <= pos && pos <= f.End() {
				return pk, f
			}
		}
	}
	return nil, nil
}
