package main

import (
	"fmt"
	"strings"

	"golang.org/x/tools/go/ssa"
)

func init() {
	register(&propDef{
		ID: "C11", Level: "other", Run: withShared(runC11, share{"C13", runC13, ruleIs("min-raise-init")}, share{"C12", runC12, ruleIs("min-raise-owner")}),
		Explanation: "The situation-to-actions table of GetAvailableActions is extracted as path conditions over {Fold, StackSize, Wager, InitialStackSize, CurrentWager, PreviousRaiseSize, MiniBet} and compared with the property's sentence on every assignment of a bounded integer grid (all orderings of the terms; state constraints: non-negative, StackSize = InitialStackSize - Wager): exactly one row applies and its offer satisfies the reference. Check/Fold/Pass reach no chip mover and store no chip account; Allin passes the stack, Bet its parameter, Call the difference to the wager to match; the chip mover's per-branch affine summary gives Wager' = Wager + chips and CurrentWager' = Wager' when higher, all-in commits InitialStackSize in total. Does NOT decide reachability of each situation.",
		Trusted:     commonTrusted,
		Assumptions: []string{"state constraints used for the grid: all chip quantities >= 0, StackSize = InitialStackSize - Wager (C01 identity I2)", "grid 0..6 (quick) / 0..9 (thorough): complete for predicates that compare unit-coefficient sums of at most three terms"},
		NotCovered:  "reachability of each situation; effect sizes at stack boundaries as values",
	})
}

// chipMover resolves, by role, the routine that moves chips: the function that stores
// PlayerState.Wager and is called from at least two action methods.
func (c *Ctx) chipMover(ea *engineAnchors) *ssa.Function {
	ix := c.P.Index()
	acts := c.actionMethods(ea)
	var cands []*ssa.Function
	for _, w := range ix.Writers("pokerface.PlayerState.Wager") {
		n := 0
		for _, am := range acts {
			for _, cl := range ix.Callers(w) {
				if cl == am.Fn {
					n++
				}
			}
		}
		if n >= 2 {
			cands = append(cands, w)
		}
	}
	if len(cands) == 0 {
		// the stores may sit in private helpers of the mover (an all-in half and a partial half):
		// the mover is then the non-action method that reaches the store through loop-free private
		// helpers and is called from two or more actions
		isAct := map[*ssa.Function]bool{}
		for _, am := range acts {
			isAct[am.Fn] = true
		}
		for _, fn := range c.P.MethodsOf("pokerface", ea.playerImpl) {
			fi := ix.Info[fn]
			if fi == nil || isAct[fn] || !fi.TWrites["pokerface.PlayerState.Wager"] {
				continue
			}
			viaHelpers := false
			for _, cc := range fi.Calls {
				if f := cc.StaticCallee(); f != nil && privateHelper(fn, f) && len(findLoops(f)) == 0 && ix.Info[f] != nil && ix.Info[f].TWrites["pokerface.PlayerState.Wager"] {
					viaHelpers = true
				}
			}
			n := 0
			for _, cl := range ix.Callers(fn) {
				if isAct[cl] {
					n++
				}
			}
			if viaHelpers && n >= 2 {
				cands = append(cands, fn)
			}
		}
	}
	if len(cands) == 1 {
		c.role("chip mover", fnKey(cands[0]))
		return cands[0]
	}
	return nil
}

// chipFields: int64 fields of PlayerState / Status written directly by the chip mover.
func (c *Ctx) chipFields(mover *ssa.Function) map[string]bool {
	out := map[string]bool{}
	if mover == nil {
		return out
	}
	ix := c.P.Index()
	fns := []*ssa.Function{mover}
	// package-private loop-free helpers of the mover count as part of it
	for _, cc := range ix.Info[mover].Calls {
		if f := cc.StaticCallee(); f != nil && privateHelper(mover, f) && len(findLoops(f)) == 0 {
			fns = append(fns, f)
		}
	}
	for f := range c.moverFamily(mover) {
		dup := false
		for _, g := range fns {
			if g == f {
				dup = true
			}
		}
		if !dup {
			fns = append(fns, f)
		}
	}
	for _, f := range fns {
		for _, w := range ix.Info[f].Writes {
			if !strings.HasPrefix(w.Key, "pokerface.PlayerState.") && !strings.HasPrefix(w.Key, "pokerface.Status.") {
				continue
			}
			if st, ok := w.Instr.(*ssa.Store); ok && isIntType(st.Val.Type()) {
				out[w.Key] = true
			}
		}
	}
	return out
}

func findTerm(ts []string, suffix string) string {
	for _, t := range ts {
		if strings.HasSuffix(t, suffix) {
			return t
		}
	}
	return ""
}

func runC11(c *Ctx) {
	p := c.P
	ea := c.engine()
	if ea.playerImpl == "" || ea.gameImpl == "" {
		c.undecided("anchors", "engine-implementations", "-", "pokerface.Player / pokerface.Game do not have exactly one implementation each")
		return
	}
	runOfferTable(c, ea)

	mover := c.chipMover(ea)
	if mover == nil {
		c.undecided("anchors", "chip-mover", "-", "cannot resolve the chip-moving routine (stores PlayerState.Wager, called from >= 2 actions)")
		return
	}
	chip := c.chipFields(mover)
	c.floor("no-chips-on-passive", "chip account fields", len(chip), 3)
	acts := c.actionMethods(ea)
	byConst := map[string]*ssa.Function{}
	for _, am := range acts {
		byConst[am.Const] = am.Fn
	}
	// ---- passive actions
	for _, a := range []string{"check", "fold", "pass"} {
		fn := byConst[a]
		if fn == nil {
			c.bad("no-chips-on-passive", "action:"+a, "-", "no action method guarded by "+a)
			continue
		}
		c.touch(fnKey(fn))
		var bad []string
		// direct or transitive (before Resume) chip writes: look at depth-1 summary events
		s := newSumm(p, 1)
		s.InlineFilter = func(f *ssa.Function) bool { return f.Name() != "Resume" }
		paths, _ := s.Function(fn)
		for _, ps := range paths {
			for _, e := range ps.Events {
				switch e.Kind {
				case "store":
					if chip[e.FKey] {
						bad = append(bad, "stores "+e.Loc+" at "+e.Pos)
					}
				case "call":
					if e.Fn == mover {
						bad = append(bad, "calls the chip mover at "+e.Pos)
					} else if e.Fn != nil && e.Fn.Name() != "Resume" {
						if ti := p.Index().Info[e.Fn]; ti != nil {
							for k := range ti.TWrites {
								if chip[k] {
									bad = append(bad, "calls "+e.Callee+" which writes "+k+" ("+e.Pos+")")
								}
							}
						}
					}
				}
			}
		}
		c.check(len(bad) == 0, "no-chips-on-passive", fnKey(fn), p.FnPos(fn), "moves no chips before re-entering the chain", "a passive action moves chips", uniq(bad, 4)...)
	}

	// ---- amounts passed to the chip mover
	type want struct {
		action string
		check  func(ps *PathSum, amt *Val) (bool, string)
	}
	wants := []want{
		{"allin", func(ps *PathSum, amt *Val) (bool, string) {
			return amt.String() == "PS(recv).StackSize", "all-in pays " + amt.String() + ", expected the remaining stack"
		}},
		{"bet", func(ps *PathSum, amt *Val) (bool, string) {
			return amt.String() == "param:chips" || strings.HasPrefix(amt.String(), "param:"), "bet pays " + amt.String() + ", expected its amount parameter unchanged"
		}},
		{"call", func(ps *PathSum, amt *Val) (bool, string) {
			low := false
			for _, cd := range ps.Conds {
				if ltIs(cd.V, "-GS.Meta.Blind.BB + GS.Status.CurrentWager") {
					low = true
				}
			}
			if low {
				return amt.String() == "GS.Meta.Blind.BB - PS(recv).Wager", "call below the big blind pays " + amt.String() + ", expected BB - Wager"
			}
			return amt.String() == "GS.Status.CurrentWager - PS(recv).Wager", "call pays " + amt.String() + ", expected CurrentWager - Wager"
		}},
	}
	for _, w := range wants {
		fn := byConst[w.action]
		if fn == nil {
			c.bad("amounts", "action:"+w.action, "-", "no action method guarded by "+w.action)
			continue
		}
		c.touch(fnKey(fn))
		s := newSumm(p, 0)
		s.HelperInline = bodyHelpers(fn, mover)
		paths, _ := s.Function(fn)
		n := 0
		var bad []string
		for _, ps := range paths {
			passed := false
			for _, cd := range ps.Conds {
				if a, ok := actionGuardAtom(cd.V); ok && a == w.action && !cd.V.Neg {
					passed = true
				}
			}
			if !passed {
				continue
			}
			var pays []*Event
			for _, e := range ps.Events {
				if e.Kind == "call" && e.Fn == mover {
					pays = append(pays, e)
				}
			}
			if len(pays) == 0 && len(ps.Ret) == 1 {
				// a further refusal after the guard (e.g. an amount check): effect-free sentinel return
				if _, isErr := c.sentinelError(ps.Ret[0]); isErr && len(c.pathEffects(ps)) == 0 {
					continue
				}
			}
			if len(pays) != 1 {
				bad = append(bad, fmt.Sprintf("accepted path calls the chip mover %d times", len(pays)))
				continue
			}
			n++
			if ok, why := w.check(ps, pays[0].Args[1]); !ok {
				bad = append(bad, why+" ("+pays[0].Pos+")")
			}
			if len(pays[0].Args) > 2 && pays[0].Args[2].String() != "true" {
				bad = append(bad, "paid as non-wager ("+pays[0].Pos+")")
			}
		}
		c.check(len(bad) == 0 && n > 0, "amounts", fnKey(fn)+"#amount", p.FnPos(fn), "passes the stated amount to the chip mover as a wager", "wrong amount", uniq(bad, 4)...)
	}
	runPayFacts(c, ea, mover)
}

// runOfferTable: C11/offer-table.
func runOfferTable(c *Ctx, ea *engineAnchors) {
	p := c.P
	offered, paths, fn := c.offeredActions(ea)
	if fn == nil || offered == nil {
		c.undecided("offer-table", "GetAvailableActions", "-", "cannot extract the table (function missing or returns are not lists of constants)")
		return
	}
	c.touch(fnKey(fn))
	c.floor("offer-table", "rows", len(paths), 5)
	ints, bools := tableVars(paths)
	tFold := findTerm(bools, ".Fold")
	tStack := findTerm(ints, ".StackSize")
	tWager := findTerm(ints, ").Wager")
	tInit := findTerm(ints, ".InitialStackSize")
	tCW := findTerm(ints, "Status.CurrentWager")
	tPRS := findTerm(ints, "Status.PreviousRaiseSize")
	tMini := findTerm(ints, "Status.MiniBet")
	missing := []string{}
	for n, t := range map[string]string{"Fold": tFold, "StackSize": tStack, "Wager": tWager, "InitialStackSize": tInit, "CurrentWager": tCW, "MiniBet": tMini} {
		if t == "" {
			missing = append(missing, n)
		}
	}
	if len(missing) > 0 {
		c.bad("offer-table", "GetAvailableActions#terms", p.FnPos(fn), "the offer does not depend on "+strings.Join(missing, ",")+": it cannot be the property's table")
		return
	}
	// enumerate: StackSize derived from InitialStackSize - Wager
	var enumInts []string
	for _, t := range ints {
		if t != tStack {
			enumInts = append(enumInts, t)
		}
	}
	hi := int64(6)
	if c.Tier == "thorough" {
		hi = 9
	}
	if len(enumInts) > 6 {
		hi = 4
	}
	nilAtom := ""
	for _, b := range bools {
		if strings.Contains(b, "nil") {
			nilAtom = b
		}
	}
	var viol []string
	selfErr := ""
	rowsHit := map[*PathSum]int{}
	n := enumGrid(enumInts, 0, hi, bools, func(a Asg) bool {
		a.I[tStack] = a.I[tInit] - a.I[tWager]
		if a.I[tStack] < 0 {
			return false
		}
		if nilAtom != "" && a.B[nilAtom] {
			return false // no player: outside the property
		}
		return true
	}, func(a Asg) bool {
		row, err := selectPath(paths, a)
		if err != "" {
			selfErr = err
			return false
		}
		rowsHit[row]++
		got := map[string]bool{}
		for _, x := range row.Ret[0].Args {
			got[strings.Trim(x.S, `"`)] = true
		}
		fold, stack, wager, init, cw, mini := a.B[tFold], a.I[tStack], a.I[tWager], a.I[tInit], a.I[tCW], a.I[tMini]
		prs := int64(0)
		if tPRS != "" {
			prs = a.I[tPRS]
		}
		fail := func(msg string) {
			if len(viol) < 6 {
				viol = append(viol, fmt.Sprintf("%s — state {%s}: offered %v (row [%s])", msg, a.String(), keysOf(got), row.CondString()))
			}
		}
		known := map[string]bool{"pass": true, "allin": true, "fold": true, "check": true, "call": true, "bet": true, "raise": true}
		for g := range got {
			if !known[g] {
				fail("unknown action " + g)
			}
		}
		if fold || stack == 0 {
			if len(got) != 1 || !got["pass"] {
				fail("a folded or all-in seat must be asked to pass only")
			}
			return len(viol) < 6
		}
		facing := wager < cw
		if !got["allin"] {
			fail("all-in must always be offered to a player with chips")
		}
		if got["pass"] {
			fail("pass offered to a player who can act")
		}
		if got["fold"] != facing {
			fail("fold must be offered exactly when facing a higher wager")
		}
		if got["check"] != !facing {
			fail("check must be offered exactly when not facing a higher wager")
		}
		if facing && init > cw && !got["call"] {
			fail("call must be offered when the wager can be covered with chips to spare")
		}
		if !facing && got["call"] {
			fail("call offered without a wager to call")
		}
		if facing && init <= cw && got["call"] {
			fail("call offered although the wager cannot be covered with chips to spare (the opposite situation)")
		}
		if cw == 0 && init >= mini && !got["bet"] {
			fail("bet must be offered when nobody has wagered and the player holds the minimum bet")
		}
		if cw > 0 && got["bet"] {
			fail("bet offered although a wager stands")
		}
		if cw > 0 && init > cw+prs && init >= mini && !got["raise"] {
			fail("raise must be offered when a wager stands and the player holds more than the minimum raise")
		}
		if cw == 0 && got["raise"] {
			fail("raise offered although nobody has wagered")
		}
		return len(viol) < 6
	})
	c.Sites += n
	if selfErr != "" {
		c.undecided("offer-table", "GetAvailableActions#extraction", p.FnPos(fn), "table self-check failed: "+selfErr)
		return
	}
	c.check(len(viol) == 0, "offer-table", "GetAvailableActions#reference", p.FnPos(fn),
		fmt.Sprintf("%d rows agree with the property's sentence on %d states (grid 0..%d over %d terms)", len(paths), n, hi, len(enumInts)),
		"the offered actions do not fit the situation", viol...)
	// every row is reachable on the grid (no dead row hiding a mistake)
	dead := 0
	for _, ps := range paths {
		if rowsHit[ps] == 0 {
			isNil := false
			for _, cd := range ps.Conds {
				if cd.V.K == KAtom && cd.V.At.Op == "is" && !cd.V.Neg && strings.Contains(cd.V.At.String(), "nil") {
					isNil = true
				}
			}
			if !isNil {
				dead++
			}
		}
	}
	c.check(dead == 0, "offer-table", "GetAvailableActions#rows-exercised", p.FnPos(fn), "every row of the table applies to some state of the grid", fmt.Sprintf("%d row(s) never apply under the state constraints", dead))
}

func keysOf(m map[string]bool) []string { return sortedSet(m) }

// runPayFacts: per-branch affine facts of the chip mover used by C11 (and C12).
func runPayFacts(c *Ctx, ea *engineAnchors, mover *ssa.Function) {
	p := c.P
	c.touch(fnKey(mover))
	s := newSumm(p, 0)
	s.HelperInline = func(f *ssa.Function) bool { return privateHelper(mover, f) && len(findLoops(f)) == 0 }
	paths, cut := s.Function(mover)
	if cut != "" {
		c.undecided("pay-facts", fnKey(mover), p.FnPos(mover), "summary cut: "+cut)
		return
	}
	amt := "param:" + mover.Params[1].Name()
	var bad []string
	nNormal, nAllin := 0, 0
	for _, ps := range paths {
		allin := false
		for _, cd := range ps.Conds {
			if ltIs(cd.V, "PS(recv).StackSize - "+amt+" - 1") {
				allin = true
			}
		}
		w := ps.Store["PS(recv).Wager"]
		st := ps.Store["PS(recv).StackSize"]
		if w == nil || st == nil {
			bad = append(bad, "path ["+ps.CondString()+"] does not update Wager and StackSize")
			continue
		}
		if allin {
			nAllin++
			if w.String() != "PS(recv).InitialStackSize" || st.String() != "0" {
				bad = append(bad, fmt.Sprintf("all-in branch: Wager' = %s, StackSize' = %s (expected InitialStackSize, 0)", w, st))
			}
		} else {
			nNormal++
			if w.String() != "PS(recv).Wager + "+amt {
				bad = append(bad, fmt.Sprintf("normal branch: Wager' = %s (expected Wager + %s)", w, amt))
			}
			// CurrentWager' = Wager' exactly on the isWager paths with CurrentWager < Wager'
			cw := ps.Store["GS.Status.CurrentWager"]
			raised := false
			isW := false
			for _, cd := range ps.Conds {
				if ltIs(cd.V, "GS.Status.CurrentWager - PS(recv).Wager - "+amt) {
					raised = true
				}
				if cd.V.K == KAtom && cd.V.At.Op == "b" && !cd.V.Neg && strings.HasPrefix(cd.V.At.L, "param:") {
					isW = true
				}
			}
			if isW && raised {
				if cw == nil || cw.String() != w.String() {
					bad = append(bad, "a wager above the wager to match does not become the new wager to match")
				}
			} else if cw != nil {
				bad = append(bad, "CurrentWager changed on a path that does not raise it: ["+ps.CondString()+"]")
			}
		}
	}
	c.check(len(bad) == 0 && nNormal > 0 && nAllin > 0, "pay-facts", fnKey(mover), p.FnPos(mover),
		fmt.Sprintf("%d normal and %d all-in branches: Wager'=Wager+chips / InitialStackSize; CurrentWager'=Wager' when higher", nNormal, nAllin),
		"the chip mover does not do what the actions say", uniq(bad, 5)...)
}

// moverFamily: the chip mover together with the loop-free package-private helpers it reaches
// that nobody outside the family calls (an all-in half, a partial half, a pot helper): splitting
// the mover keeps it one routine.
func (c *Ctx) moverFamily(mover *ssa.Function) map[*ssa.Function]bool {
	fam := map[*ssa.Function]bool{}
	if mover == nil {
		return fam
	}
	ix := c.P.Index()
	fam[mover] = true
	for changed, round := true, 0; changed && round < 4; round++ {
		changed = false
		for f := range fam {
			fi := ix.Info[f]
			if fi == nil {
				continue
			}
			for _, cc := range fi.Calls {
				h := cc.StaticCallee()
				if h == nil || fam[h] || !privateHelper(mover, h) || len(findLoops(h)) > 0 {
					continue
				}
				only := true
				for _, cl := range ix.Callers(h) {
					if !fam[cl] {
						only = false
					}
				}
				if only {
					fam[h] = true
					changed = true
				}
			}
		}
	}
	return fam
}
