package main

import (
	"fmt"
	"go/token"
	"strings"

	"golang.org/x/tools/go/ssa"
)

func init() {
	register(&propDef{
		ID: "C02", Level: "other", Run: withShared(runC02, share{"C10", runC10, ruleIs("recompute-on-deal", "one-hand", "enumeration-complete")}, share{"C01", runC01, ruleIs("pots-refreshed", "pot-feed", "pot-totals-from-levels")}),
		Explanation: "Structural necessary conditions of a fair showdown, decided on every path: a folded player enters every ranking with strength 0 and a live player with their published strength; a player is ranked in a contribution level only under an equality test with one of that level's contributors; every published pot and every level of it is forwarded to the settlement, every pot and level is visited, and for each level both the winner and the loser routine run; winners are the first group of the groups sorted by score in descending order and losers everybody else; each winner's share of a level is the integer quotient of the level total by the number of winners, plus one for a number of winners given by the remainder (so shares differ by at most one chip), and each loser loses exactly the level's wager. Winner shares are Total/len(winners) plus one chip for exactly remainder-many winners; levels never share a contributor array; layers are distinct, sorted ascending, membered by Level <= contribution over all contributions, with step = level minus previous level and total = members x step; hands are re-evaluated on every dealing path (shared with C10). Does NOT decide the numeric outcome for arbitrary contribution vectors (ties across levels, uncalled excess).",
		Trusted:     commonTrusted,
		Assumptions: []string{"sort.Slice orders by the less function given (documented)"},
		NotCovered:  "numeric equality of shares over all contribution/fold/strength vectors, remainder placement across levels, uncalled excess returning to its owner",
	})
}

// checkFoldZero: in the settlement entry, every player gets exactly one UpdateScore; folded
// players with the constant 0, live players with their own published Power.
func checkFoldZero(c *Ctx, rule string) {
	p := c.P
	ix := p.Index()
	ws := ix.Writers("pokerface.GameState.Result")
	if len(ws) != 1 {
		c.undecided(rule, "settlement-entry", "-", "the function storing GameState.Result is not unique: "+fnNames(ws))
		return
	}
	settle := ws[0]
	c.touch(fnKey(settle))
	c.role("settlement entry", fnKey(settle))
	s := newSumm(p, 0)
	// a pure helper computing the score (0 when folded, the published strength otherwise) is read
	// where it is used
	// ... and so is a helper that prepares the settlement (it then holds the loops)
	s.HelperInline = func(f *ssa.Function) bool {
		fi := ix.Info[f]
		return privateHelper(settle, f) && fi != nil && (len(findLoops(f)) > 0 || len(fi.Writes) == 0)
	}
	ok := false
	var bad []string
	for _, hl := range loopsWithHelpers(s, settle) {
		l := hl.L
		ri := analyseRange(l)
		if !loadsField(ri.Coll, "pokerface.GameState.Players") {
			continue
		}
		if !ri.Full || len(l.Exits) != 1 {
			bad = append(bad, "the loop over the players can stop early")
		}
		body, _ := s.LoopBody(hl.Fn, l)
		ok = len(body) > 0
		nFold, nLive := 0, 0
		for _, ps := range body {
			if ps.End != "continue" {
				bad = append(bad, "the loop can stop early: "+ps.End)
				continue
			}
			us := ps.Calls(".UpdateScore")
			if len(us) != 1 {
				bad = append(bad, fmt.Sprintf("a player gets %d scores on path [%s]", len(us), ps.CondString()))
				continue
			}
			idx, score := us[0].Args[1].String(), us[0].Args[2]
			base, f := splitLoc(idx)
			if f != "Idx" || !strings.Contains(base, "GS.Players[iter:") {
				bad = append(bad, "the score is recorded for "+idx+", not for the loop's player")
				continue
			}
			folded := hasCond(ps, func(v *Val) bool { return v.K == KAtom && v.At.Op == "b" && !v.Neg && v.At.L == base+".Fold" })
			live := hasCond(ps, func(v *Val) bool { return v.K == KAtom && v.At.Op == "b" && v.Neg && v.At.L == base+".Fold" })
			switch {
			case folded:
				nFold++
				if v, isC := score.isConstInt(); !isC || v != 0 {
					bad = append(bad, "a folded player is scored with "+score.String()+" instead of 0")
				}
			case live:
				nLive++
				if score.asAff().String() != base+".Combination.Power" {
					bad = append(bad, "a live player is scored with "+score.String()+", not their published Combination.Power")
				}
			default:
				// no fold test on this path: the score must not depend on the hand
				if score.mentions(".Combination") {
					bad = append(bad, "a score derived from the hand is recorded without testing the player's Fold flag: a folded player could win")
				} else if v, isC := score.isConstInt(); !isC || v != 0 {
					bad = append(bad, "score "+score.String()+" recorded without a fold test")
				}
			}
		}
		if nFold == 0 || nLive == 0 {
			bad = append(bad, fmt.Sprintf("expected a folded and a live case, found %d/%d", nFold, nLive))
		}
	}
	c.check(ok && len(bad) == 0, rule, fnKey(settle), p.FnPos(settle), "folded players are scored 0, live players with their own published Power, each exactly once", "showdown strengths are wrong", uniq(bad, 4)...)
}

// fullRangeCalls checks that fn has a full-range loop (no early exit) whose every body path
// makes the given calls once each; returns the body paths.
func (c *Ctx) fullRangeCalls(fn *ssa.Function, collField string, callees ...string) (bool, string, []*PathSum) {
	s := newSumm(c.P, 0)
	s.EngineAliases = false
	// the loop may live in a package-private helper (only when the function has none itself)
	hls := []hostLoop{}
	for _, l := range s.loops(fn) {
		hls = append(hls, hostLoop{fn, l})
	}
	if len(hls) == 0 {
		withPrivateHelpers(s, fn)
		hls = loopsWithHelpers(s, fn)
	}
	for _, hl := range hls {
		l := hl.L
		ri := analyseRange(l)
		if collField != "" && !loadsField(ri.Coll, collField) {
			if prm, ok := ri.Coll.(*ssa.Parameter); !ok || "param:"+prm.Name() != collField {
				continue
			}
		}
		if ri.Kind != "slice" || !ri.Full || len(l.Exits) != 1 {
			return false, "the loop over " + collField + " is not a full range without early exit", nil
		}
		body, _ := s.LoopBody(hl.Fn, l)
		for _, ps := range body {
			if ps.End != "continue" {
				return false, "the loop can stop early (" + ps.End + ")", nil
			}
			for _, cal := range callees {
				if len(ps.Calls(cal)) != 1 {
					return false, fmt.Sprintf("a body path makes %d calls of %s", len(ps.Calls(cal)), cal), nil
				}
			}
		}
		return len(body) > 0, "", body
	}
	return false, "no loop over " + collField, nil
}

func runC02(c *Ctx) {
	p := c.P
	ix := p.Index()
	checkFoldZero(c, "fold-zero")
	checkLayerArith(c, "layer-arith")
	checkRankGrouping(c)

	// ---- level-membership
	lu := p.Func("settlement", "LevelInfo", "UpdateScore")
	if lu == nil {
		c.undecided("level-membership", "LevelInfo.UpdateScore", "-", "not found")
	} else {
		c.touch(fnKey(lu))
		s := newSumm(p, 0)
		s.EngineAliases = false
		paths, _ := s.Function(lu)
		var bad []string
		nAdd := 0
		for _, ps := range paths {
			adds := ps.Calls(".AddContributor")
			if len(adds) == 0 {
				continue
			}
			nAdd++
			// must come after leaving a loop over recv.Contributors through a membership hit
			okHit := false
			for _, e := range ps.Events {
				if e.Kind != "loop" {
					continue
				}
				ri := analyseRange(e.Loop)
				if !loadsField(ri.Coll, "settlement.LevelInfo.Contributors") {
					continue
				}
				body, _ := s.LoopBody(lu, e.Loop)
				for _, bp := range body {
					if strings.HasPrefix(bp.End, "exit") && hasCond(bp, func(v *Val) bool {
						return v.K == KAtom && v.At.Op == "eq" && !v.Neg && strings.Contains(v.At.A.String(), "param:"+lu.Params[1].Name()) && strings.Contains(v.At.A.String(), "recv.Contributors[")
					}) {
						// and this function path is the one leaving through that exit
						for _, cd := range ps.Conds {
							if cd.V.K == KAtom && cd.V.At.Op == "b" && strings.Contains(cd.V.At.L, "exit→"+strings.TrimPrefix(strings.TrimPrefix(bp.End, "exit-return:"), "exit:")) {
								okHit = true
							}
						}
					}
				}
			}
			if !okHit {
				// or after slices.Contains(level's contributors, player) said yes
				if hasCond(ps, func(v *Val) bool {
					return v.K == KAtom && v.At.Op == "b" && !v.Neg && strings.HasPrefix(v.At.L, "slices.Contains") && strings.Contains(v.At.L, "(recv.Contributors, param:"+lu.Params[1].Name()+")")
				}) {
					okHit = true
				}
			}
			if !okHit {
				// or after a membership predicate over the level's contributors said yes
				for _, e := range ps.Events {
					if e.Kind != "call" || e.Fn == nil || len(e.Args) < 2 || e.Args[len(e.Args)-1].String() != "param:"+lu.Params[1].Name() {
						continue
					}
					if v, _ := membershipOfField(e.Fn, "settlement.LevelInfo.Contributors", 0); v != "yes" {
						continue
					}
					call := e.Callee + "("
					if hasCond(ps, func(v *Val) bool {
						return v.K == KAtom && v.At.Op == "b" && !v.Neg && strings.HasPrefix(v.At.L, call)
					}) {
						okHit = true
					}
				}
			}
			if !okHit {
				bad = append(bad, "a player is entered into the level's ranking without an equality test against the level's contributors")
			}
			if adds[0].Args[1].String() != "param:"+lu.Params[2].Name() || adds[0].Args[2].String() != "param:"+lu.Params[1].Name() {
				bad = append(bad, "the ranking entry is ("+adds[0].Args[1].String()+", "+adds[0].Args[2].String()+"), not (score, playerIdx)")
			}
		}
		// also inside loop bodies (if the add is made in the body)
		for _, l := range s.loops(lu) {
			body, _ := s.LoopBody(lu, l)
			for _, bp := range body {
				if len(bp.Calls(".AddContributor")) > 0 {
					nAdd++
					if !hasCond(bp, func(v *Val) bool {
						return v.K == KAtom && v.At.Op == "eq" && !v.Neg && strings.Contains(v.At.A.String(), "param:"+lu.Params[1].Name()) && strings.Contains(v.At.A.String(), "recv.Contributors[")
					}) {
						bad = append(bad, "a player is entered into the level's ranking without an equality test against the level's contributors")
					}
				}
			}
		}
		c.check(len(bad) == 0 && nAdd > 0, "level-membership", fnKey(lu), p.FnPos(lu), "a player is ranked in a level only after matching one of its contributors", "a player can be ranked in a layer they did not pay into", uniq(bad, 3)...)
	}

	// ---- complete-forwarding
	type fwd struct {
		pkg, recv, name, coll string
		callees               []string
		argCheck              func(ps *PathSum) string
	}
	sameElem := func(ev *Event, from int, fields ...string) string {
		var base string
		for i, f := range fields {
			if from+i >= len(ev.Args) {
				return "too few arguments"
			}
			b, fl := splitLoc(ev.Args[from+i].String())
			if fl != f {
				return fmt.Sprintf("argument %d is %s, expected the element's %s", from+i, ev.Args[from+i], f)
			}
			if base == "" {
				base = b
			} else if b != base {
				return "arguments come from different elements"
			}
		}
		if !strings.Contains(base, "[iter:") {
			return "arguments are not fields of the loop element"
		}
		return ""
	}
	var settle *ssa.Function
	if ws := ix.Writers("pokerface.GameState.Result"); len(ws) == 1 {
		settle = ws[0]
	}
	fwds := []fwd{
		{"settlement", "Result", "AddPot", "param:levels", []string{".AddLevel"}, func(ps *PathSum) string {
			return sameElem(ps.Calls(".AddLevel")[0], 1, "Level", "Wager", "Total", "Contributors")
		}},
		{"settlement", "Result", "Calculate", "settlement.Result.Pots", []string{".CalculatePot"}, func(ps *PathSum) string {
			e := ps.Calls(".CalculatePot")[0]
			if !strings.Contains(e.Args[2].String(), "recv.Pots[iter:") || !strings.Contains(e.Args[2].String(), e.Args[1].String()) {
				return "CalculatePot(" + e.Args[1].String() + ", " + e.Args[2].String() + "): index and pot do not belong together"
			}
			return ""
		}},
		{"settlement", "Result", "CalculatePot", "settlement.PotLevel.levels", []string{".CalculateWinnerRewards", ".CalculateLoserResults"}, func(ps *PathSum) string {
			w, l := ps.Calls(".CalculateWinnerRewards")[0], ps.Calls(".CalculateLoserResults")[0]
			if w.Args[2].String() != l.Args[2].String() || !strings.Contains(w.Args[2].String(), "[iter:") {
				return "winner and loser routines do not run on the same level"
			}
			if w.Args[1].String() != "param:potIdx" && !strings.HasPrefix(w.Args[1].String(), "param:") {
				return "pot index not forwarded"
			}
			return ""
		}},
	}
	for _, f := range fwds {
		fn := p.Func(f.pkg, f.recv, f.name)
		if fn == nil {
			c.undecided("complete-forwarding", f.recv+"."+f.name, "-", "not found")
			continue
		}
		c.touch(fnKey(fn))
		ok, why, body := c.fullRangeCalls(fn, f.coll, f.callees...)
		if ok {
			for _, ps := range body {
				if w := f.argCheck(ps); w != "" {
					ok, why = false, w
				}
			}
		}
		if !ok && f.name == "AddPot" {
			// second form: the level records are built in place, one fresh record per element with
			// the element's own four fields
			if w2 := literalForward(c, fn, f.coll, "settlement.LevelInfo.", []string{"Level", "Wager", "Total", "Contributors"}); w2 == "" {
				ok = true
			}
		}
		c.check(ok, "complete-forwarding", fnKey(fn), p.FnPos(fn), "visits every element and forwards it completely", "incomplete forwarding: "+why)
	}
	if settle != nil {
		ok, why, body := c.fullRangeCallsAliased(settle, "pokerface.Status.Pots", ".AddPot")
		if ok {
			for _, ps := range body {
				if w := sameElem(ps.Calls(".AddPot")[0], 1, "Total", "Levels"); w != "" {
					ok, why = false, w
				}
			}
		}
		c.check(ok, "complete-forwarding", fnKey(settle)+"#pots", p.FnPos(settle), "every published pot is forwarded with its own total and levels", "incomplete forwarding of the pots: "+why)
		// Calculate() is called after both loops and before the result is stored
		s := withPrivateHelpers(newSumm(p, 0), settle)
		paths, _ := s.Function(settle)
		okOrder := len(paths) > 0
		for _, ps := range paths {
			nLoop, iCalc, iStore := 0, -1, -1
			for i, e := range ps.Events {
				if e.Kind == "loop" && iCalc < 0 {
					nLoop++
				}
				if e.Kind == "call" && strings.HasSuffix(e.Callee, "(*Result).Calculate") {
					iCalc = i
				}
				if e.Kind == "store" && e.FKey == "pokerface.GameState.Result" {
					iStore = i
				}
			}
			if nLoop < 2 || iCalc < 0 || iStore < iCalc {
				okOrder = false
			}
		}
		c.check(okOrder, "complete-forwarding", fnKey(settle)+"#calculate", p.FnPos(settle), "pots and scores are registered, then Calculate() runs, then the result is stored", "the result is stored without running the calculation after registering pots and scores")
	}
	// Result.UpdateScore reaches every level of every pot
	if ru := p.Func("settlement", "Result", "UpdateScore"); ru == nil {
		c.undecided("complete-forwarding", "Result.UpdateScore", "-", "not found")
	} else {
		c.touch(fnKey(ru))
		s := newSumm(p, 0)
		s.EngineAliases = false
		loops := s.loops(ru)
		ok := len(loops) == 2
		for _, l := range loops {
			ri := analyseRange(l)
			if !ri.Full || len(l.Exits) != 1 {
				ok = false
			}
		}
		inner := 0
		for _, l := range loops {
			body, _ := s.LoopBody(ru, l)
			for _, bp := range body {
				if cs := bp.Calls("(*LevelInfo).UpdateScore"); len(cs) == 1 {
					inner++
					if cs[0].Args[1].String() != "param:"+ru.Params[1].Name() || cs[0].Args[2].String() != "param:"+ru.Params[2].Name() {
						ok = false
					}
				}
			}
		}
		if !(ok && inner == 1) {
			// second form: the per-level step written out - inside the loop over the levels a scan
			// of that level's contributors that enters (score, player) into the level's ranking
			// exactly on a match with the player
			full, scans := 0, 0
			okScan := true
			for _, l := range loops {
				ri := analyseRange(l)
				if ri.Full && len(l.Exits) == 1 {
					full++
					continue
				}
				if !loadsField(ri.Coll, "settlement.LevelInfo.Contributors") {
					okScan = false
					continue
				}
				scans++
				body, _ := s.LoopBody(ru, l)
				for _, bp := range body {
					adds := bp.Calls(".AddContributor")
					hit := hasCond(bp, func(v *Val) bool {
						return v.K == KAtom && v.At.Op == "eq" && !v.Neg && strings.Contains(v.At.A.String(), "param:"+ru.Params[1].Name()) && strings.Contains(v.At.A.String(), ".Contributors[")
					})
					if (len(adds) == 1) != hit {
						okScan = false
					}
					if len(adds) == 1 && (adds[0].Args[1].String() != "param:"+ru.Params[2].Name() || adds[0].Args[2].String() != "param:"+ru.Params[1].Name()) {
						okScan = false
					}
				}
			}
			if full == 2 && scans == 1 && okScan && len(loops) == 3 {
				ok, inner = true, 1
			}
		}
		c.check(ok && inner == 1, "complete-forwarding", fnKey(ru), p.FnPos(ru), "the score is forwarded to every level of every pot", "a score does not reach every level")
	}

	// ---- winner-orientation
	rc := p.Func("settlement", "Rank", "Calculate")
	gw := p.Func("settlement", "Rank", "GetWinners")
	gl := p.Func("settlement", "Rank", "GetLoser")
	if rc == nil || gw == nil || gl == nil {
		c.undecided("winner-orientation", "Rank", "-", "Rank.Calculate / GetWinners / GetLoser not found")
	} else {
		c.touch(fnKey(rc), fnKey(gw), fnKey(gl))
		cl, _ := sortClosure(rc)
		orient := sortOrientation(p, cl, "Score")
		s := newSumm(p, 0)
		s.EngineAliases = false
		wp, _ := s.Function(gw)
		sel := ""
		for _, ps := range wp {
			if len(ps.Ret) == 1 {
				r := ps.Ret[0].String()
				if r == "recv.groups[0].Contributors" {
					sel = "first"
				} else if strings.HasPrefix(r, "recv.groups[len(recv.groups) - 1]") {
					sel = "last"
				}
			}
		}
		okW := (orient == "desc" && sel == "first") || (orient == "asc" && sel == "last")
		c.check(okW, "winner-orientation", fnKey(gw), p.FnPos(gw), fmt.Sprintf("groups sorted %s by score, winners are the %s group", orient, sel), fmt.Sprintf("orientation %q with selection %q: the winners are not the strongest group", orient, sel))
		// the winner routine sorts before asking for the winners
		if wr := p.Func("settlement", "Result", "CalculateWinnerRewards"); wr != nil {
			sp, _ := s.Function(wr)
			okS := len(sp) > 0
			for _, ps := range sp {
				iSort, iWin := -1, -1
				for i, e := range ps.Events {
					if e.Kind == "call" && e.Fn == rc {
						iSort = i
					}
					if e.Kind == "call" && e.Fn == gw && iWin < 0 {
						iWin = i
					}
				}
				if iSort < 0 || iWin < iSort {
					okS = false
				}
			}
			c.check(okS, "winner-orientation", fnKey(wr)+"#sorted-first", p.FnPos(wr), "the ranking is sorted before the winners are read", "winners are read from an unsorted ranking")
		}
		// losers: every group except the winners' one — either a full range over the groups that
		// skips exactly index 0, or a full range over groups[1:] that takes every element
		lb := false
		var why string
		for _, l := range s.loops(gl) {
			ri := analyseRange(l)
			// third form: an index loop from 1 to len(groups)
			if !ri.Full && len(l.Exits) == 1 && sel == "first" {
				if from, coll := indexLoopFrom(l); from == 1 && coll != nil && loadsField(coll, "settlement.Rank.groups") {
					body, _ := s.LoopBody(gl, l)
					lb = len(body) > 0
					for _, bp := range body {
						g := false
						for k, v := range bp.Store {
							if strings.HasPrefix(k, "backedge:") && v.Op == "append" && strings.Contains(v.String(), ".Contributors") && strings.Contains(v.String(), "[iter:") {
								g = true
							}
						}
						if bp.End != "continue" || !g {
							lb = false
							why = "not every remaining group is taken"
						}
					}
					continue
				}
			}
			if !ri.Full || len(l.Exits) != 1 {
				continue
			}
			body, _ := s.LoopBody(gl, l)
			grows := func(bp *PathSum) bool {
				for k, v := range bp.Store {
					if strings.HasPrefix(k, "backedge:") && v.Op == "append" && strings.Contains(v.String(), ".Contributors") {
						return true
					}
				}
				return false
			}
			if loadsField(ri.Coll, "settlement.Rank.groups") {
				lb = len(body) == 2
				for _, bp := range body {
					first := hasCond(bp, func(v *Val) bool {
						return v.K == KAtom && v.At.Op == "eq" && !v.Neg && strings.HasPrefix(v.At.A.String(), "iter:GetLoser.") && v.At.A.C == 1
					})
					if first == grows(bp) && sel == "first" {
						lb = false
						why = "the winners' group is not the one skipped"
					}
				}
			} else if sl, ok := ri.Coll.(*ssa.Slice); ok && loadsField(sl.X, "settlement.Rank.groups") && sl.High == nil {
				if lo, isC := constInt(sl.Low); isC && lo == 1 && sel == "first" {
					lb = len(body) > 0
					for _, bp := range body {
						if bp.End != "continue" || !grows(bp) {
							lb = false
							why = "not every remaining group is taken"
						}
					}
				}
			}
		}
		c.check(lb, "winner-orientation", fnKey(gl), p.FnPos(gl), "losers are the members of every group but the first", "losers are not exactly the other groups: "+why)
	}

	runLevelOwnership(c)

	checkShareShape(c, "share-shape")
}

// checkShareShape: winners split a level into quotient shares plus exactly remainder extra chips;
// losers lose exactly the level wager (C02/share-shape, cross-listed as C01/share-sum: the shares of a
// level add up to its total, which the zero-sum of the result needs).
func checkShareShape(c *Ctx, ruleName string) {
	p := c.P
	// ---- share-arithmetic
	if wr := p.Func("settlement", "Result", "CalculateWinnerRewards"); wr == nil {
		c.undecided(ruleName, "CalculateWinnerRewards", "-", "not found")
	} else {
		c.touch(fnKey(wr))
		s := newSumm(p, 0)
		s.EngineAliases = false
		s.HelperInline = func(f *ssa.Function) bool { return privateHelper(wr, f) && len(findLoops(f)) == 0 }
		var bad []string
		found := false
		lvl := "param:" + wr.Params[2].Name()
		for _, l := range s.loops(wr) {
			ri := analyseRange(l)
			if !ri.Full || len(l.Exits) != 1 {
				bad = append(bad, "the loop over the winners can stop early")
			}
			body, _ := s.LoopBody(wr, l)
			nPlus, nBase := 0, 0
			for _, bp := range body {
				us := bp.Calls("(*Result).Update")
				if bp.End != "continue" || len(us) != 1 {
					bad = append(bad, "a winner is not credited exactly once")
					continue
				}
				found = true
				e := us[0]
				// Update(potIdx, winner, l.Wager, reward - l.Wager)
				if e.Args[3].String() != lvl+".Wager" {
					bad = append(bad, "wager argument is "+e.Args[3].String())
				}
				amt := e.Args[4].asAff().add(affTerm(lvl+".Wager"), 1) // reward
				q := ""
				for _, t := range amt.terms() {
					if strings.HasPrefix(t, "op/("+lvl+".Total, len(") && amt.T[t] == 1 {
						q = t
					}
				}
				if q == "" || len(amt.T) != 1 || (amt.C != 0 && amt.C != 1) {
					bad = append(bad, "a winner's reward is "+amt.String()+", expected Total / len(winners) or one chip more")
					continue
				}
				if !strings.Contains(e.Args[2].String(), "[iter:") {
					bad = append(bad, "the credited player is not the loop's winner")
				}
				if amt.C == 1 {
					nPlus++
					// the extra chip is given under a comparison of the loop index with Total % len(winners)
					rem := strings.Replace(q, "op/(", "op%(", 1)
					if !hasCond(bp, func(v *Val) bool { return v.K == KAtom && v.At.A != nil && v.At.A.T[rem] != 0 }) {
						bad = append(bad, "the extra chip is not governed by the remainder Total % len(winners)")
					}
				} else {
					nBase++
				}
			}
			if nPlus == 0 || nBase == 0 {
				bad = append(bad, "expected a quotient case and a quotient+1 case")
			}
			// the extra chips handed out add up to exactly the remainder: for every number of
			// winners n and remainder R < n, the number of loop indices on the quotient+1 row is R
			ints, bools := tableVars(body)
			var tRem, tLen, tIdx string
			for _, t := range ints {
				switch {
				case strings.HasPrefix(t, "op%("+lvl+".Total, len("):
					tRem = t
				case strings.HasPrefix(t, "len(") && strings.Contains(t, "GetWinners("):
					tLen = t
				case strings.HasPrefix(t, "iter:"):
					tIdx = t
				}
			}
			// a range loop's counter runs one behind the position (it starts at -1), an index
			// loop's counter is the position
			idxBase := int64(-1)
			for _, in := range l.Header.Instrs {
				if ph, ok := in.(*ssa.Phi); ok && tIdx != "" && strings.HasSuffix(tIdx, "."+ph.Name()) {
					if init, _ := phiInitStep(l, ph); init != nil {
						if k, ok := constInt(init); ok {
							idxBase = k
						}
					}
				}
			}
			if tRem == "" || tIdx == "" {
				bad = append(bad, "the extra chip does not depend on both the winner's position and the remainder Total % len(winners)")
			} else {
				for n := int64(1); n <= 5 && len(bad) == 0; n++ {
					for R := int64(0); R < n && len(bad) == 0; R++ {
						for _, bv := range boolCombos(bools) {
							extra := int64(0)
							for i := int64(0); i < n; i++ {
								a := Asg{I: map[string]int64{}, B: bv}
								for _, t := range ints {
									a.I[t] = 0
								}
								a.I[tIdx] = i + idxBase
								a.I[tRem] = R
								if tLen != "" {
									a.I[tLen] = n
								}
								row, err := selectBodyPath(body, a)
								if err != "" || row == nil {
									bad = append(bad, "cannot evaluate the share table: "+err)
									break
								}
								us := row.Calls("(*Result).Update")
								if len(us) == 1 {
									amt := us[0].Args[4].asAff().add(affTerm(lvl+".Wager"), 1)
									extra += amt.C
								}
							}
							if extra != R && len(bad) == 0 {
								bad = append(bad, fmt.Sprintf("with %d tied winners and a remainder of %d, %d extra chip(s) are handed out: chips are lost or created, or shares differ by more than one", n, R, extra))
							}
						}
					}
				}
			}
		}
		c.check(found && len(bad) == 0, ruleName, fnKey(wr), p.FnPos(wr), "each winner gets Total/len(winners), plus one chip for as many winners as the remainder says", "winner shares are not an equal split with remainder", uniq(bad, 4)...)
	}
	if lr := p.Func("settlement", "Result", "CalculateLoserResults"); lr == nil {
		c.undecided(ruleName, "CalculateLoserResults", "-", "not found")
	} else {
		c.touch(fnKey(lr))
		lvl := "param:" + lr.Params[2].Name()
		ok, why, body := c.fullRangeCalls(lr, "", "(*Result).Update")
		if ok {
			for _, bp := range body {
				e := bp.Calls("(*Result).Update")[0]
				if e.Args[4].String() != "-"+lvl+".Wager" || e.Args[3].String() != lvl+".Wager" || !strings.Contains(e.Args[2].String(), "GetLoser(") {
					ok, why = false, "a loser is charged "+e.Args[4].String()+", expected exactly the level's wager"
				}
			}
		}
		c.check(ok, ruleName, fnKey(lr), p.FnPos(lr), "every loser of a level loses exactly that level's wager", "losers are charged wrongly: "+why)
	}
}

// runLevelOwnership: a level's contributor slice is never built on top of another level's
// slice (append to a foreign slice may share its backing array: a later append through the
// other owner overwrites this level's entries).
func runLevelOwnership(c *Ctx) {
	p := c.P
	ix := p.Index()
	n := 0
	for _, key := range []string{"pot.Level.Contributors", "settlement.RankGroup.Contributors"} {
		for _, w := range ix.AnyWriters(key) {
			c.touch(fnKey(w))
			s := newSumm(p, 0)
			s.EngineAliases = false
			fp, _ := s.Function(w)
			sets := [][]*PathSum{fp}
			for _, l := range s.loops(w) {
				bp, _ := s.LoopBody(w, l)
				sets = append(sets, bp)
			}
			var bad []string
			for _, set := range sets {
				for _, ps := range set {
					for _, e := range ps.storesTo(key) {
						n++
						v := e.Val
						ok := isEmptyVal(v) || v.Op == "list" || v.Op == "makeslice" || strings.HasPrefix(v.String(), "param:")
						if v.Op == "append" && len(v.Args) >= 1 {
							first := v.Args[0].String()
							ok = first == e.Loc || isEmptyVal(v.Args[0]) || v.Args[0].Op == "list" || v.Args[0].Op == "makeslice" || v.Args[0].Op == "append" && isEmptyVal(v.Args[0].Args[0])
						}
						// the result of a function that returns a newly allocated slice on every path
						if !ok {
							if st, isSt := e.Instr.(*ssa.Store); isSt {
								if call, isCall := st.Val.(*ssa.Call); isCall && call.Call.StaticCallee() != nil && sliceNotFresh(call, map[ssa.Value]bool{}, 0) == "" {
									ok = true
								}
							}
						}
						// a local list allocated in this very iteration, filled by a pass, then stored
						if !ok {
							if st, isSt := e.Instr.(*ssa.Store); isSt {
								var inner *Loop
								for _, l := range findLoops(w) {
									if l.Blocks[st.Block()] && (inner == nil || len(l.Blocks) < len(inner.Blocks)) {
										inner = l
									}
								}
								if inner != nil && freshWithinLoop(st.Val, inner, map[ssa.Value]bool{}, 0) {
									ok = true
								}
							}
						}
						if !ok {
							bad = append(bad, fmt.Sprintf("%s := %s at %s: built on a slice owned by somebody else", e.Loc, v, e.Pos))
						}
					}
				}
			}
			c.check(len(bad) == 0, "level-ownership", fnKey(w)+"#"+key, p.FnPos(w), "contributor lists are fresh or extended in place by their owner", "two levels can share one backing array", uniq(bad, 3)...)
		}
	}
	c.floor("level-ownership", "stores to contributor lists", n, 2)
}

func boolCombos(names []string) []map[string]bool {
	out := []map[string]bool{{}}
	for _, n := range names {
		var next []map[string]bool
		for _, m := range out {
			for _, b := range []bool{false, true} {
				m2 := map[string]bool{}
				for k, v := range m {
					m2[k] = v
				}
				m2[n] = b
				next = append(next, m2)
			}
		}
		out = next
	}
	return out
}

// fullRangeCallsAliased is fullRangeCalls with the engine alias normalisation on.
func (c *Ctx) fullRangeCallsAliased(fn *ssa.Function, collField string, callees ...string) (bool, string, []*PathSum) {
	s := withPrivateHelpers(newSumm(c.P, 0), fn)
	for _, hl := range loopsWithHelpers(s, fn) {
		l := hl.L
		ri := analyseRange(l)
		if !loadsField(ri.Coll, collField) {
			continue
		}
		if ri.Kind != "slice" || !ri.Full || len(l.Exits) != 1 {
			return false, "the loop over " + collField + " is not a full range without early exit", nil
		}
		body, _ := s.LoopBody(hl.Fn, l)
		for _, ps := range body {
			if ps.End != "continue" {
				return false, "the loop can stop early (" + ps.End + ")", nil
			}
			for _, cal := range callees {
				if len(ps.Calls(cal)) != 1 {
					return false, fmt.Sprintf("a body path makes %d calls of %s", len(ps.Calls(cal)), cal), nil
				}
			}
		}
		return len(body) > 0, "", body
	}
	return false, "no loop over " + collField, nil
}

// checkRankGrouping: players with equal scores end up in ONE group (that is what makes a tie a
// tie): a score joins the existing group found by a scan of ALL groups for an equal score, and a
// new group is made only after that scan found none. The groups are only sorted later, so any
// search that assumes an order (a binary search) can miss the equal group while scores arrive.
func checkRankGrouping(c *Ctx) {
	p := c.P
	ix := p.Index()
	const rule = "rank-grouping"
	var adder *ssa.Function
	for _, w := range ix.Writers("settlement.Rank.groups") {
		if w.Signature.Params().Len() >= 1 {
			adder = w
		}
	}
	if adder == nil {
		c.undecided(rule, "group-adder", "-", "no function appends to Rank.groups")
		return
	}
	c.touch(fnKey(adder))
	s := newSumm(p, 0)
	s.EngineAliases = false
	s.HelperInline = func(f *ssa.Function) bool { return privateHelper(adder, f) }
	paths, _ := s.Function(adder)
	var bad []string
	var loopEv *Event
	seen := map[*Loop]bool{}
	n := 0
	for _, ps := range paths {
		for _, e := range ps.Events {
			if e.Kind == "loop" && !seen[e.Loop] {
				seen[e.Loop] = true
				n++
				loopEv = e
			}
		}
	}
	if n != 1 {
		bad = append(bad, fmt.Sprintf("the search for a group with the same score is not one scan over the groups (%d loops)", n))
	} else {
		ri := analyseRange(loopEv.Loop)
		if !ri.Full || !loadsField(ri.Coll, "settlement.Rank.groups") {
			bad = append(bad, "the scan does not cover all groups")
		}
		body, _ := s.LoopBody(loopEv.InFn, loopEv.Loop)
		nHit := 0
		for _, bp := range body {
			eq := false
			for _, cd := range bp.Conds {
				if cd.V.K == KAtom && cd.V.At.Op == "eq" && !cd.V.Neg && strings.Contains(cd.V.At.A.String(), ".Score") && strings.Contains(cd.V.At.A.String(), "param:") {
					eq = true
				}
			}
			if strings.HasPrefix(bp.End, "exit") {
				if !eq {
					bad = append(bad, "the scan is left on something other than an equal score: ["+bp.CondString()+"]")
				} else {
					nHit++
				}
			}
		}
		if nHit == 0 {
			bad = append(bad, "no group with an equal score is ever joined")
		}
	}
	for _, ps := range paths {
		if len(ps.storesTo("settlement.Rank.groups")) == 0 {
			continue
		}
		if !hasCond(ps, func(v *Val) bool { return v.K == KAtom && v.At.Op == "b" && strings.Contains(v.At.L, "exit→") }) {
			bad = append(bad, "a new group is made without having scanned the existing ones")
		}
	}
	c.check(len(bad) == 0, rule, fnKey(adder), p.FnPos(adder), "a score joins the group found by a full scan for an equal score, else a new group is made", "players with equal scores can end up in different groups", uniq(bad, 3)...)
}

// indexLoopFrom: for a counting loop `for i := K; i < len(coll); i++` the constant K and the
// collection; (-1, nil) otherwise.
func indexLoopFrom(l *Loop) (int64, ssa.Value) {
	iff, ok := l.Header.Instrs[len(l.Header.Instrs)-1].(*ssa.If)
	if !ok {
		return -1, nil
	}
	bo, ok := iff.Cond.(*ssa.BinOp)
	if !ok || bo.Op != token.LSS {
		return -1, nil
	}
	ph, ok := bo.X.(*ssa.Phi)
	if !ok || ph.Block() != l.Header {
		return -1, nil
	}
	init, step := phiInitStep(l, ph)
	if init == nil || step == nil || !isPlusOne(step, ph) {
		return -1, nil
	}
	k, ok := constInt(init)
	if !ok {
		return -1, nil
	}
	call, ok := bo.Y.(*ssa.Call)
	if !ok {
		return -1, nil
	}
	if bi, ok := call.Call.Value.(*ssa.Builtin); !ok || bi.Name() != "len" {
		return -1, nil
	}
	return k, call.Call.Args[0]
}

// freshWithinLoop: every root of the slice value v (through merges and appends onto itself) is a
// slice made inside loop l - a new one per iteration - and nothing else.
func freshWithinLoop(v ssa.Value, l *Loop, seen map[ssa.Value]bool, depth int) bool {
	if seen[v] {
		return true
	}
	if depth > 8 {
		return false
	}
	seen[v] = true
	switch x := v.(type) {
	case *ssa.MakeSlice:
		return l.Blocks[x.Block()]
	case *ssa.Phi:
		for _, e := range x.Edges {
			if !freshWithinLoop(e, l, seen, depth+1) {
				return false
			}
		}
		return len(x.Edges) > 0
	case *ssa.Call:
		if b, ok := x.Call.Value.(*ssa.Builtin); ok && b.Name() == "append" {
			return freshWithinLoop(x.Call.Args[0], l, seen, depth+1)
		}
	case *ssa.Slice:
		if al, ok := x.X.(*ssa.Alloc); ok {
			return l.Blocks[al.Block()]
		}
	}
	return false
}

// literalForward: fn has a full range loop over coll (a parameter) whose every turn stores, into one
// fresh record, each of the fields from the same-named field of the loop's element, and appends
// the record. Returns "" when it has, the reason otherwise.
func literalForward(c *Ctx, fn *ssa.Function, coll string, keyPrefix string, fields []string) string {
	s := newSumm(c.P, 0)
	s.EngineAliases = false
	for _, l := range s.loops(fn) {
		ri := analyseRange(l)
		prm, ok := ri.Coll.(*ssa.Parameter)
		if !ok || "param:"+prm.Name() != coll {
			continue
		}
		if ri.Kind != "slice" || !ri.Full || len(l.Exits) != 1 {
			return "the loop over " + coll + " is not a full range"
		}
		body, _ := s.LoopBody(fn, l)
		if len(body) == 0 {
			return "empty body"
		}
		for _, bp := range body {
			if bp.End != "continue" {
				return "the loop can stop early"
			}
			base := ""
			for _, f := range fields {
				found := false
				for _, e := range bp.Events {
					if e.Kind == "store" && e.FKey == keyPrefix+f && e.Fresh {
						b, fl := splitLoc(e.Val.String())
						if fl != f || !strings.Contains(b, "[iter:") || (base != "" && b != base) {
							return "field " + f + " of the record is " + e.Val.String()
						}
						base = b
						found = true
					}
				}
				if !found {
					return "field " + f + " is not carried over"
				}
			}
			grows := false
			for k, v := range bp.Store {
				if strings.HasPrefix(k, "backedge:") && v.Op == "append" {
					grows = true
				}
			}
			if !grows {
				return "the record is not appended"
			}
		}
		return ""
	}
	return "no loop over " + coll
}
