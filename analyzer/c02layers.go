package main

import (
	"fmt"
	"strings"

	"golang.org/x/tools/go/ssa"
)

// layer-arith (C02, shared with C01): the layers that settlement pays out are built with the
// shape "one layer per distinct contribution, members = everyone at or above it, total = members
// x step". Decided on the layer builder (the function that stores Level.Wager and Level.Total in a
// loop over the list's levels):
//
//	L1  a layer is created only when no layer with the same level exists (the search runs over
//	    the whole list and returns the match), so levels are distinct;
//	L2  the levels are sorted ascending by Level before the steps are computed;
//	L3  every layer's member list is rebuilt from ALL recorded contributions, a contributor
//	    being a member exactly when layer.Level <= contribution;
//	L4  step = Level - previous Level (0 for the first), the previous level advances to this
//	    level on every iteration, and Total = len(members) * step of the same layer.
//
// That is the shape, not the values: that the totals then add up to the contributions is
// arithmetic over those loops and is not decided.
func checkLayerArith(c *Ctx, rule string) {
	p := c.P
	ix := p.Index()
	var builder *ssa.Function
	for _, w := range ix.Writers("pot.Level.Total") {
		fi := ix.Info[w]
		if fi == nil || !fi.TWrites["pot.Level.Wager"] {
			continue
		}
		// the one that does it in a loop (the constructor stores them once into a fresh object)
		s := newSumm(p, 0)
		for _, l := range s.loops(w) {
			bp, _ := s.LoopBody(w, l)
			for _, q := range bp {
				for _, e := range q.Events {
					if e.Kind == "store" && e.FKey == "pot.Level.Total" && !e.Fresh {
						builder = w
					}
				}
			}
		}
	}
	if builder == nil {
		c.undecided(rule, "layer-builder", "-", "no function stores Level.Wager and Level.Total in a loop")
		return
	}
	// the entry: climb from the function that holds the loop through package-private helpers to the
	// exported method that drives them (splitting the builder into helpers keeps the property)
	entry := builder
	for i := 0; i < 3 && !tokenIsExported(entry.Name()); i++ {
		cl := ix.Callers(entry)
		if len(cl) != 1 || cl[0].Pkg != entry.Pkg {
			break
		}
		entry = cl[0]
	}
	builder = entry
	c.touch(fnKey(builder))
	c.role("layer builder", fnKey(builder))
	s := newSumm(p, 0)
	s.HelperInline = func(f *ssa.Function) bool { return privateHelper(entry, f) }
	paths, _ := s.Function(builder)
	var bad []string

	// ---- L1: creation only after a full unsuccessful search
	var creator *ssa.Function
	for _, ps := range paths {
		for _, e := range ps.Events {
			if e.Kind == "call" && e.Fn != nil && e.Fn.Pkg == builder.Pkg && ix.Info[e.Fn] != nil && ix.Info[e.Fn].Writes != nil {
				for _, w := range ix.Info[e.Fn].Writes {
					if w.Key == "pot.LevelList.levels" {
						creator = e.Fn
					}
				}
			}
		}
	}
	if creator == nil {
		// creation inline in the builder: not the confirmed shape
		c.undecided(rule, fnKey(builder)+"#distinct-levels", p.FnPos(builder), "the function that appends a new level was not resolved")
	} else {
		c.touch(fnKey(creator))
		cs := newSumm(p, 0)
		cs.HelperInline = func(f *ssa.Function) bool { return privateHelper(creator, f) } // the search may live in a helper
		cp, _ := cs.Function(creator)
		var badC []string
		lvParam := ""
		nCreate, nFound := 0, 0
		var loopEv *Event
		var enterOf *Event
		seenL := map[*Loop]bool{}
		nLoops := 0
		for _, ps := range cp {
			for _, e := range ps.Events {
				if e.Kind == "loop" && !seenL[e.Loop] {
					seenL[e.Loop] = true
					nLoops++
					loopEv = e
					for _, en := range ps.Events {
						if en.Kind == "enter" && en.Fn == e.InFn {
							enterOf = en
						}
					}
				}
			}
		}
		if nLoops != 1 {
			badC = append(badC, fmt.Sprintf("%d loops in the level search", nLoops))
		} else {
			ri := analyseRange(loopEv.Loop)
			if !ri.Full {
				badC = append(badC, "the search for an existing level does not cover the whole list")
			}
			body, _ := cs.LoopBody(loopEv.InFn, loopEv.Loop)
			for _, bp := range body {
				eq := ""
				for _, cd := range bp.Conds {
					if cd.V.K == KAtom && cd.V.At.Op == "eq" && !cd.V.Neg {
						ts := cd.V.At.A.terms()
						if len(ts) == 2 && cd.V.At.A.C == 0 {
							for _, t := range ts {
								if strings.HasPrefix(t, "param:") {
									eq = t
								}
							}
						}
					}
				}
				nonBound := 0
				for _, cd := range bp.Conds {
					// the loop's own bound (i < len(levels)) does not count
					isBound := false
					if a, isLt := ltForm(cd.V); isLt {
						isBound = true
						for t := range a.T {
							if !strings.HasPrefix(t, "iter:") && !strings.HasPrefix(t, "len(") {
								isBound = false
							}
						}
					}
					if !isBound {
						nonBound++
					}
				}
				if nonBound != 1 {
					badC = append(badC, "the search decides on more than the equality of levels: ["+bp.CondString()+"]")
				}
				if strings.HasPrefix(bp.End, "exit") && eq != "" {
					if !strings.Contains(bp.CondString(), ".Level") {
						badC = append(badC, "the search returns a level that was not compared equal to the wanted level")
					} else {
						nFound++
						lvParam = eq
						if enterOf != nil {
							lvParam = substParams(eq, enterOf.Fn, enterOf.Args)
						}
					}
				}
			}
		}
		for _, ps := range cp {
			st := ps.storesTo("pot.LevelList.levels")
			if len(st) == 0 {
				continue
			}
			nCreate++
			if !hasCond(ps, func(v *Val) bool { return v.K == KAtom && v.At.Op == "b" && strings.Contains(v.At.L, "exit→") }) {
				badC = append(badC, "a level is created without having searched the list")
			}
			okLv := false
			for _, e := range ps.Events {
				if e.Kind == "store" && e.FKey == "pot.Level.Level" && e.Fresh && e.Val.String() == lvParam {
					okLv = true
				}
			}
			if !okLv {
				badC = append(badC, "the created level does not carry the wanted level")
			}
		}
		c.check(len(badC) == 0 && nCreate >= 1 && nFound >= 1, rule, fnKey(creator)+"#distinct-levels", p.FnPos(creator), "a level is created only after the whole list was searched for an equal one", "two layers can carry the same level", uniq(badC, 3)...)
	}

	// ---- L2..L4 on every path of the builder
	nArith := 0
	for _, ps := range paths {
		sortIdx, memIdx, arIdx := -1, -1, -1
		for i, e := range ps.Events {
			switch {
			case e.Kind == "call" && e.Callee == "sort.Slice":
				sortIdx = i
			case e.Kind == "loop":
				body, _ := s.LoopBody(e.InFn, e.Loop)
				isAr, isMem := false, false
				for _, q := range body {
					for _, e2 := range q.Events {
						if e2.Kind == "store" && e2.FKey == "pot.Level.Total" {
							isAr = true
						}
						if e2.Kind == "store" && e2.FKey == "pot.Level.Contributors" {
							isMem = true
						}
					}
				}
				if isAr {
					arIdx = i
				}
				if isMem && !isAr {
					memIdx = i
				}
			}
		}
		if arIdx < 0 {
			bad = append(bad, "a path of the layer builder does not compute the steps")
			continue
		}
		nArith++
		// L2
		sortIn := builder
		if sortIdx >= 0 {
			sortIn = ps.Events[sortIdx].InFn
		}
		if cl, _ := sortClosure(sortIn); cl == nil || sortOrientation(p, cl, "Level") != "asc" {
			bad = append(bad, "the levels are not sorted ascending by Level")
		}
		if sortIdx < 0 || sortIdx > arIdx {
			bad = append(bad, "the steps are computed before the levels are sorted")
		}
		// L3, first form: a separate pass that resets every level's list and refills it in place
		fused := memIdx < 0
		if memIdx > arIdx {
			bad = append(bad, "the totals are computed before the member lists are rebuilt")
		}
		if memIdx >= 0 {
			ml := ps.Events[memIdx].Loop
			ri := analyseRange(ml)
			if !ri.Full || len(ml.Exits) != 1 || !loadsField(ri.Coll, "pot.LevelList.levels") {
				bad = append(bad, "member lists are not rebuilt for every level")
			}
			body, _ := s.LoopBody(ps.Events[memIdx].InFn, ml)
			for _, q := range body {
				reset, inner := false, 0
				// second form inside a separate pass: the list is assigned from one pass over the
				// contributions (a helper given the level)
				assigned := -1
				for i, e := range q.Events {
					if e.Kind == "store" && e.FKey == "pot.Level.Contributors" && !(e.Val.Op == "list" && len(e.Val.Args) == 0) && e.Val.Op != "append" {
						assigned = i
					}
				}
				if assigned >= 0 {
					X := strings.TrimSuffix(q.Events[assigned].Loc, ".Contributors")
					bad = append(bad, assignedFromPass(s, q, assigned, X, ps.Events[memIdx].InFn)...)
					continue
				}
				for _, e := range q.Events {
					if e.Kind == "store" && e.FKey == "pot.Level.Contributors" && e.Val.Op == "list" && len(e.Val.Args) == 0 {
						reset = true
					}
					if e.Kind != "loop" {
						continue
					}
					inner++
					if !reset {
						bad = append(bad, "a level's member list is extended without being reset first")
					}
					bad = append(bad, membershipLoop(s, e, func(t string) bool { return strings.HasSuffix(t, ".Level") }, "pot.Level.Contributors")...)
				}
				if inner != 1 {
					bad = append(bad, "a level's member list is not rebuilt by exactly one pass over the contributions")
				}
			}
		}
		// L4 (and L3, second form: the list is assigned in the same iteration from a pass over the
		// contributions, possibly in a helper given the level)
		al := ps.Events[arIdx].Loop
		ri := analyseRange(al)
		if !ri.Full || len(al.Exits) != 1 || !loadsField(ri.Coll, "pot.LevelList.levels") {
			bad = append(bad, "steps are not computed for every level")
		}
		body, _ := s.LoopBody(ps.Events[arIdx].InFn, al)
		for _, q := range body {
			var wg, tot, mem *Event
			iMem, iTot := -1, -1
			for i, e := range q.Events {
				if e.Kind == "store" && e.FKey == "pot.Level.Wager" {
					wg = e
				}
				if e.Kind == "store" && e.FKey == "pot.Level.Total" {
					tot, iTot = e, i
				}
				if e.Kind == "store" && e.FKey == "pot.Level.Contributors" {
					mem, iMem = e, i
				}
			}
			if wg == nil || tot == nil || q.End != "continue" {
				bad = append(bad, "a level is left without step or total")
				continue
			}
			X := strings.TrimSuffix(wg.Loc, ".Wager")
			if strings.TrimSuffix(tot.Loc, ".Total") != X {
				bad = append(bad, "step and total are stored into different levels")
			}
			members := X + ".Contributors"
			if fused {
				if mem == nil || strings.TrimSuffix(mem.Loc, ".Contributors") != X || iMem > iTot {
					bad = append(bad, "a level's member list is not rebuilt before its total is computed")
				} else {
					members = mem.Val.String()
					// the pass over the contributions that produced it
					bad = append(bad, assignedFromPass(s, q, iMem, X, ps.Events[arIdx].InFn)...)
				}
			}
			a := wg.Val.asAff()
			prev := ""
			okW := a.C == 0 && len(a.T) == 2 && a.T[X+".Level"] == 1
			for t, co := range a.T {
				if t != X+".Level" {
					if co == -1 && strings.HasPrefix(t, "iter:") {
						prev = t
					} else {
						okW = false
					}
				}
			}
			if !okW || prev == "" {
				bad = append(bad, "the step stored is "+wg.Val.String()+", expected this level minus the previous level")
				continue
			}
			// the previous level advances to this level; it starts at 0
			phiName := prev[strings.LastIndex(prev, ".")+1:]
			if back := q.Store["backedge:"+phiName]; back == nil || back.String() != X+".Level" {
				got := "<nothing>"
				if back != nil {
					got = back.String()
				}
				bad = append(bad, "after a level the previous level becomes "+got+", expected this level")
			}
			for _, in := range al.Header.Instrs {
				if ph, ok := in.(*ssa.Phi); ok && ph.Name() == phiName {
					for i, e := range ph.Edges {
						if !al.Blocks[al.Header.Preds[i]] {
							if c0, ok := constInt(e); !ok || c0 != 0 {
								bad = append(bad, "the previous level does not start at 0")
							}
						}
					}
				}
			}
			okTot := false
			for _, step := range []string{wg.Val.String(), X + ".Wager"} {
				for _, m := range []string{members, X + ".Contributors"} {
					if tv := tot.Val.String(); tv == "("+step+")*(len("+m+"))" || tv == "(len("+m+"))*("+step+")" {
						okTot = true
					}
				}
			}
			if !okTot {
				bad = append(bad, "the total stored is "+tot.Val.String()+", expected members x step of the same level")
			}
		}
	}
	c.check(len(bad) == 0 && nArith > 0, rule, fnKey(builder), p.FnPos(builder), "levels sorted ascending; members = every contribution at or above the level; step = level minus previous level; total = members x step", "the layers are not built as nested side pots", uniq(bad, 4)...)
}

// assignedFromPass: the member list stored by event iMem of body path q comes from exactly one
// pass over the contributions that precedes it, in the host function or in a helper given the
// level of X.
func assignedFromPass(s *Summ, q *PathSum, iMem int, X string, host *ssa.Function) []string {
	var bad []string
	nIn := 0
	for _, e := range q.Events[:iMem] {
		if e.Kind != "loop" {
			continue
		}
		nIn++
		levelArg := func(t string) bool { return strings.HasSuffix(t, ".Level") }
		if e.InFn != host {
			// a helper given the level: its parameter stands for this level's Level
			for _, en := range q.Events {
				if en.Kind == "enter" && en.Fn == e.InFn {
					fn, args := en.Fn, en.Args
					levelArg = func(t string) bool {
						return substParams(t, fn, args) == X+".Level"
					}
				}
			}
		}
		bad = append(bad, membershipLoop(s, e, levelArg, "")...)
	}
	if nIn != 1 {
		bad = append(bad, "a level's member list does not come from exactly one pass over the contributions")
	}
	return bad
}

// membershipLoop checks one pass over the recorded contributions: a full range over the map, a
// contributor being added exactly when level <= contribution (canonical form, either operand
// order), the contributor added being the map key. isLevel recognises the level's term.
func membershipLoop(s *Summ, e *Event, isLevel func(term string) bool, storeKey string) []string {
	var bad []string
	ri2 := analyseRange(e.Loop)
	if ri2.Kind != "map" || !ri2.Full || len(e.Loop.Exits) != 1 || !loadsField(ri2.Coll, "pot.LevelList.contributors") {
		bad = append(bad, "members are not drawn from all recorded contributions")
	}
	ib, _ := s.LoopBody(e.InFn, e.Loop)
	for _, r := range ib {
		adds := false
		var addKey string
		for _, e2 := range r.Events {
			if e2.Kind == "store" && e2.Val.Op == "append" && (storeKey == "" || e2.FKey == storeKey) && strings.Contains(e2.Val.String(), "key@") {
				adds = true
				addKey = e2.Val.String()
			}
		}
		for k, v := range r.Store {
			if strings.HasPrefix(k, "backedge:") && v.Op == "append" && strings.Contains(v.String(), "key@") {
				adds = true
				addKey = v.String()
			}
		}
		member, decided := false, false
		for _, cd := range r.Conds {
			a, ok := ltForm(cd.V)
			if !ok {
				continue
			}
			var lv, el int64
			other := false
			for t, co := range a.T {
				switch {
				case strings.HasPrefix(t, "elem@"):
					el = co
				case isLevel(t):
					lv = co
				default:
					other = true
				}
			}
			if other {
				continue
			}
			switch {
			case lv == 1 && el == -1 && a.C == -1: // level <= contribution
				member, decided = true, true
			case lv == -1 && el == 1 && a.C == 0: // contribution < level
				member, decided = false, true
			case lv != 0 && el != 0:
				bad = append(bad, "membership test is ["+cd.V.String()+"], expected Level <= contribution")
				decided = true
				member = adds
			}
		}
		if !decided {
			bad = append(bad, "a contributor is added or skipped without comparing the level with the contribution")
		} else if member != adds {
			bad = append(bad, "membership is inverted: a contributor at or above the level is skipped or one below it is added")
		}
		if adds && !strings.Contains(addKey, "key@") {
			bad = append(bad, "the member added is not the contributor whose contribution was tested: "+addKey)
		}
		if r.End != "continue" {
			bad = append(bad, "the pass over the contributions can stop early")
		}
	}
	return bad
}

func tokenIsExported(name string) bool { return name != "" && name[0] >= 'A' && name[0] <= 'Z' }
