package main

import (
	"fmt"
	"sort"
	"strings"
)

// E4 — evaluation of extracted decision tables against a reference predicate.
//
// A decision table is the list of path conditions of a branch-only region with the outcome
// of each path. Conditions are conjunctions of normalised atoms over affine forms of a few
// integer terms and boolean symbols. Comparison with a reference is by enumerating integer
// assignments of the terms on a small grid (all orderings of the terms appear on it) and
// both truth values of the boolean symbols: for each assignment exactly one path condition
// must hold (self-check of the extraction) and its outcome must satisfy the reference. No
// solver is involved; the table is evaluated, the program is not run.

type Asg struct {
	I map[string]int64 // integer terms
	B map[string]bool  // boolean symbols and "is" atoms (by atom string)
}

func (a Asg) String() string {
	var ss []string
	for k, v := range a.I {
		ss = append(ss, fmt.Sprintf("%s=%d", k, v))
	}
	for k, v := range a.B {
		ss = append(ss, fmt.Sprintf("%s=%v", k, v))
	}
	sort.Strings(ss)
	return strings.Join(ss, ", ")
}

func evalAff(a *Aff, asg Asg) (int64, bool) {
	v := a.C
	for t, c := range a.T {
		x, ok := asg.I[t]
		if !ok {
			return 0, false
		}
		v += c * x
	}
	return v, true
}

func evalCond(v *Val, asg Asg) (bool, bool) {
	if v.K == KConst {
		return v.S == "true", true
	}
	if v.K != KAtom {
		return false, false
	}
	var r bool
	switch v.At.Op {
	case "lt", "le", "eq":
		x, ok := evalAff(v.At.A, asg)
		if !ok {
			return false, false
		}
		switch v.At.Op {
		case "lt":
			r = x < 0
		case "le":
			r = x <= 0
		default:
			r = x == 0
		}
	case "is":
		b, ok := asg.B[v.At.String()]
		if !ok {
			return false, false
		}
		r = b
	default:
		b, ok := asg.B[v.At.L]
		if !ok {
			return false, false
		}
		r = b
	}
	if v.Neg {
		r = !r
	}
	return r, true
}

func evalPath(ps *PathSum, asg Asg) (bool, bool) {
	for _, c := range ps.Conds {
		r, ok := evalCond(c.V, asg)
		if !ok {
			return false, false
		}
		if !r {
			return false, true
		}
	}
	return true, true
}

// tableVars collects the integer terms and boolean symbols occurring in the conditions.
func tableVars(paths []*PathSum) (ints []string, bools []string) {
	im, bm := map[string]bool{}, map[string]bool{}
	for _, ps := range paths {
		for _, c := range ps.Conds {
			if c.V.K != KAtom {
				continue
			}
			switch c.V.At.Op {
			case "lt", "le", "eq":
				for t := range c.V.At.A.T {
					im[t] = true
				}
			case "is":
				bm[c.V.At.String()] = true
			default:
				bm[c.V.At.L] = true
			}
		}
	}
	for k := range im {
		ints = append(ints, k)
	}
	for k := range bm {
		bools = append(bools, k)
	}
	sort.Strings(ints)
	sort.Strings(bools)
	return
}

// enumGrid visits every assignment of ints on [lo,hi] (derived terms are computed by
// derive and not enumerated) and of bools, skipping those rejected by derive.
func enumGrid(ints []string, lo, hi int64, bools []string, derive func(a Asg) bool, visit func(a Asg) bool) int {
	return enumGridR(ints, func(string) (int64, int64) { return lo, hi }, bools, derive, visit)
}

// enumGridR: like enumGrid with a range per integer term.
func enumGridR(ints []string, rng func(name string) (int64, int64), bools []string, derive func(a Asg) bool, visit func(a Asg) bool) int {
	asg := Asg{I: map[string]int64{}, B: map[string]bool{}}
	n := 0
	stop := false
	var recB func(i int)
	recB = func(i int) {
		if stop {
			return
		}
		if i == len(bools) {
			a2 := Asg{I: map[string]int64{}, B: map[string]bool{}}
			for k, v := range asg.I {
				a2.I[k] = v
			}
			for k, v := range asg.B {
				a2.B[k] = v
			}
			if derive != nil && !derive(a2) {
				return
			}
			n++
			if !visit(a2) {
				stop = true
			}
			return
		}
		for _, b := range []bool{false, true} {
			asg.B[bools[i]] = b
			recB(i + 1)
		}
	}
	var recI func(i int)
	recI = func(i int) {
		if stop {
			return
		}
		if i == len(ints) {
			recB(0)
			return
		}
		lo, hi := rng(ints[i])
		for v := lo; v <= hi; v++ {
			asg.I[ints[i]] = v
			recI(i + 1)
		}
	}
	recI(0)
	return n
}

// selectPath returns the unique path whose condition holds under asg; err describes a
// self-check failure (none or several hold, or a term is unassigned).
func selectPath(paths []*PathSum, asg Asg) (*PathSum, string) {
	var hit *PathSum
	for _, ps := range paths {
		r, ok := evalPath(ps, asg)
		if !ok {
			return nil, "condition [" + ps.CondString() + "] mentions a term outside the table's variables"
		}
		if r {
			if hit != nil {
				return nil, "two path conditions hold for " + asg.String()
			}
			hit = ps
		}
	}
	if hit == nil {
		return nil, "no path condition holds for " + asg.String()
	}
	return hit, ""
}

// selectBodyPath is selectPath for loop bodies: an assignment for which no path condition
// holds does not enter the iteration (the loop condition is part of every body path) and
// is skipped (nil, "").
func selectBodyPath(paths []*PathSum, asg Asg) (*PathSum, string) {
	row, err := selectPath(paths, asg)
	if err != "" && strings.HasPrefix(err, "no path condition holds") {
		return nil, ""
	}
	return row, err
}

// impliesInt: do the path's conditions imply pred(term)? The term must occur in the
// conditions; all integer terms are enumerated on [lo,hi], boolean symbols both ways.
func impliesInt(ps *PathSum, term string, lo, hi int64, pred func(v int64) bool) bool {
	ints, bools := tableVars([]*PathSum{ps})
	found := false
	for _, t := range ints {
		if t == term {
			found = true
		}
	}
	if !found {
		return false
	}
	ok := true
	sat := false
	enumGrid(ints, lo, hi, bools, nil, func(a Asg) bool {
		holds, good := evalPath(ps, a)
		if !good || !holds {
			return true
		}
		sat = true
		if !pred(a.I[term]) {
			ok = false
		}
		return ok
	})
	return ok && sat
}
