package main

import (
	"fmt"
	"go/token"
	"sort"
	"strings"

	"golang.org/x/tools/go/ssa"
)

func init() {
	register(&propDef{
		ID: "C01", Level: "other", Run: withShared(runC01, share{"C02", runC02, ruleIs("layer-arith")}, share{"C07", runC07, ruleIs("load-is-identity")}),
		Explanation: "The bookkeeping identities of the chip accounts are shown inductive over every piece of code that can write a chip account (writers are discovered from the program's write sets, not listed): I1 InitialStackSize + Pot = Bankroll and I2 StackSize + Wager = InitialStackSize hold at the exit of every path of every writer whenever they hold at entry (path-partitioned affine dataflow; loop bodies analysed for a fresh element); on every in-round path the change of Status.CurrentRoundPot equals the change of the payer's Wager; the end-of-round sweep of wagers and the reset of the round pot always happen together with no event emitted in between; settlement's Final and Changed always move by the same amount and start from the player's own Bankroll; the pot builder is fed Pot+Wager, Idx and Fold of every player and its result is what gets published; no caller-supplied amount reaches the chip mover negative (shared with C12). A handler that republishes the pots does so on every non-failing path; the layers the pots are cut from are built in the nested side-pot shape (rule shared with C02); the winner shares of a level add up to its total. Does NOT decide non-negativity in general, that pots add up to the contributions, zero-sum of the result, or loss bounds: those are arithmetic over loops in pot/ and settlement/.",
		Trusted:     commonTrusted,
		Assumptions: []string{"distinct *PlayerState objects do not alias (each player has its own state object)", "alias player.state == Player.State()"},
		NotCovered:  "non-negativity in general; pots sum to contributions (pot.LevelList arithmetic, see C16); zero-sum; nobody loses more than they put in",
	})
}

var playerChip = []string{"Bankroll", "InitialStackSize", "StackSize", "Wager", "Pot"}

func splitLoc(loc string) (base, field string) {
	i := strings.LastIndex(loc, ".")
	if i < 0 {
		return loc, ""
	}
	return loc[:i], loc[i+1:]
}

// exitForms returns, for each base object written on the path, the last value stored into
// each of its fields of struct type prefix (e.g. "pokerface.PlayerState.").
func exitForms(ps *PathSum, typePrefix string) (map[string]map[string]*Event, bool) {
	out := map[string]map[string]*Event{}
	clean := true
	for _, e := range ps.Events {
		if e.Kind != "store" || !strings.HasPrefix(e.FKey, typePrefix) {
			continue
		}
		base, f := splitLoc(e.Loc)
		if out[base] == nil {
			out[base] = map[string]*Event{}
		}
		out[base][f] = e
	}
	// a later call may have havocked a stored field: then the final store map lacks it
	for base, fs := range out {
		for f := range fs {
			if _, ok := ps.Store[base+"."+f]; !ok {
				clean = false
			}
		}
	}
	return out, clean
}

func runC01(c *Ctx) {
	p := c.P
	ix := p.Index()
	ea := c.engine()
	if ea.playerImpl == "" || ea.gameImpl == "" {
		c.undecided("anchors", "engine-implementations", "-", "pokerface.Player / pokerface.Game do not have exactly one implementation each")
		return
	}
	eg := buildEventGraph(c, ea)

	// ---- inv-player and inv-roundpot over all writers
	writers := map[*ssa.Function]bool{}
	for _, f := range playerChip {
		for _, w := range ix.AnyWriters("pokerface.PlayerState." + f) {
			writers[w] = true
		}
	}
	for _, w := range ix.Writers("pokerface.Status.CurrentRoundPot") {
		writers[w] = true
	}
	var wl []*ssa.Function
	for w := range writers {
		wl = append(wl, w)
	}
	sort.Slice(wl, func(i, j int) bool { return fnKey(wl[i]) < fnKey(wl[j]) })
	c.floor("inv-player", "writers of chip accounts", len(wl), 2)
	var sweepers, resetters []*ssa.Function
	inWL := map[*ssa.Function]bool{}
	for _, w := range wl {
		inWL[w] = true
	}
	tracked := func(f *ssa.Function) bool {
		fi := ix.Info[f]
		if fi == nil {
			return false
		}
		for _, fld := range playerChip {
			if fi.TWrites["pokerface.PlayerState."+fld] {
				return true
			}
		}
		return fi.TWrites["pokerface.Status.CurrentRoundPot"]
	}
	for _, w := range wl {
		c.touch(fnKey(w))
		// a package-private helper all of whose callers are writers themselves is analysed where it
		// is used (inlined into those callers), not on its own
		if !token.IsExported(w.Name()) && w.Parent() == nil {
			callers := ix.Callers(w)
			all := len(callers) > 0
			for _, cl := range callers {
				if !inWL[cl] || !privateHelper(cl, w) {
					all = false
				}
			}
			if all && len(findLoops(w)) == 0 {
				c.ok("inv-player", fnKey(w), p.FnPos(w), "private helper of "+fnNames(callers)+": analysed inlined into its callers")
				continue
			}
		}
		s := newSumm(p, 0)
		owner := w
		s.HelperInline = func(f *ssa.Function) bool {
			if !privateHelper(owner, f) || !tracked(f) || len(findLoops(f)) > 0 {
				return false
			}
			// only helpers used by writers alone (see above)
			for _, cl := range ix.Callers(f) {
				if !inWL[cl] {
					return false
				}
			}
			return true
		}
		fpaths, cut := s.Function(w)
		if cut != "" {
			c.undecided("inv-player", fnKey(w), p.FnPos(w), "summary cut: "+cut)
			continue
		}
		all := [][]*PathSum{fpaths}
		for _, l := range s.loops(w) {
			bp, cut := s.LoopBody(w, l)
			if cut != "" {
				c.undecided("inv-player", fnKey(w), p.FnPos(w), "loop body summary cut: "+cut)
			}
			all = append(all, bp)
		}
		var badI, badR []string
		nPaths := 0
		isSweeper, isResetter := false, false
		for _, set := range all {
			for _, ps := range set {
				forms, clean := exitForms(ps, "pokerface.PlayerState.")
				touches := false
				dW := affConst(0)
				for base, fs := range forms {
					rel := false
					for _, f := range playerChip {
						if fs[f] != nil {
							rel = true
						}
					}
					if !rel {
						continue
					}
					touches = true
					if !clean {
						badI = append(badI, "a call after the stores may overwrite the account again: path ["+ps.CondString()+"]")
						continue
					}
					fresh := false
					for _, e := range fs {
						if e.Fresh {
							fresh = true
						}
					}
					exit := map[string]*Aff{}
					for _, f := range playerChip {
						if e := fs[f]; e != nil {
							exit[f] = e.Val.asAff()
						} else if fresh {
							exit[f] = affConst(0)
						} else {
							exit[f] = affTerm(base + "." + f)
						}
					}
					subst := func(a *Aff) *Aff {
						// entry identities: InitialStackSize = StackSize + Wager; Bankroll = StackSize + Wager + Pot
						r := affConst(a.C)
						for t, co := range a.T {
							switch t {
							case base + ".InitialStackSize":
								r = r.add(affTerm(base+".StackSize"), co).add(affTerm(base+".Wager"), co)
							case base + ".Bankroll":
								r = r.add(affTerm(base+".StackSize"), co).add(affTerm(base+".Wager"), co).add(affTerm(base+".Pot"), co)
							default:
								r = r.add(affTerm(t), co)
							}
						}
						return r
					}
					i1 := subst(exit["InitialStackSize"].add(exit["Pot"], 1).add(exit["Bankroll"], -1))
					i2 := subst(exit["StackSize"].add(exit["Wager"], 1).add(exit["InitialStackSize"], -1))
					if !i1.isZero() {
						badI = append(badI, fmt.Sprintf("InitialStackSize + Pot - Bankroll = %s at the exit of path [%s] (object %s)", i1, ps.CondString(), base))
					}
					if !i2.isZero() {
						badI = append(badI, fmt.Sprintf("StackSize + Wager - InitialStackSize = %s at the exit of path [%s] (object %s)", i2, ps.CondString(), base))
					}
					if !fresh {
						if e := fs["Wager"]; e != nil {
							if v, ok := e.Val.isConstInt(); ok && v == 0 {
								isSweeper = true
							}
							dW = dW.add(exit["Wager"], 1).add(affTerm(base+".Wager"), -1)
						}
					}
				}
				// round pot
				var crp *Event
				for _, e := range ps.Events {
					if e.Kind == "store" && e.FKey == "pokerface.Status.CurrentRoundPot" {
						crp = e
					}
				}
				dR := affConst(0)
				if crp != nil {
					touches = true
					if v, ok := crp.Val.isConstInt(); ok && v == 0 {
						isResetter = true
					}
					dR = crp.Val.asAff().add(affTerm("GS.Status.CurrentRoundPot"), -1)
				}
				if touches {
					nPaths++
				}
				if touches && !isSweeper && !isResetter && !dR.equal(dW) {
					anyFresh := false
					for _, fs := range forms {
						for _, e := range fs {
							if e.Fresh {
								anyFresh = true
							}
						}
					}
					if !anyFresh {
						badR = append(badR, fmt.Sprintf("round pot changes by %s but the wagers by %s on path [%s]", dR, dW, ps.CondString()))
					}
				}
			}
		}
		c.Sites += nPaths
		if isSweeper {
			sweepers = append(sweepers, w)
		}
		if isResetter {
			resetters = append(resetters, w)
		}
		c.check(len(badI) == 0 && nPaths > 0, "inv-player", fnKey(w), p.FnPos(w), fmt.Sprintf("both identities are preserved on all %d writing paths", nPaths), "a chip account identity is not preserved", uniq(badI, 4)...)
		if !isSweeper && !isResetter {
			c.check(len(badR) == 0, "inv-roundpot", fnKey(w), p.FnPos(w), "the round pot moves with the wagers on every path", "round pot and wagers diverge", uniq(badR, 4)...)
		}
	}

	// a per-player helper that does the sweep works for the function that loops over the players:
	// the round boundary is where THAT function is called
	{
		climb := func(fs []*ssa.Function) []*ssa.Function {
			seen := map[*ssa.Function]bool{}
			var out []*ssa.Function
			for _, f := range fs {
				for i := 0; i < 3 && !token.IsExported(f.Name()); i++ {
					cl := ix.Callers(f)
					if len(cl) != 1 || cl[0].Pkg != f.Pkg || eg.MayEmit[f] {
						break
					}
					f = cl[0]
				}
				if !seen[f] {
					seen[f] = true
					out = append(out, f)
				}
			}
			return out
		}
		sweepers, resetters = climb(sweepers), climb(resetters)
	}

	// ---- boundary-pairing
	if len(sweepers) == 0 || len(resetters) == 0 || eg.Trigger == nil {
		c.undecided("boundary-pairing", "anchors", "-", fmt.Sprintf("wager sweeper (%d) / round-pot resetter (%d) not found", len(sweepers), len(resetters)))
	} else {
		c.role("wager sweeper", fnNames(sweepers))
		c.role("round-pot resetter", fnNames(resetters))
		isS := map[*ssa.Function]bool{}
		isR := map[*ssa.Function]bool{}
		for _, f := range sweepers {
			isS[f] = true
		}
		for _, f := range resetters {
			isR[f] = true
		}
		callers := map[*ssa.Function]bool{}
		for _, f := range append(append([]*ssa.Function{}, sweepers...), resetters...) {
			for _, cl := range ix.Callers(f) {
				callers[cl] = true
			}
		}
		n := 0
		for cl := range callers {
			n++
			c.touch(fnKey(cl))
			s := eg.summ(0)
			paths, _ := s.Function(cl)
			var bad []string
			for _, ps := range paths {
				iS, iR := -1, -1
				for i, e := range ps.Events {
					if e.Kind == "call" && e.Fn != nil {
						if isS[e.Fn] && iS < 0 {
							iS = i
						}
						if isR[e.Fn] && iR < 0 {
							iR = i
						}
					}
				}
				if iS < 0 && iR < 0 {
					continue
				}
				if iS < 0 || iR < 0 {
					// accepted only before the first wait point of a hand (wagers still zero)
					started := eg.Handler["GameEvent_Started"]
					pre := started != nil && len(ix.Callers(cl)) > 0
					for _, cc := range ix.Callers(cl) {
						if cc != started {
							pre = false
						}
					}
					if !pre {
						which := "wagers are swept into the pots without resetting the round pot"
						if iS < 0 {
							which = "the round pot is reset without sweeping the wagers"
						}
						bad = append(bad, which+" on path ["+ps.CondString()+"]")
					}
					continue
				}
				lo, hi := iS, iR
				if lo > hi {
					lo, hi = hi, lo
				}
				for _, e := range ps.Events[lo+1 : hi] {
					if e.Kind == "call" && e.Fn != nil && eg.MayEmit[e.Fn] {
						bad = append(bad, "an event is emitted between the sweep and the round-pot reset ("+e.Pos+")")
					}
				}
			}
			c.check(len(bad) == 0, "boundary-pairing", fnKey(cl), p.FnPos(cl), "sweep and round-pot reset happen together", "round boundary half done", uniq(bad, 3)...)
		}
		c.floor("boundary-pairing", "round-boundary callers", n, 2)
		// the sweep reaches every player: in a sweeper's loop over the players no iteration ends without
		// the wager having been moved (a folded player's last wager is swept like any other, or the
		// wagers on the table no longer add up to the round pot, which IS reset for all)
		for _, f := range sweepers {
			s := eg.summ(0)
			owner := f
			s.HelperInline = func(h *ssa.Function) bool { return privateHelper(owner, h) && !eg.MayEmit[h] }
			fp, _ := s.Function(f)
			var bad []string
			nLoop := 0
			seenSw := map[*Loop]bool{}
			for _, ps := range fp {
				for _, e := range ps.Events {
					if e.Kind != "loop" || seenSw[e.Loop] {
						continue
					}
					seenSw[e.Loop] = true
					body, _ := s.LoopBody(e.InFn, e.Loop)
					sweeps := false
					for _, bp := range body {
						for _, st := range bp.storesTo("pokerface.PlayerState.Wager") {
							if v, ok := st.Val.isConstInt(); ok && v == 0 {
								sweeps = true
							}
						}
					}
					if !sweeps {
						continue
					}
					nLoop++
					if ri := analyseRange(e.Loop); !ri.Full || len(e.Loop.Exits) != 1 {
						bad = append(bad, "the sweep does not visit every player")
					}
					for _, bp := range body {
						done := false
						for _, st := range bp.storesTo("pokerface.PlayerState.Wager") {
							if v, ok := st.Val.isConstInt(); ok && v == 0 {
								done = true
							}
						}
						if !done && bp.End == "continue" {
							bad = append(bad, "a player is skipped by the sweep under ["+bp.CondString()+"]")
						}
					}
				}
			}
			c.check(len(bad) == 0 && nLoop > 0, "boundary-pairing", fnKey(f)+"#sweep-all", p.FnPos(f), "every player's wager is swept", "some players keep their wager across the round boundary", uniq(bad, 2)...)
		}
		// the reset itself is unconditional: a resetter zeroes the round pot on every one of its paths
		// (a variant-dependent reset leaves last street's chips in the round pot of the next)
		for _, f := range resetters {
			s := eg.summ(0)
			paths, _ := s.Function(f)
			var bad []string
			for _, ps := range paths {
				if ps.End != "return" {
					continue
				}
				st := ps.storesTo("pokerface.Status.CurrentRoundPot")
				if len(st) == 0 {
					bad = append(bad, "the round pot survives the reset on path ["+ps.CondString()+"]")
					continue
				}
				if v, ok := st[len(st)-1].Val.isConstInt(); !ok || v != 0 {
					bad = append(bad, "the round pot is reset to "+st[len(st)-1].Val.String()+" on path ["+ps.CondString()+"]")
				}
			}
			c.check(len(bad) == 0, "boundary-pairing", fnKey(f)+"#reset-unconditional", p.FnPos(f), "the round pot is zeroed on every path of the reset", "the round pot is not always reset at the round boundary", uniq(bad, 2)...)
		}
	}

	// ---- result-identity
	nRes := 0
	resW := map[*ssa.Function]bool{}
	for _, k := range []string{"settlement.PlayerResult.Final", "settlement.PlayerResult.Changed"} {
		for _, w := range ix.AnyWriters(k) {
			resW[w] = true
		}
	}
	for w := range resW {
		nRes++
		c.touch(fnKey(w))
		s := newSumm(p, 0)
		s.EngineAliases = false
		paths, _ := s.Function(w)
		var bad []string
		for _, ps := range paths {
			forms, _ := exitForms(ps, "settlement.PlayerResult.")
			for base, fs := range forms {
				fin, chg := fs["Final"], fs["Changed"]
				fresh := (fin != nil && fin.Fresh) || (chg != nil && chg.Fresh)
				if fresh {
					// establish: Final = the bankroll parameter, Changed = 0
					if fin == nil || !strings.HasPrefix(fin.Val.String(), "param:") {
						bad = append(bad, "a new result does not start from the bankroll parameter")
					}
					if chg != nil {
						if v, ok := chg.Val.isConstInt(); !ok || v != 0 {
							bad = append(bad, "a new result starts with Changed = "+chg.Val.String())
						}
					}
					continue
				}
				dF, dC := affConst(0), affConst(0)
				if fin != nil {
					dF = fin.Val.asAff().add(affTerm(base+".Final"), -1)
				}
				if chg != nil {
					dC = chg.Val.asAff().add(affTerm(base+".Changed"), -1)
				}
				if !dF.equal(dC) {
					bad = append(bad, fmt.Sprintf("Final changes by %s but Changed by %s on path [%s]", dF, dC, ps.CondString()))
				}
			}
		}
		c.check(len(bad) == 0, "result-identity", fnKey(w), p.FnPos(w), "Final and Changed move together (Final = Bankroll + Changed is preserved)", "Final and Changed diverge", uniq(bad, 3)...)
	}
	c.floor("result-identity", "writers of PlayerResult accounts", nRes, 2)
	// the settlement entry passes each player's own Bankroll
	var settle *ssa.Function
	if ws := ix.Writers("pokerface.GameState.Result"); len(ws) == 1 {
		settle = ws[0]
	}
	if settle == nil {
		c.undecided("result-identity", "settlement-entry", "-", "the function storing GameState.Result is not unique")
	} else {
		c.touch(fnKey(settle))
		c.role("settlement entry", fnKey(settle))
		s := withPrivateHelpers(newSumm(p, 0), settle)
		okB := false
		var why string
		for _, hl := range loopsWithHelpers(s, settle) {
			l := hl.L
			ri := analyseRange(l)
			if !loadsField(ri.Coll, "pokerface.GameState.Players") {
				continue
			}
			body, _ := s.LoopBody(hl.Fn, l)
			okB = len(body) > 0 && ri.Full
			for _, ps := range body {
				calls := ps.Calls(".AddPlayer")
				if len(calls) != 1 {
					okB = false
					why = "a player is not registered exactly once per iteration"
					continue
				}
				a := calls[0].Args
				b1, f1 := splitLoc(a[1].String())
				b2, f2 := splitLoc(a[2].String())
				if f1 != "Idx" || f2 != "Bankroll" || b1 != b2 {
					okB = false
					why = fmt.Sprintf("AddPlayer(%s, %s): not the same player's Idx and Bankroll", a[1], a[2])
				}
			}
		}
		c.check(okB, "result-identity", fnKey(settle)+"#own-bankroll", p.FnPos(settle), "every player is registered with their own Idx and Bankroll", "results do not start from the players' bankrolls: "+why)
	}

	// ---- pot-feed
	var publisher *ssa.Function
	for _, w := range ix.Writers("pokerface.Status.Pots") {
		for _, cc := range ix.Info[w].Calls {
			if f := cc.StaticCallee(); f != nil && f.Name() == "GetPots" {
				publisher = w
			}
		}
	}
	if publisher == nil {
		c.undecided("pot-feed", "pot-publisher", "-", "no function stores Status.Pots from GetPots()")
	} else {
		c.touch(fnKey(publisher))
		c.role("pot publisher", fnKey(publisher))
		s := newSumm(p, 0)
		s.HelperInline = func(f *ssa.Function) bool { return privateHelper(publisher, f) }
		paths, _ := s.Function(publisher)
		var bad []string
		fed := false
		type lpe struct {
			fn *ssa.Function
			l  *Loop
		}
		var feedLoops []lpe
		seenLp := map[*Loop]bool{}
		for _, ps := range paths {
			for _, e := range ps.Events {
				if e.Kind == "loop" && !seenLp[e.Loop] {
					seenLp[e.Loop] = true
					feedLoops = append(feedLoops, lpe{e.InFn, e.Loop})
				}
			}
		}
		for _, fl := range feedLoops {
			l := fl.l
			ri := analyseRange(l)
			if !loadsField(ri.Coll, "pokerface.GameState.Players") {
				continue
			}
			if !ri.Full || len(l.Exits) != 1 {
				bad = append(bad, "the loop over the players is not a full range without early exit")
			}
			body, _ := s.LoopBody(fl.fn, l)
			for _, ps := range body {
				calls := ps.Calls(".AddContributor")
				if len(calls) != 1 || ps.End != "continue" {
					bad = append(bad, "a player is not fed exactly once")
					continue
				}
				fed = true
				a := calls[0].Args
				// a[1] = e.Pot + e.Wager, a[2] = e.Idx, a[3] = e.Fold for the same e
				amt := a[1].asAff()
				ts := amt.terms()
				okAmt := amt.C == 0 && len(ts) == 2
				var base string
				if okAmt {
					b1, f1 := splitLoc(ts[0])
					b2, f2 := splitLoc(ts[1])
					fs := map[string]bool{f1: true, f2: true}
					okAmt = b1 == b2 && fs["Pot"] && fs["Wager"] && amt.T[ts[0]] == 1 && amt.T[ts[1]] == 1
					base = b1
				}
				if !okAmt {
					bad = append(bad, "contribution fed is "+a[1].String()+", expected Pot + Wager of the player")
					continue
				}
				if a[2].String() != base+".Idx" {
					bad = append(bad, "index fed is "+a[2].String()+", expected the same player's Idx")
				}
				if a[3].String() != base+".Fold" {
					bad = append(bad, "fold flag fed is "+a[3].String()+", expected the same player's Fold")
				}
			}
		}
		if !fed {
			bad = append(bad, "no loop over GameState.Players feeds the pot builder")
		}
		// the list that was fed is the one whose pots are stored
		for _, ps := range paths {
			st := ps.storesTo("pokerface.Status.Pots")
			if len(st) == 0 {
				continue
			}
			last := st[len(st)-1]
			whole := false
			for _, e := range ps.Events {
				if e.Kind == "call" && strings.HasSuffix(e.Callee, ".GetPots") && e.Res != nil && e.Res.String() == last.Val.String() {
					whole = true
				}
			}
			if !strings.Contains(last.Val.String(), "GetPots(") {
				bad = append(bad, "Status.Pots is stored from "+last.Val.String())
			} else if !whole {
				bad = append(bad, "what is published is "+last.Val.String()+", not the whole list of pots that was built: chips of a dropped pot are settled to nobody")
			}
		}
		c.check(len(bad) == 0, "pot-feed", fnKey(publisher), p.FnPos(publisher), "every player's Pot+Wager, Idx and Fold are fed and the resulting pots are published", "the pot builder is fed wrongly", uniq(bad, 4)...)
	}

	// ---- pot-totals-from-levels: a published pot's Total is the Total of the level it is cut from,
	// or, when adjacent levels are merged, the sum of the two pots' Totals. Nothing else may produce
	// it (in particular not the eligibility map, which lists folded players with other amounts)
	{
		var bad []string
		nFresh, nMerge := 0, 0
		for _, w := range ix.AnyWriters("pot.Pot.Total") {
			if w.Pkg == nil || shortPkg(w.Pkg.Pkg.Path()) != "pot" {
				continue // pots rebuilt elsewhere (tests, table glue) are not the published ones
			}
			c.touch(fnKey(w))
			s := newSumm(p, 0)
			fp, _ := s.Function(w)
			sets := [][]*PathSum{fp}
			for _, l := range s.loops(w) {
				bp, _ := s.LoopBody(w, l)
				sets = append(sets, bp)
				// nested loops
			}
			seen := map[string]bool{}
			for _, set := range sets {
				for _, ps := range set {
					for _, e := range ps.Events {
						if e.Kind != "store" || e.FKey != "pot.Pot.Total" {
							continue
						}
						k := e.Pos + e.Val.String()
						if seen[k] {
							continue
						}
						seen[k] = true
						a := e.Val.asAff()
						okT := a.C == 0 && len(a.T) >= 1 && len(a.T) <= 2
						for t, co := range a.T {
							if co != 1 || !strings.HasSuffix(t, ".Total") {
								okT = false
							}
						}
						switch {
						case !okT:
							bad = append(bad, "a pot's Total is stored as "+e.Val.String()+" ("+e.Pos+")")
						case len(a.T) == 1:
							nFresh++
						default:
							nMerge++
							// the pot merged into stays the accumulator: it is the one that was put on the
							// result list, and the next level with the same players must reach it too
							B := strings.TrimSuffix(e.Loc, ".Total")
							if strings.HasPrefix(B, "iter:") {
								phi := B[strings.LastIndex(B, ".")+1:]
								if back := ps.Store["backedge:"+phi]; back != nil && back.String() != B {
									bad = append(bad, "after a merge the accumulating pot is replaced by "+back.String()+": a third level with the same players is merged into a pot that is not on the list ("+e.Pos+")")
								}
							}
						}
					}
				}
			}
		}
		c.check(len(bad) == 0 && nFresh >= 1 && nMerge >= 1, "pot-totals-from-levels", "pot.Pot.Total", "-", fmt.Sprintf("%d store(s) copy a level's Total, %d merge two Totals", nFresh, nMerge), "a published pot total is not derived from the level totals", uniq(bad, 3)...)
	}

	// ---- pots-refreshed: a handler that republishes the pots does so on every path that does not
	// fail. The pots are a derived view of Pot+Wager; a handler that refreshes them on some paths
	// only leaves a stale view published at a wait point
	if publisher != nil {
		reach := map[*ssa.Function]bool{}
		reaches := func(f *ssa.Function) bool {
			if f == nil {
				return false
			}
			if v, ok := reach[f]; ok {
				return v
			}
			reach[f] = f == publisher || ix.Reachable(f)[publisher]
			return reach[f]
		}
		nH := 0
		for _, ev := range sortedKeys(eg.Handler) {
			h := eg.Handler[ev]
			if h == nil || !reaches(h) {
				continue
			}
			var bad []string
			with := 0
			for _, o := range eg.Outcomes(h) {
				if o.Kind == "refuse" || o.Kind == "fail" {
					continue
				}
				has := false
				for _, e := range o.Events() {
					if (e.Kind == "call" || e.Kind == "enter") && e.Fn != nil && !eg.MayEmit[e.Fn] && reaches(e.Fn) {
						has = true
					}
				}
				if has {
					with++
				} else {
					bad = append(bad, "a path ending in "+o.Kind+" "+o.Event+" skips the pot refresh under ["+condsString(o.Conds())+"]")
				}
			}
			if with == 0 {
				continue // reaches the publisher only through a later event
			}
			nH++
			c.check(len(bad) == 0, "pots-refreshed", "handler:"+ev, p.FnPos(h), "the pots are rebuilt on every non-failing path of this handler", "stale pots stay published", uniq(bad, 3)...)
		}
		c.floor("pots-refreshed", "handlers that republish the pots", nH, 2)
	}

	// ---- amount-nonneg (shared with C12)
	checkAmountNonNeg(c, ea)

	// ---- share-sum (shared with C02/share-shape): what a level pays out adds up to its total
	checkShareShape(c, "share-sum")
}
