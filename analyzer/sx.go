package main

import (
	"go/constant"
	"go/types"
	"sort"
	"strings"

	"golang.org/x/tools/go/ssa"
)

// ---------------------------------------------------------------------------------------
// natural loops

type Loop struct {
	Fn     *ssa.Function
	Header *ssa.BasicBlock
	Blocks map[*ssa.BasicBlock]bool // includes header
	Exits  []*ssa.BasicBlock        // blocks outside the loop that are successors of loop blocks
	ID     int
}

func (l *Loop) contains(b *ssa.BasicBlock) bool { return l.Blocks[b] }

// findLoops returns the natural loops of fn (merged per header), outermost first.
func findLoops(fn *ssa.Function) []*Loop {
	byHeader := map[*ssa.BasicBlock]*Loop{}
	for _, b := range fn.Blocks {
		for _, s := range b.Succs {
			if s.Dominates(b) { // back edge b -> s
				l := byHeader[s]
				if l == nil {
					l = &Loop{Fn: fn, Header: s, Blocks: map[*ssa.BasicBlock]bool{s: true}}
					byHeader[s] = l
				}
				// blocks that reach b without passing s
				stack := []*ssa.BasicBlock{b}
				for len(stack) > 0 {
					x := stack[len(stack)-1]
					stack = stack[:len(stack)-1]
					if l.Blocks[x] {
						continue
					}
					l.Blocks[x] = true
					for _, p := range x.Preds {
						stack = append(stack, p)
					}
				}
			}
		}
	}
	var loops []*Loop
	for _, l := range byHeader {
		seen := map[*ssa.BasicBlock]bool{}
		for b := range l.Blocks {
			for _, s := range b.Succs {
				if !l.Blocks[s] && !seen[s] {
					seen[s] = true
					l.Exits = append(l.Exits, s)
				}
			}
		}
		sort.Slice(l.Exits, func(i, j int) bool { return l.Exits[i].Index < l.Exits[j].Index })
		loops = append(loops, l)
	}
	sort.Slice(loops, func(i, j int) bool {
		if len(loops[i].Blocks) != len(loops[j].Blocks) {
			return len(loops[i].Blocks) > len(loops[j].Blocks)
		}
		return loops[i].Header.Index < loops[j].Header.Index
	})
	for i, l := range loops {
		l.ID = i
	}
	return loops
}

// innermostLoop returns the smallest loop containing b (nil if none).
func innermostLoop(loops []*Loop, b *ssa.BasicBlock) *Loop {
	var best *Loop
	for _, l := range loops {
		if l.Blocks[b] && (best == nil || len(l.Blocks) < len(best.Blocks)) {
			best = l
		}
	}
	return best
}

// rangeInfo describes a "for ... range X" loop as go/ssa builds it.
type rangeInfo struct {
	Kind     string    // "slice", "map", "int", ""
	Coll     ssa.Value // the ranged collection (slice/array/map/string)
	Full     bool      // iterates the whole collection from the first element (index phi starts at -1, step 1)
	ElemLoad ssa.Value // value of the element (UnOp load of IndexAddr, or Extract of Next)
}

// analyseRange recognises the range idiom of go/ssa for the loop:
//
//	header: i = phi [pre: -1, body: i+1]; i+1 < len(coll) ? body : done       (slices)
//	header: t = next(range coll); ok = extract t #0 ? body : done               (maps)
func analyseRange(l *Loop) rangeInfo {
	h := l.Header
	for _, in := range h.Instrs {
		switch x := in.(type) {
		case *ssa.Next:
			if r, ok := x.Iter.(*ssa.Range); ok {
				ri := rangeInfo{Kind: "map", Coll: r.X, Full: true}
				if _, isStr := r.X.Type().Underlying().(*types.Basic); isStr {
					ri.Kind = "string"
				}
				return ri
			}
		}
	}
	// "for i := 0; i < len(coll); i++ { e := coll[i] ... }" is a full range as well
	if ci := analyseCounting(l); ci.OK && ci.Step == 1 && ci.Op == "<" {
		if c0, ok := constInt(ci.Init); ok && c0 == 0 {
			if call, ok := ci.Bound.(*ssa.Call); ok {
				if b, ok := call.Call.Value.(*ssa.Builtin); ok && b.Name() == "len" {
					ri := rangeInfo{Kind: "slice", Coll: call.Call.Args[0], Full: true}
					// the collection expression may be re-evaluated in the body: accept loads of the same field
					for blk := range l.Blocks {
						for _, in := range blk.Instrs {
							if ia, ok := in.(*ssa.IndexAddr); ok && ia.Index == ssa.Value(ci.Phi) && sameFieldLoad(ia.X, ri.Coll) {
								for _, r := range *ia.Referrers() {
									if u, ok := r.(*ssa.UnOp); ok && u.X == ssa.Value(ia) {
										ri.ElemLoad = u
									}
								}
							}
						}
					}
					if ri.ElemLoad != nil {
						return ri
					}
				}
			}
		}
	}
	// slice idiom
	ifi, ok := h.Instrs[len(h.Instrs)-1].(*ssa.If)
	if !ok {
		return rangeInfo{}
	}
	cmp, ok := ifi.Cond.(*ssa.BinOp)
	if !ok {
		return rangeInfo{}
	}
	// i+1 < len
	inc, ok := cmp.X.(*ssa.BinOp)
	if !ok || inc.Op.String() != "+" {
		return rangeInfo{}
	}
	phi, ok := inc.X.(*ssa.Phi)
	if !ok || phi.Block() != h {
		return rangeInfo{}
	}
	if c, ok := constInt(inc.Y); !ok || c != 1 {
		return rangeInfo{}
	}
	// start at -1?
	full := false
	for i, e := range phi.Edges {
		if !l.Blocks[h.Preds[i]] {
			if c, ok := constInt(e); ok && c == -1 {
				full = true
			}
		}
	}
	// len(coll)
	call, ok := cmp.Y.(*ssa.Call)
	if !ok {
		return rangeInfo{}
	}
	b, ok := call.Call.Value.(*ssa.Builtin)
	if !ok || b.Name() != "len" {
		return rangeInfo{}
	}
	ri := rangeInfo{Kind: "slice", Coll: call.Call.Args[0], Full: full && cmp.Op.String() == "<"}
	// element load in the body: *(&coll[i+1])
	for blk := range l.Blocks {
		for _, in := range blk.Instrs {
			if ia, ok := in.(*ssa.IndexAddr); ok && ia.X == ri.Coll && ia.Index == ssa.Value(inc) {
				for _, r := range *ia.Referrers() {
					if u, ok := r.(*ssa.UnOp); ok && u.X == ssa.Value(ia) {
						ri.ElemLoad = u
					}
				}
			}
			if ix, ok := in.(*ssa.Index); ok && ix.X == ri.Coll && ix.Index == ssa.Value(inc) {
				ri.ElemLoad = ix
			}
		}
	}
	return ri
}

func constInt(v ssa.Value) (int64, bool) {
	c, ok := v.(*ssa.Const)
	if !ok || c.Value == nil || c.Value.Kind() != constant.Int {
		return 0, false
	}
	i, ok := constant.Int64Val(c.Value)
	return i, ok
}

func constString(v ssa.Value) (string, bool) {
	c, ok := v.(*ssa.Const)
	if !ok || c.Value == nil || c.Value.Kind() != constant.String {
		return "", false
	}
	return constant.StringVal(c.Value), true
}

func isNilConst(v ssa.Value) bool {
	c, ok := v.(*ssa.Const)
	return ok && c.Value == nil
}

// ---------------------------------------------------------------------------------------
// reachability on the CFG

// reachableFrom returns blocks reachable from start (inclusive) without entering blocks in cut.
func reachableFrom(start *ssa.BasicBlock, cut map[*ssa.BasicBlock]bool) map[*ssa.BasicBlock]bool {
	seen := map[*ssa.BasicBlock]bool{}
	var stack []*ssa.BasicBlock
	if !cut[start] {
		stack = append(stack, start)
	}
	for len(stack) > 0 {
		b := stack[len(stack)-1]
		stack = stack[:len(stack)-1]
		if seen[b] {
			continue
		}
		seen[b] = true
		for _, s := range b.Succs {
			if !cut[s] && !seen[s] {
				stack = append(stack, s)
			}
		}
	}
	return seen
}

// canReach returns blocks from which target is reachable (inclusive).
func canReach(target *ssa.BasicBlock) map[*ssa.BasicBlock]bool {
	seen := map[*ssa.BasicBlock]bool{}
	stack := []*ssa.BasicBlock{target}
	for len(stack) > 0 {
		b := stack[len(stack)-1]
		stack = stack[:len(stack)-1]
		if seen[b] {
			continue
		}
		seen[b] = true
		for _, p := range b.Preds {
			if !seen[p] {
				stack = append(stack, p)
			}
		}
	}
	return seen
}

func instrIndex(in ssa.Instruction) int {
	for i, x := range in.Block().Instrs {
		if x == in {
			return i
		}
	}
	return -1
}

// instrDominates: a executes before b on every path reaching b.
func instrDominates(a, b ssa.Instruction) bool {
	if a.Block() == b.Block() {
		return instrIndex(a) < instrIndex(b)
	}
	return a.Block().Dominates(b.Block())
}

// mayFollow: there is a CFG path on which b executes after a (same function).
func mayFollow(a, b ssa.Instruction) bool {
	if a.Block() == b.Block() && instrIndex(a) < instrIndex(b) {
		return true
	}
	for _, s := range a.Block().Succs {
		if reachableFrom(s, nil)[b.Block()] {
			return true
		}
	}
	return false
}

// mustPassThrough: every path from instruction a to instruction b contains an instruction
// satisfying via (a and b themselves excluded). Decided as: b unreachable from a once the
// via instructions are removed. Block granularity with instruction order inside the
// blocks of a and b.
func mustPassThrough(a, b ssa.Instruction, via func(ssa.Instruction) bool) bool {
	// position helpers
	type pt struct {
		blk *ssa.BasicBlock
		idx int
	}
	start := pt{a.Block(), instrIndex(a) + 1}
	// DFS over (block, startIdx) scanning instructions
	seen := map[*ssa.BasicBlock]bool{}
	var walk func(p pt) bool // returns true if b reached without via
	walk = func(p pt) bool {
		for i := p.idx; i < len(p.blk.Instrs); i++ {
			in := p.blk.Instrs[i]
			if in == b {
				return true
			}
			if via(in) {
				return false
			}
		}
		for _, s := range p.blk.Succs {
			if seen[s] {
				continue
			}
			seen[s] = true
			if walk(pt{s, 0}) {
				return true
			}
		}
		return false
	}
	return !walk(start)
}

// ---------------------------------------------------------------------------------------
// misc

func calleeName(c *ssa.CallCommon) string {
	if c.IsInvoke() {
		return "(" + recvName(c.Value.Type()) + ")." + c.Method.Name()
	}
	if f := c.StaticCallee(); f != nil {
		return fnKey(f)
	}
	if b, ok := c.Value.(*ssa.Builtin); ok {
		return "builtin." + b.Name()
	}
	return "dynamic:" + c.Value.Name()
}

// fullCalleeName includes the package path for non-module functions (e.g. "time.Now").
func extCalleeName(c *ssa.CallCommon) string {
	if f := c.StaticCallee(); f != nil {
		if f.Pkg != nil {
			p := f.Pkg.Pkg.Path()
			if f.Signature.Recv() != nil {
				return p + ".(" + recvName(f.Signature.Recv().Type()) + ")." + f.Name()
			}
			return p + "." + f.Name()
		}
		if f.Object() != nil && f.Object().Pkg() != nil {
			return f.Object().Pkg().Path() + "." + f.Name()
		}
	}
	return calleeName(c)
}

func namedStruct(t types.Type) (string, *types.Struct) {
	if p, ok := t.(*types.Pointer); ok {
		t = p.Elem()
	}
	n, ok := t.(*types.Named)
	if !ok {
		if s, ok := t.Underlying().(*types.Struct); ok {
			return "", s
		}
		return "", nil
	}
	s, ok := n.Underlying().(*types.Struct)
	if !ok {
		return n.Obj().Name(), nil
	}
	pk := ""
	if n.Obj().Pkg() != nil {
		pk = shortPkg(n.Obj().Pkg().Path()) + "."
	}
	return pk + n.Obj().Name(), s
}

// fieldKey returns "pkg.Type.Field" for a FieldAddr / Field instruction.
func fieldKeyOf(x ssa.Value, field int) string {
	name, st := namedStruct(x.Type())
	if st == nil {
		return "?"
	}
	return name + "." + st.Field(field).Name()
}

func typeShort(t types.Type) string {
	s := types.TypeString(t, func(p *types.Package) string { return shortPkg(p.Path()) })
	return s
}

func hasSuffixAny(s string, sufs ...string) bool {
	for _, x := range sufs {
		if strings.HasSuffix(s, x) {
			return true
		}
	}
	return false
}

func sortedKeys[V any](m map[string]V) []string {
	var ks []string
	for k := range m {
		ks = append(ks, k)
	}
	sort.Strings(ks)
	return ks
}

func constantToFloat(c *ssa.Const) (float64, bool) {
	if c.Value == nil {
		return 0, false
	}
	f, ok := constant.Float64Val(constant.ToFloat(c.Value))
	return f, ok
}

// countingInfo describes "for i := init; i < bound; i++" as go/ssa builds it.
type countingInfo struct {
	OK    bool
	Phi   *ssa.Phi
	Init  ssa.Value
	Bound ssa.Value
	Op    string // "<" or "<="
	Step  int64
}

func analyseCounting(l *Loop) countingInfo {
	h := l.Header
	ifi, ok := h.Instrs[len(h.Instrs)-1].(*ssa.If)
	if !ok {
		return countingInfo{}
	}
	cmp, ok := ifi.Cond.(*ssa.BinOp)
	if !ok || (cmp.Op.String() != "<" && cmp.Op.String() != "<=") {
		return countingInfo{}
	}
	phi, ok := cmp.X.(*ssa.Phi)
	if !ok || phi.Block() != h {
		return countingInfo{}
	}
	ci := countingInfo{Phi: phi, Bound: cmp.Y, Op: cmp.Op.String()}
	for i, e := range phi.Edges {
		if l.Blocks[h.Preds[i]] {
			inc, ok := e.(*ssa.BinOp)
			if !ok || inc.Op.String() != "+" || inc.X != ssa.Value(phi) {
				return countingInfo{}
			}
			st, ok := constInt(inc.Y)
			if !ok {
				return countingInfo{}
			}
			ci.Step = st
		} else {
			ci.Init = e
		}
	}
	// the loop is entered on the true edge
	if !l.Blocks[h.Succs[0]] {
		return countingInfo{}
	}
	ci.OK = ci.Init != nil && ci.Step != 0
	return ci
}

// sameFieldLoad: a and b are the same value, or loads of the same field through the same base.
func sameFieldLoad(a, b ssa.Value) bool {
	if a == b {
		return true
	}
	ua, ok1 := a.(*ssa.UnOp)
	ub, ok2 := b.(*ssa.UnOp)
	if !ok1 || !ok2 {
		return false
	}
	fa, ok1 := ua.X.(*ssa.FieldAddr)
	fb, ok2 := ub.X.(*ssa.FieldAddr)
	if !ok1 || !ok2 || fa.Field != fb.Field {
		return false
	}
	return fieldKeyOf(fa.X, fa.Field) == fieldKeyOf(fb.X, fb.Field) && (fa.X == fb.X || sameFieldLoad(fa.X, fb.X) || sameAddrChain(fa.X, fb.X))
}

func sameAddrChain(a, b ssa.Value) bool {
	if a == b {
		return true
	}
	fa, ok1 := a.(*ssa.FieldAddr)
	fb, ok2 := b.(*ssa.FieldAddr)
	if ok1 && ok2 && fa.Field == fb.Field {
		return sameAddrChain(fa.X, fb.X) || sameFieldLoad(fa.X, fb.X)
	}
	ua, ok1 := a.(*ssa.UnOp)
	ub, ok2 := b.(*ssa.UnOp)
	if ok1 && ok2 {
		return sameAddrChain(ua.X, ub.X)
	}
	return false
}

// hostLoop is a loop met on the paths of a function analysed with its helpers in place: the loop
// and the function (the analysed one or a helper) whose body holds it.
type hostLoop struct {
	Fn *ssa.Function
	L  *Loop
}

// loopsWithHelpers lists the loops on the paths of fn, those of inlined helpers included, in the
// order they are first met.
func loopsWithHelpers(s *Summ, fn *ssa.Function) []hostLoop {
	paths, _ := s.Function(fn)
	seen := map[*Loop]bool{}
	var out []hostLoop
	for _, ps := range paths {
		for _, e := range ps.Events {
			if e.Kind == "loop" && e.Loop != nil && !seen[e.Loop] {
				seen[e.Loop] = true
				out = append(out, hostLoop{e.InFn, e.Loop})
			}
		}
	}
	return out
}

// withPrivateHelpers makes s read the package-private helpers of owner where they are called,
// the ones that hold loops too.
func withPrivateHelpers(s *Summ, owner *ssa.Function) *Summ {
	s.HelperInline = func(f *ssa.Function) bool { return privateHelper(owner, f) }
	return s
}
