package main

import (
	"fmt"
	"go/token"
	"sort"
	"strings"

	"golang.org/x/tools/go/ssa"
)

// E7 — event graph of the hand engine, extracted from path summaries.

type outcome struct {
	Kind  string   // "emit", "resume", "wait" (nil return without emit), "refuse" (sentinel error), "fail" (other error), "other"
	Event string   // emit: event constant name
	Err   string   // refuse/fail: sentinel name or callee expression
	Path  *PathSum // the path (in function In) on which the outcome is produced
	In    *ssa.Function
	Chain []*PathSum // caller paths leading here, outermost first (Path is the last element)
}

// Conds returns the branch decisions of the whole chain, outermost first.
func (o outcome) Conds() []Cond {
	var out []Cond
	for _, ps := range o.Chain {
		out = append(out, ps.Conds...)
	}
	return out
}

// Events returns the events of the whole chain in order of the outermost path, with callee
// paths appended (tail calls: the callee's events follow the caller's).
func (o outcome) Events() []*Event {
	var out []*Event
	for _, ps := range o.Chain {
		out = append(out, ps.Events...)
	}
	return out
}

type EventGraph struct {
	c         *Ctx
	EventTyp  []namedConst             // declared GameEvent constants
	ByVal     map[string]string        // "3" -> "GameEvent_AnteRequested"
	Symbols   map[string]string        // const name -> symbol
	Handler   map[string]*ssa.Function // event const name -> handler (nil when the case is empty)
	Cases     map[string]bool          // event const names with a case in the dispatcher
	MayEmit   map[*ssa.Function]bool
	AlwaysNil map[*ssa.Function]bool
	Emit      *ssa.Function // EmitEvent
	Resume    *ssa.Function
	Trigger   *ssa.Function
	outcomes  map[*ssa.Function][]outcome
	NonTail   []string
	problems  []string
}

// alwaysNilFns: functions with a single error result all of whose returns are the nil
// constant or the result of another always-nil function.
func alwaysNilFns(p *Prog) map[*ssa.Function]bool {
	cand := map[*ssa.Function]bool{}
	for _, fn := range p.Funcs {
		res := fn.Signature.Results()
		if res.Len() == 1 && typeShort(res.At(0).Type()) == "error" {
			cand[fn] = true
		}
	}
	changed := true
	for changed {
		changed = false
		for fn := range cand {
			ok := true
			var check func(v ssa.Value, depth int) bool
			check = func(v ssa.Value, depth int) bool {
				if depth > 6 {
					return false
				}
				switch x := v.(type) {
				case *ssa.Const:
					return x.Value == nil
				case *ssa.Call:
					cs := p.Callees(x.Common())
					if len(cs) == 0 {
						return false
					}
					for _, t := range cs {
						if !cand[t] {
							return false
						}
					}
					return true
				case *ssa.Phi:
					for _, e := range x.Edges {
						if !check(e, depth+1) {
							return false
						}
					}
					return true
				}
				return false
			}
			for _, b := range fn.Blocks {
				if r, isRet := b.Instrs[len(b.Instrs)-1].(*ssa.Return); isRet {
					if len(r.Results) != 1 || !check(r.Results[0], 0) {
						ok = false
					}
				}
			}
			if !ok {
				delete(cand, fn)
				changed = true
			}
		}
	}
	return cand
}

func buildEventGraph(c *Ctx, ea *engineAnchors) *EventGraph {
	p := c.P
	ix := p.Index()
	eg := &EventGraph{c: c, ByVal: map[string]string{}, Symbols: map[string]string{}, Handler: map[string]*ssa.Function{},
		Cases: map[string]bool{}, MayEmit: map[*ssa.Function]bool{}, outcomes: map[*ssa.Function][]outcome{}}
	eg.EventTyp = p.ConstsOfType("pokerface", "GameEvent")
	for _, k := range eg.EventTyp {
		eg.ByVal[k.Val.ExactString()] = k.Name
	}
	eg.Emit = p.Func("pokerface", ea.gameImpl, "EmitEvent")
	eg.Resume = p.Func("pokerface", ea.gameImpl, "Resume")
	eg.AlwaysNil = alwaysNilFns(p)
	if eg.Emit == nil || eg.Resume == nil {
		eg.problems = append(eg.problems, "EmitEvent / Resume not found")
		return eg
	}
	// dispatcher: the function with a switch on a GameEvent parameter (role, not name)
	for _, fn := range p.MethodsOf("pokerface", ea.gameImpl) {
		if len(fn.Params) == 2 && typeShort(fn.Params[1].Type()) == "pokerface.GameEvent" && fn != eg.Emit {
			nCmp := 0
			for _, b := range fn.Blocks {
				for _, in := range b.Instrs {
					if bo, ok := in.(*ssa.BinOp); ok && bo.X == ssa.Value(fn.Params[1]) {
						nCmp++
					}
				}
			}
			if nCmp >= 3 {
				if eg.Trigger != nil {
					eg.problems = append(eg.problems, "several dispatcher candidates")
				}
				eg.Trigger = fn
			}
		}
	}
	if eg.Trigger == nil {
		eg.problems = append(eg.problems, "no dispatcher (switch on a GameEvent parameter) found")
		return eg
	}
	c.role("event dispatcher", fnKey(eg.Trigger))
	// MayEmit: functions from which EmitEvent or Resume is reachable
	for _, fn := range p.Funcs {
		if fn == eg.Emit || fn == eg.Resume {
			eg.MayEmit[fn] = true
			continue
		}
		if fi := ix.Info[fn]; fi != nil && (fi.TCalls[eg.Emit] || fi.TCalls[eg.Resume]) {
			eg.MayEmit[fn] = true
		}
	}
	// handler table from the dispatcher's decision table
	s := eg.summ(0)
	paths, cut := s.Function(eg.Trigger)
	if cut != "" {
		eg.problems = append(eg.problems, "dispatcher summary cut: "+cut)
	}
	for _, ps := range paths {
		ev := ""
		for _, cd := range ps.Conds {
			if cd.V.K == KAtom && cd.V.At.Op == "eq" && !cd.V.Neg {
				// param:event - K == 0  or K - param:event == 0
				a := cd.V.At.A
				if len(a.T) == 1 {
					for t, co := range a.T {
						if strings.HasPrefix(t, "param:") {
							k := -a.C * co
							ev = eg.ByVal[fmt.Sprint(k)]
						}
					}
				}
			}
		}
		if ev == "" {
			continue
		}
		eg.Cases[ev] = true
		var h *ssa.Function
		for _, e := range ps.Events {
			if e.Kind == "call" && e.Fn != nil && e.Fn != eg.Trigger {
				h = e.Fn
			}
		}
		eg.Handler[ev] = h
	}
	return eg
}

func (eg *EventGraph) summ(depth int) *Summ {
	s := newSumm(eg.c.P, depth)
	s.NilFns = eg.AlwaysNil
	// never inline anything that may emit: emits must stay visible as call events
	s.InlineFilter = func(fn *ssa.Function) bool { return !eg.MayEmit[fn] }
	// package-private helpers that do not emit are analysed where they are used (also when they
	// contain loops): splitting a handler body into helpers must not hide its error exits
	s.HelperInline = func(fn *ssa.Function) bool {
		if eg.MayEmit[fn] || fn.Pkg == nil || shortPkg(fn.Pkg.Pkg.Path()) != "pokerface" || fn.Parent() != nil || token.IsExported(fn.Name()) {
			return false
		}
		// only helpers with an error result matter for the event flow (their failure exits)
		res := fn.Signature.Results()
		return res.Len() >= 1 && typeShort(res.At(res.Len()-1).Type()) == "error" && !eg.AlwaysNil[fn]
	}
	return s
}

// eventName resolves the constant argument of an EmitEvent call.
func (eg *EventGraph) eventName(v *Val) string {
	if c, ok := v.isConstInt(); ok {
		return eg.ByVal[fmt.Sprint(c)]
	}
	return ""
}

// Outcomes computes, for fn, what each path does first with respect to the event chain.
// Every call to a may-emit function must be in tail position (C06/tail-emit); violations
// are collected in eg.NonTail.
func (eg *EventGraph) Outcomes(fn *ssa.Function) []outcome {
	if o, ok := eg.outcomes[fn]; ok {
		return o
	}
	eg.outcomes[fn] = nil // recursion guard
	c := eg.c
	c.touch(fnKey(fn))
	s := eg.summ(2)
	paths, cut := s.Function(fn)
	if cut != "" {
		eg.problems = append(eg.problems, fnKey(fn)+": summary cut: "+cut)
	}
	var out []outcome
	for _, ps := range paths {
		if ps.End == "panic" {
			continue
		}
		if strings.HasPrefix(ps.End, "cut") {
			eg.problems = append(eg.problems, fnKey(fn)+": incomplete path "+ps.End)
			continue
		}
		// find the first may-emit call on the path
		var emitCall *Event
		emitIdx := -1
		for i, e := range ps.Events {
			if e.Kind == "loop" {
				// loops must not contain may-emit calls
				for blk := range e.Loop.Blocks {
					for _, in := range blk.Instrs {
						if ci, ok := in.(ssa.CallInstruction); ok {
							for _, t := range c.P.Index().targets(e.InFn, ci.Common()) {
								if eg.MayEmit[t] {
									eg.NonTail = append(eg.NonTail, fmt.Sprintf("%s: call of %s inside a loop (%s)", fnKey(e.InFn), fnKey(t), c.P.InstrPos(in)))
								}
							}
						}
					}
				}
			}
			if (e.Kind == "call" || e.Kind == "defer" || e.Kind == "go") && e.Fn != nil && eg.MayEmit[e.Fn] {
				emitCall = e
				emitIdx = i
				break
			}
		}
		if emitCall == nil {
			// returns without emitting
			o := outcome{Path: ps, In: fn, Chain: []*PathSum{ps}}
			if len(ps.Ret) == 0 {
				o.Kind = "wait"
			} else {
				r := ps.Ret[len(ps.Ret)-1]
				if r.K == KConst && r.S == "nil" {
					o.Kind = "wait"
				} else if name, ok := c.sentinelError(r); ok {
					o.Kind = "refuse"
					o.Err = name
				} else {
					o.Kind = "fail"
					o.Err = r.String()
				}
			}
			out = append(out, o)
			continue
		}
		// tail position: the call's result is what the path returns and no effect follows
		// (pointer identity of the abstract value: survives the defer spill *r = call; rundefers; return *r)
		tail := emitCall.Kind == "call" && len(ps.Ret) > 0 && emitCall.Res != nil && ps.Ret[len(ps.Ret)-1] == emitCall.Res
		if tail {
			for _, e := range ps.Events[emitIdx+1:] {
				if eff, why := c.effectOf(e); eff {
					tail = false
					_ = why
				}
				if (e.Kind == "call") && e.Fn != nil && eg.MayEmit[e.Fn] {
					tail = false
				}
			}
		}
		if !tail {
			eg.NonTail = append(eg.NonTail, fmt.Sprintf("%s: call of %s at %s is not in tail position (its result is not returned directly, or effects follow it)", fnKey(fn), emitCall.Callee, emitCall.Pos))
		}
		switch {
		case emitCall.Fn == eg.Emit:
			name := ""
			if len(emitCall.Args) >= 2 {
				name = eg.eventName(emitCall.Args[1])
			}
			if name == "" {
				if fn == eg.Resume {
					out = append(out, outcome{Kind: "resume", Path: ps, In: fn, Chain: []*PathSum{ps}})
				} else {
					out = append(out, outcome{Kind: "other", Err: "EmitEvent with a non-constant event", Path: ps, In: fn, Chain: []*PathSum{ps}})
				}
			} else {
				out = append(out, outcome{Kind: "emit", Event: name, Path: ps, In: fn, Chain: []*PathSum{ps}})
			}
		case emitCall.Fn == eg.Resume:
			out = append(out, outcome{Kind: "resume", Path: ps, In: fn, Chain: []*PathSum{ps}})
		default:
			for _, o := range eg.Outcomes(emitCall.Fn) {
				o2 := eg.instantiate(o, emitCall.Fn, emitCall.Args)
				o2.Chain = append([]*PathSum{ps}, o2.Chain...)
				out = append(out, o2)
			}
		}
	}
	eg.outcomes[fn] = out
	return out
}

func outcomeSet(os []outcome) []string {
	m := map[string]bool{}
	for _, o := range os {
		switch o.Kind {
		case "emit":
			m["emit:"+o.Event] = true
		case "refuse", "fail":
			m[o.Kind+":"+o.Err] = true
		default:
			m[o.Kind] = true
		}
	}
	var out []string
	for k := range m {
		out = append(out, k)
	}
	sort.Strings(out)
	return out
}

// Trace: what happens from the entry of a function until the event chain comes to rest.
type Trace struct {
	Events []*Event
	Emits  []string // events emitted on the way, in order
	End    string   // "wait", "refuse", "fail", "resume", "cycle", "other"
	Wait   string   // event at which the chain rests (last emitted; "" if none)
	Err    string
}

// Traces follows tail emits through the handler table until a wait/refusal. followResume:
// the event to re-enter when a path ends in Resume ("" = stop there).
func (eg *EventGraph) Traces(fn *ssa.Function, followResume string) []Trace {
	var out []Trace
	const roundLoc = "GS.Status.Round"
	// feasibility across handlers: the street (Status.Round) is tracked along the chain — a
	// path that tests Round == "preflop" cannot follow one that has just stored or assumed "flop"
	type rstate struct {
		known string          // constant last stored into Status.Round ("" = not stored on this chain)
		yes   string          // assumed equal to (from a branch), when not stored
		no    map[string]bool // assumed different from
	}
	feasible := func(rs rstate, o outcome) (rstate, bool) {
		ns := rstate{known: rs.known, yes: rs.yes, no: map[string]bool{}}
		for k := range rs.no {
			ns.no[k] = true
		}
		for _, ps := range o.Chain {
			ci := 0
			step := func(upto int) bool {
				for ci < len(ps.Conds) && ps.Conds[ci].NEv <= upto {
					cd := ps.Conds[ci]
					ci++
					if cd.V.K != KAtom || cd.V.At.Op != "is" {
						continue
					}
					k := ""
					if cd.V.At.L == roundLoc && isQuoted(cd.V.At.R) {
						k = cd.V.At.R
					} else if cd.V.At.R == roundLoc && isQuoted(cd.V.At.L) {
						k = cd.V.At.L
					} else {
						continue
					}
					eq := !cd.V.Neg
					cur := ns.known
					if cur == "" {
						cur = ns.yes
					}
					if cur != "" {
						if (cur == k) != eq {
							return false
						}
						continue
					}
					if eq {
						if ns.no[k] {
							return false
						}
						ns.yes = k
					} else {
						ns.no[k] = true
					}
				}
				return true
			}
			for ei, e := range ps.Events {
				if !step(ei) {
					return ns, false
				}
				if e.Kind == "store" && e.Loc == roundLoc {
					ns.known = e.Val.String()
					ns.yes = ""
					ns.no = map[string]bool{}
				}
			}
			if !step(len(ps.Events) + 1) {
				return ns, false
			}
		}
		return ns, true
	}
	var walk func(f *ssa.Function, evs []*Event, emits []string, rs rstate, depth int)
	walk = func(f *ssa.Function, evs []*Event, emits []string, rs rstate, depth int) {
		if len(out) > 20000 {
			return
		}
		for _, o := range eg.Outcomes(f) {
			ns, ok := feasible(rs, o)
			if !ok {
				continue
			}
			e2 := append(append([]*Event(nil), evs...), o.Events()...)
			last := ""
			if len(emits) > 0 {
				last = emits[len(emits)-1]
			}
			switch o.Kind {
			case "emit":
				em := append(append([]string(nil), emits...), o.Event)
				h := eg.Handler[o.Event]
				seen := 0
				for _, x := range emits {
					if x == o.Event {
						seen++
					}
				}
				if h == nil {
					out = append(out, Trace{Events: e2, Emits: em, End: "wait", Wait: o.Event})
				} else if seen > 0 || depth > 16 {
					out = append(out, Trace{Events: e2, Emits: em, End: "cycle", Wait: o.Event})
				} else {
					walk(h, e2, em, ns, depth+1)
				}
			case "wait":
				out = append(out, Trace{Events: e2, Emits: emits, End: "wait", Wait: last})
			case "resume":
				if followResume != "" && eg.Handler[followResume] != nil && depth < 16 {
					em := append(append([]string(nil), emits...), followResume)
					walk(eg.Handler[followResume], e2, em, ns, depth+1)
				} else {
					out = append(out, Trace{Events: e2, Emits: emits, End: "resume", Wait: last})
				}
			default:
				out = append(out, Trace{Events: e2, Emits: emits, End: o.Kind, Wait: last, Err: o.Err})
			}
		}
	}
	walk(fn, nil, nil, rstate{no: map[string]bool{}}, 0)
	return out
}

// ---------------------------------------------------------------------------------------
// instantiation of a callee's outcome for one call site: a helper that takes the street or the
// event as a parameter (enterRound(round, event)) is read with the arguments of the call.

func substVal(v *Val, m map[string]*Val) *Val {
	if v == nil || len(m) == 0 {
		return v
	}
	repl := func(s string) string {
		for k, a := range m {
			if strings.Contains(s, k) {
				s = strings.ReplaceAll(s, k, a.String())
			}
		}
		return s
	}
	switch v.K {
	case KAff:
		out := affConst(v.A.C)
		for t, c := range v.A.T {
			if a, ok := m[t]; ok {
				out = out.add(a.asAff(), c)
			} else {
				out = out.add(affTerm(repl(t)), c)
			}
		}
		nv := vAff(out)
		nv.Typ = v.Typ
		return nv
	case KSym:
		if a, ok := m[v.S]; ok {
			return a
		}
		nv := *v
		nv.S = repl(v.S)
		if len(v.Args) > 0 {
			nv.Args = make([]*Val, len(v.Args))
			for i, a := range v.Args {
				nv.Args[i] = substVal(a, m)
			}
		}
		return &nv
	case KAddr:
		nv := *v
		nv.S = repl(v.S)
		return &nv
	case KAtom:
		at := *v.At
		if at.A != nil {
			at.A = substVal(vAff(at.A), m).asAff()
		}
		at.L, at.R = repl(at.L), repl(at.R)
		// an "is" atom whose two sides became literals is decided
		nv := *v
		nv.At = &at
		return &nv
	case KTuple:
		nv := *v
		nv.Args = make([]*Val, len(v.Args))
		for i, a := range v.Args {
			nv.Args[i] = substVal(a, m)
		}
		return &nv
	}
	return v
}

func instPath(ps *PathSum, m map[string]*Val) *PathSum {
	if len(m) == 0 {
		return ps
	}
	np := *ps
	np.Conds = make([]Cond, len(ps.Conds))
	for i, c := range ps.Conds {
		nc := c
		nc.V = substVal(c.V, m)
		np.Conds[i] = nc
	}
	np.Events = make([]*Event, len(ps.Events))
	for i, e := range ps.Events {
		ne := *e
		if len(e.Args) > 0 {
			ne.Args = make([]*Val, len(e.Args))
			for j, a := range e.Args {
				ne.Args[j] = substVal(a, m)
			}
		}
		ne.Val = substVal(e.Val, m)
		if e.Res != nil {
			// keep pointer identity of results that do not change (tail detection compares pointers)
			if r := substVal(e.Res, m); r.String() != e.Res.String() {
				ne.Res = r
			}
		}
		for k, a := range m {
			if strings.Contains(ne.Loc, k) {
				ne.Loc = strings.ReplaceAll(ne.Loc, k, a.String())
			}
		}
		np.Events[i] = &ne
	}
	np.Ret = make([]*Val, len(ps.Ret))
	for i, r := range ps.Ret {
		np.Ret[i] = r
	}
	np.Store = map[string]*Val{}
	for k, v := range ps.Store {
		np.Store[k] = substVal(v, m)
	}
	return &np
}

// instantiate re-reads a callee outcome with the arguments of one call.
func (eg *EventGraph) instantiate(o outcome, callee *ssa.Function, args []*Val) outcome {
	m := map[string]*Val{}
	for i, prm := range callee.Params {
		if i < len(args) && args[i] != nil && args[i].String() != "param:"+prm.Name() {
			// only parameters the callee's summary can mention by name
			m["param:"+prm.Name()] = args[i]
		}
	}
	if len(m) == 0 {
		return o
	}
	used := false
	for _, ps := range o.Chain {
		for _, c := range ps.Conds {
			for k := range m {
				if strings.Contains(c.V.String(), k) {
					used = true
				}
			}
		}
		for _, e := range ps.Events {
			for k := range m {
				if (e.Val != nil && strings.Contains(e.Val.String(), k)) || strings.Contains(e.String(), k) {
					used = true
				}
			}
		}
	}
	if !used {
		return o
	}
	o2 := o
	o2.Chain = make([]*PathSum, len(o.Chain))
	for i, ps := range o.Chain {
		o2.Chain[i] = instPath(ps, m)
		if ps == o.Path {
			o2.Path = o2.Chain[i]
		}
	}
	if o2.Kind == "other" && strings.Contains(o2.Err, "non-constant event") {
		for _, e := range o2.Path.Events {
			if e.Kind == "call" && e.Fn == eg.Emit && len(e.Args) >= 2 {
				if name := eg.eventName(e.Args[1]); name != "" {
					o2.Kind, o2.Event, o2.Err = "emit", name, ""
				}
			}
		}
	}
	return o2
}
