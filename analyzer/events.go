package main

import (
	"fmt"
	"go/token"
	"go/types"
	"sort"
	"strings"

	"golang.org/x/tools/go/ssa"
)

// E7 — event graph of the hand engine, extracted from path summaries.

type outcome struct {
	Kind  string   // "emit", "resume", "wait" (nil return without emit), "refuse" (sentinel error), "fail" (other error), "other"
	Event string   // emit: event constant name
	Err   string   // refuse/fail: sentinel name or callee expression
	Path  *PathSum // the path (in function In) on which the outcome is produced
	In    *ssa.Function
	Chain []*PathSum // caller paths leading here, outermost first (Path is the last element)
}

// Conds returns the branch decisions of the whole chain, outermost first.
func (o outcome) Conds() []Cond {
	var out []Cond
	for _, ps := range o.Chain {
		out = append(out, ps.Conds...)
	}
	return out
}

// Events returns the events of the whole chain in order of the outermost path, with callee
// paths appended (tail calls: the callee's events follow the caller's).
func (o outcome) Events() []*Event {
	var out []*Event
	for _, ps := range o.Chain {
		out = append(out, ps.Events...)
	}
	return out
}

type EventGraph struct {
	c         *Ctx
	EventTyp  []namedConst             // declared GameEvent constants
	ByVal     map[string]string        // "3" -> "GameEvent_AnteRequested"
	Symbols   map[string]string        // const name -> symbol
	Handler   map[string]*ssa.Function // event const name -> handler (nil when the case is empty)
	Cases     map[string]bool          // event const names with a case in the dispatcher
	MayEmit   map[*ssa.Function]bool
	AlwaysNil map[*ssa.Function]bool
	Emit      *ssa.Function // EmitEvent
	Resume    *ssa.Function
	Trigger   *ssa.Function
	outcomes  map[*ssa.Function][]outcome
	NonTail   []string
	problems  []string
}

// alwaysNilFns: functions with a single error result all of whose returns are the nil
// constant or the result of another always-nil function.
func alwaysNilFns(p *Prog) map[*ssa.Function]bool {
	cand := map[*ssa.Function]bool{}
	for _, fn := range p.Funcs {
		res := fn.Signature.Results()
		if res.Len() == 1 && typeShort(res.At(0).Type()) == "error" {
			cand[fn] = true
		}
	}
	changed := true
	for changed {
		changed = false
		for fn := range cand {
			ok := true
			var check func(v ssa.Value, depth int) bool
			check = func(v ssa.Value, depth int) bool {
				if depth > 6 {
					return false
				}
				switch x := v.(type) {
				case *ssa.Const:
					return x.Value == nil
				case *ssa.Call:
					cs := p.Callees(x.Common())
					if len(cs) == 0 {
						return false
					}
					for _, t := range cs {
						if !cand[t] {
							return false
						}
					}
					return true
				case *ssa.Phi:
					for _, e := range x.Edges {
						if !check(e, depth+1) {
							return false
						}
					}
					return true
				}
				return false
			}
			for _, b := range fn.Blocks {
				if r, isRet := b.Instrs[len(b.Instrs)-1].(*ssa.Return); isRet {
					if len(r.Results) != 1 || !check(r.Results[0], 0) {
						ok = false
					}
				}
			}
			if !ok {
				delete(cand, fn)
				changed = true
			}
		}
	}
	return cand
}

func buildEventGraph(c *Ctx, ea *engineAnchors) *EventGraph {
	p := c.P
	ix := p.Index()
	eg := &EventGraph{c: c, ByVal: map[string]string{}, Symbols: map[string]string{}, Handler: map[string]*ssa.Function{},
		Cases: map[string]bool{}, MayEmit: map[*ssa.Function]bool{}, outcomes: map[*ssa.Function][]outcome{}}
	eg.EventTyp = p.ConstsOfType("pokerface", "GameEvent")
	for _, k := range eg.EventTyp {
		eg.ByVal[k.Val.ExactString()] = k.Name
	}
	eg.Emit = p.Func("pokerface", ea.gameImpl, "EmitEvent")
	eg.Resume = p.Func("pokerface", ea.gameImpl, "Resume")
	eg.AlwaysNil = alwaysNilFns(p)
	if eg.Emit == nil || eg.Resume == nil {
		eg.problems = append(eg.problems, "EmitEvent / Resume not found")
		return eg
	}
	// dispatcher: the function with a switch on a GameEvent parameter (role, not name)
	for _, fn := range p.MethodsOf("pokerface", ea.gameImpl) {
		if len(fn.Params) == 2 && typeShort(fn.Params[1].Type()) == "pokerface.GameEvent" && fn != eg.Emit {
			nCmp := 0
			for _, b := range fn.Blocks {
				for _, in := range b.Instrs {
					if bo, ok := in.(*ssa.BinOp); ok && bo.X == ssa.Value(fn.Params[1]) {
						nCmp++
					}
				}
			}
			if nCmp >= 3 {
				if eg.Trigger != nil {
					eg.problems = append(eg.problems, "several dispatcher candidates")
				}
				eg.Trigger = fn
			}
		}
	}
	if eg.Trigger == nil {
		// third form: a package-level map from events to handlers, filled once (a literal in a
		// declaration or in init), consulted by the dispatching function with its event parameter
		if trig, table := mapDispatcher(p, ea, eg.Emit); trig != nil {
			eg.Trigger = trig
			c.role("event dispatcher", fnKey(trig)+" via a handler map")
			for _, fn := range p.Funcs {
				if fn == eg.Emit || fn == eg.Resume {
					eg.MayEmit[fn] = true
					continue
				}
				if fi := ix.Info[fn]; fi != nil && (fi.TCalls[eg.Emit] || fi.TCalls[eg.Resume]) {
					eg.MayEmit[fn] = true
				}
			}
			eg.MayEmit[trig] = true
			for k, h := range table {
				if name := eg.ByVal[k]; name != "" {
					eg.Cases[name] = true
					eg.Handler[name] = h
				}
			}
			return eg
		}
		eg.problems = append(eg.problems, "no dispatcher (switch on a GameEvent parameter) found")
		return eg
	}
	c.role("event dispatcher", fnKey(eg.Trigger))
	// MayEmit: functions from which EmitEvent or Resume is reachable
	for _, fn := range p.Funcs {
		if fn == eg.Emit || fn == eg.Resume {
			eg.MayEmit[fn] = true
			continue
		}
		if fi := ix.Info[fn]; fi != nil && (fi.TCalls[eg.Emit] || fi.TCalls[eg.Resume]) {
			eg.MayEmit[fn] = true
		}
	}
	// handler table from the dispatcher's decision table; the switch may instead live in a lookup
	// function that returns the handler as a method value
	table := false
	if res := eg.Trigger.Signature.Results(); res.Len() == 1 {
		if _, isFn := res.At(0).Type().Underlying().(*types.Signature); isFn {
			table = true
		}
	}
	s := eg.summ(0)
	paths, cut := s.Function(eg.Trigger)
	if cut != "" {
		eg.problems = append(eg.problems, "dispatcher summary cut: "+cut)
	}
	for _, ps := range paths {
		ev := ""
		for _, cd := range ps.Conds {
			if cd.V.K == KAtom && cd.V.At.Op == "eq" && !cd.V.Neg {
				// param:event - K == 0  or K - param:event == 0
				a := cd.V.At.A
				if len(a.T) == 1 {
					for t, co := range a.T {
						if strings.HasPrefix(t, "param:") {
							k := -a.C * co
							ev = eg.ByVal[fmt.Sprint(k)]
						}
					}
				}
			}
		}
		if ev == "" {
			continue
		}
		eg.Cases[ev] = true
		var h *ssa.Function
		for _, e := range ps.Events {
			if e.Kind == "call" && e.Fn != nil && e.Fn != eg.Trigger {
				h = e.Fn
			}
		}
		if table && ps.RetInstr != nil && len(ps.RetInstr.Results) == 1 {
			// a lookup table: the handler is the method value returned for the event
			h = methodOfValue(ps.RetInstr.Results[0])
		}
		eg.Handler[ev] = h
	}
	if table {
		// the dispatcher proper is the function that looks the handler up and calls it
		lookup := eg.Trigger
		var callers []*ssa.Function
		for _, cl := range ix.Callers(lookup) {
			if cl.Pkg == lookup.Pkg && len(cl.Params) == 2 && typeShort(cl.Params[1].Type()) == "pokerface.GameEvent" {
				callers = append(callers, cl)
			}
		}
		if len(callers) != 1 {
			eg.problems = append(eg.problems, "the handler lookup is not called by exactly one dispatching function")
			eg.Trigger = nil
			return eg
		}
		eg.Trigger = callers[0]
		c.role("event dispatcher", fnKey(eg.Trigger)+" via "+fnKey(lookup))
		// whatever the table can hand out may emit if the handler does
		eg.MayEmit[eg.Trigger] = true
	}
	return eg
}

// methodOfValue: the method behind a method value (g.onStarted): the closure over the bound
// wrapper go/ssa synthesises, or a plain function value; nil for the nil constant.
func methodOfValue(v ssa.Value) *ssa.Function {
	switch x := v.(type) {
	case *ssa.MakeClosure:
		f, _ := x.Fn.(*ssa.Function)
		if f == nil {
			return nil
		}
		if strings.HasSuffix(f.Name(), "$bound") {
			for _, b := range f.Blocks {
				for _, in := range b.Instrs {
					if call, ok := in.(ssa.CallInstruction); ok {
						if t := call.Common().StaticCallee(); t != nil {
							return t
						}
					}
				}
			}
		}
		return f
	case *ssa.Function:
		if strings.HasSuffix(x.Name(), "$thunk") || strings.HasSuffix(x.Name(), "$bound") {
			for _, b := range x.Blocks {
				for _, in := range b.Instrs {
					if call, ok := in.(ssa.CallInstruction); ok {
						if t := call.Common().StaticCallee(); t != nil {
							return t
						}
					}
				}
			}
		}
		return x
	case *ssa.ChangeType:
		return methodOfValue(x.X)
	}
	return nil
}

func (eg *EventGraph) summ(depth int) *Summ {
	s := newSumm(eg.c.P, depth)
	s.NilFns = eg.AlwaysNil
	// never inline anything that may emit: emits must stay visible as call events
	s.InlineFilter = func(fn *ssa.Function) bool { return !eg.MayEmit[fn] }
	// package-private helpers that do not emit are analysed where they are used (also when they
	// contain loops): splitting a handler body into helpers must not hide its error exits
	s.HelperInline = func(fn *ssa.Function) bool {
		if eg.MayEmit[fn] || fn.Pkg == nil || shortPkg(fn.Pkg.Pkg.Path()) != "pokerface" || fn.Parent() != nil || token.IsExported(fn.Name()) {
			return false
		}
		// only helpers with an error result matter for the event flow (their failure exits)
		res := fn.Signature.Results()
		return res.Len() >= 1 && typeShort(res.At(res.Len()-1).Type()) == "error" && !eg.AlwaysNil[fn]
	}
	return s
}

// eventName resolves the constant argument of an EmitEvent call.
func (eg *EventGraph) eventName(v *Val) string {
	if c, ok := v.isConstInt(); ok {
		return eg.ByVal[fmt.Sprint(c)]
	}
	return ""
}

// Outcomes computes, for fn, what each path does first with respect to the event chain.
// Every call to a may-emit function must be in tail position (C06/tail-emit); violations
// are collected in eg.NonTail.
func (eg *EventGraph) Outcomes(fn *ssa.Function) []outcome {
	if o, ok := eg.outcomes[fn]; ok {
		return o
	}
	eg.outcomes[fn] = nil // recursion guard
	c := eg.c
	c.touch(fnKey(fn))
	s := eg.summ(2)
	paths, cut := s.Function(fn)
	if cut != "" {
		eg.problems = append(eg.problems, fnKey(fn)+": summary cut: "+cut)
	}
	var out []outcome
	for _, ps := range paths {
		if ps.End == "panic" {
			continue
		}
		if strings.HasPrefix(ps.End, "cut") {
			eg.problems = append(eg.problems, fnKey(fn)+": incomplete path "+ps.End)
			continue
		}
		// find the first may-emit call on the path
		var emitCall *Event
		emitIdx := -1
		for i, e := range ps.Events {
			if e.Kind == "loop" {
				// loops must not contain may-emit calls
				for blk := range e.Loop.Blocks {
					for _, in := range blk.Instrs {
						if ci, ok := in.(ssa.CallInstruction); ok {
							for _, t := range c.P.Index().targets(e.InFn, ci.Common()) {
								if eg.MayEmit[t] {
									eg.NonTail = append(eg.NonTail, fmt.Sprintf("%s: call of %s inside a loop (%s)", fnKey(e.InFn), fnKey(t), c.P.InstrPos(in)))
								}
							}
						}
					}
				}
			}
			if (e.Kind == "call" || e.Kind == "defer" || e.Kind == "go") && e.Fn != nil && eg.MayEmit[e.Fn] {
				emitCall = e
				emitIdx = i
				break
			}
		}
		if emitCall == nil {
			// returns without emitting
			o := outcome{Path: ps, In: fn, Chain: []*PathSum{ps}}
			if len(ps.Ret) == 0 {
				o.Kind = "wait"
			} else {
				r := ps.Ret[len(ps.Ret)-1]
				if r.K == KConst && r.S == "nil" {
					o.Kind = "wait"
				} else if name, ok := c.sentinelError(r); ok {
					o.Kind = "refuse"
					o.Err = name
				} else {
					o.Kind = "fail"
					o.Err = r.String()
					// the error of a callee handed on as it is: what that callee can return
					if names, ok := eg.errorsHandedOn(ps, r, 0); ok && len(names) > 0 {
						for _, nm := range names {
							o2 := o
							o2.Kind, o2.Err = "refuse", nm
							out = append(out, o2)
						}
						continue
					}
				}
			}
			out = append(out, o)
			continue
		}
		// tail position: the call's result is what the path returns and no effect follows
		// (pointer identity of the abstract value: survives the defer spill *r = call; rundefers; return *r)
		tail := emitCall.Kind == "call" && len(ps.Ret) > 0 && emitCall.Res != nil && ps.Ret[len(ps.Ret)-1] == emitCall.Res
		if tail {
			for _, e := range ps.Events[emitIdx+1:] {
				if eff, why := c.effectOf(e); eff {
					tail = false
					_ = why
				}
				if (e.Kind == "call") && e.Fn != nil && eg.MayEmit[e.Fn] {
					tail = false
				}
			}
		}
		if !tail {
			eg.NonTail = append(eg.NonTail, fmt.Sprintf("%s: call of %s at %s is not in tail position (its result is not returned directly, or effects follow it)", fnKey(fn), emitCall.Callee, emitCall.Pos))
		}
		switch {
		case emitCall.Fn == eg.Emit:
			name := ""
			if len(emitCall.Args) >= 2 {
				name = eg.eventName(emitCall.Args[1])
			}
			if name == "" {
				if fn == eg.Resume {
					out = append(out, outcome{Kind: "resume", Path: ps, In: fn, Chain: []*PathSum{ps}})
				} else {
					out = append(out, outcome{Kind: "other", Err: "EmitEvent with a non-constant event", Path: ps, In: fn, Chain: []*PathSum{ps}})
				}
			} else {
				out = append(out, outcome{Kind: "emit", Event: name, Path: ps, In: fn, Chain: []*PathSum{ps}})
			}
		case emitCall.Fn == eg.Resume:
			out = append(out, outcome{Kind: "resume", Path: ps, In: fn, Chain: []*PathSum{ps}})
		default:
			for _, o := range eg.Outcomes(emitCall.Fn) {
				o2 := eg.instantiate(o, emitCall.Fn, emitCall.Args)
				o2.Chain = append([]*PathSum{ps}, o2.Chain...)
				out = append(out, o2)
			}
		}
	}
	eg.outcomes[fn] = out
	return out
}

func outcomeSet(os []outcome) []string {
	m := map[string]bool{}
	for _, o := range os {
		switch o.Kind {
		case "emit":
			m["emit:"+o.Event] = true
		case "refuse", "fail":
			m[o.Kind+":"+o.Err] = true
		default:
			m[o.Kind] = true
		}
	}
	var out []string
	for k := range m {
		out = append(out, k)
	}
	sort.Strings(out)
	return out
}

// Trace: what happens from the entry of a function until the event chain comes to rest.
type Trace struct {
	Events []*Event
	Emits  []string // events emitted on the way, in order
	End    string   // "wait", "refuse", "fail", "resume", "cycle", "other"
	Wait   string   // event at which the chain rests (last emitted; "" if none)
	Err    string
}

// Traces follows tail emits through the handler table until a wait/refusal. followResume:
// the event to re-enter when a path ends in Resume ("" = stop there).
func (eg *EventGraph) Traces(fn *ssa.Function, followResume string) []Trace {
	var out []Trace
	const roundLoc = "GS.Status.Round"
	// feasibility across handlers: the street (Status.Round) is tracked along the chain — a
	// path that tests Round == "preflop" cannot follow one that has just stored or assumed "flop"
	type rstate struct {
		known string          // constant last stored into Status.Round ("" = not stored on this chain)
		yes   string          // assumed equal to (from a branch), when not stored
		no    map[string]bool // assumed different from
	}
	feasible := func(rs rstate, o outcome) (rstate, bool) {
		ns := rstate{known: rs.known, yes: rs.yes, no: map[string]bool{}}
		for k := range rs.no {
			ns.no[k] = true
		}
		for _, ps := range o.Chain {
			ci := 0
			step := func(upto int) bool {
				for ci < len(ps.Conds) && ps.Conds[ci].NEv <= upto {
					cd := ps.Conds[ci]
					ci++
					if cd.V.K != KAtom || cd.V.At.Op != "is" {
						continue
					}
					k := ""
					if cd.V.At.L == roundLoc && isQuoted(cd.V.At.R) {
						k = cd.V.At.R
					} else if cd.V.At.R == roundLoc && isQuoted(cd.V.At.L) {
						k = cd.V.At.L
					} else {
						continue
					}
					eq := !cd.V.Neg
					cur := ns.known
					if cur == "" {
						cur = ns.yes
					}
					if cur != "" {
						if (cur == k) != eq {
							return false
						}
						continue
					}
					if eq {
						if ns.no[k] {
							return false
						}
						ns.yes = k
					} else {
						ns.no[k] = true
					}
				}
				return true
			}
			for ei, e := range ps.Events {
				if !step(ei) {
					return ns, false
				}
				if e.Kind == "store" && e.Loc == roundLoc {
					ns.known = e.Val.String()
					ns.yes = ""
					ns.no = map[string]bool{}
				}
			}
			if !step(len(ps.Events) + 1) {
				return ns, false
			}
		}
		return ns, true
	}
	var walk func(f *ssa.Function, evs []*Event, emits []string, rs rstate, depth int)
	walk = func(f *ssa.Function, evs []*Event, emits []string, rs rstate, depth int) {
		if len(out) > 20000 {
			return
		}
		for _, o := range eg.Outcomes(f) {
			ns, ok := feasible(rs, o)
			if !ok {
				continue
			}
			e2 := append(append([]*Event(nil), evs...), o.Events()...)
			last := ""
			if len(emits) > 0 {
				last = emits[len(emits)-1]
			}
			switch o.Kind {
			case "emit":
				em := append(append([]string(nil), emits...), o.Event)
				h := eg.Handler[o.Event]
				seen := 0
				for _, x := range emits {
					if x == o.Event {
						seen++
					}
				}
				if h == nil {
					out = append(out, Trace{Events: e2, Emits: em, End: "wait", Wait: o.Event})
				} else if seen > 0 || depth > 16 {
					out = append(out, Trace{Events: e2, Emits: em, End: "cycle", Wait: o.Event})
				} else {
					walk(h, e2, em, ns, depth+1)
				}
			case "wait":
				out = append(out, Trace{Events: e2, Emits: emits, End: "wait", Wait: last})
			case "resume":
				if followResume != "" && eg.Handler[followResume] != nil && depth < 16 {
					em := append(append([]string(nil), emits...), followResume)
					walk(eg.Handler[followResume], e2, em, ns, depth+1)
				} else {
					out = append(out, Trace{Events: e2, Emits: emits, End: "resume", Wait: last})
				}
			default:
				out = append(out, Trace{Events: e2, Emits: emits, End: o.Kind, Wait: last, Err: o.Err})
			}
		}
	}
	walk(fn, nil, nil, rstate{no: map[string]bool{}}, 0)
	return out
}

// ---------------------------------------------------------------------------------------
// instantiation of a callee's outcome for one call site: a helper that takes the street or the
// event as a parameter (enterRound(round, event)) is read with the arguments of the call.

func substVal(v *Val, m map[string]*Val) *Val {
	if v == nil || len(m) == 0 {
		return v
	}
	repl := func(s string) string {
		// whole names only, longer names first ("param:t" is the head of "param:target")
		keys := make([]string, 0, len(m))
		for k := range m {
			keys = append(keys, k)
		}
		sort.Slice(keys, func(i, j int) bool {
			if len(keys[i]) != len(keys[j]) {
				return len(keys[i]) > len(keys[j])
			}
			return keys[i] < keys[j]
		})
		var pairs []string
		for i, k := range keys {
			pairs = append(pairs, k, "\x00"+fmt.Sprint(i)+"\x00")
		}
		s = replaceWholeNames(s, pairs)
		pairs = pairs[:0]
		for i, k := range keys {
			pairs = append(pairs, "\x00"+fmt.Sprint(i)+"\x00", m[k].String())
		}
		return strings.NewReplacer(pairs...).Replace(s)
	}
	switch v.K {
	case KAff:
		out := affConst(v.A.C)
		for t, c := range v.A.T {
			if a, ok := m[t]; ok {
				out = out.add(a.asAff(), c)
			} else {
				out = out.add(affTerm(repl(t)), c)
			}
		}
		nv := vAff(out)
		nv.Typ = v.Typ
		return nv
	case KSym:
		if a, ok := m[v.S]; ok {
			return a
		}
		nv := *v
		nv.S = repl(v.S)
		if len(v.Args) > 0 {
			nv.Args = make([]*Val, len(v.Args))
			for i, a := range v.Args {
				nv.Args[i] = substVal(a, m)
			}
		}
		return &nv
	case KAddr:
		nv := *v
		nv.S = repl(v.S)
		return &nv
	case KAtom:
		at := *v.At
		if at.A != nil {
			at.A = substVal(vAff(at.A), m).asAff()
		}
		at.L, at.R = repl(at.L), repl(at.R)
		// an "is" atom whose two sides became literals is decided
		nv := *v
		nv.At = &at
		return &nv
	case KTuple:
		nv := *v
		nv.Args = make([]*Val, len(v.Args))
		for i, a := range v.Args {
			nv.Args[i] = substVal(a, m)
		}
		return &nv
	}
	return v
}

func instPath(ps *PathSum, m map[string]*Val) *PathSum {
	if len(m) == 0 {
		return ps
	}
	np := *ps
	np.Conds = make([]Cond, len(ps.Conds))
	for i, c := range ps.Conds {
		nc := c
		nc.V = substVal(c.V, m)
		np.Conds[i] = nc
	}
	np.Events = make([]*Event, len(ps.Events))
	for i, e := range ps.Events {
		ne := *e
		if len(e.Args) > 0 {
			ne.Args = make([]*Val, len(e.Args))
			for j, a := range e.Args {
				ne.Args[j] = substVal(a, m)
			}
		}
		ne.Val = substVal(e.Val, m)
		if e.Res != nil {
			// keep pointer identity of results that do not change (tail detection compares pointers)
			if r := substVal(e.Res, m); r.String() != e.Res.String() {
				ne.Res = r
			}
		}
		for k, a := range m {
			if strings.Contains(ne.Loc, k) {
				ne.Loc = strings.ReplaceAll(ne.Loc, k, a.String())
			}
		}
		np.Events[i] = &ne
	}
	np.Ret = make([]*Val, len(ps.Ret))
	for i, r := range ps.Ret {
		np.Ret[i] = r
	}
	np.Store = map[string]*Val{}
	for k, v := range ps.Store {
		np.Store[k] = substVal(v, m)
	}
	return &np
}

// instantiate re-reads a callee outcome with the arguments of one call.
func (eg *EventGraph) instantiate(o outcome, callee *ssa.Function, args []*Val) outcome {
	m := map[string]*Val{}
	for i, prm := range callee.Params {
		if i < len(args) && args[i] != nil && args[i].String() != "param:"+prm.Name() {
			// only parameters the callee's summary can mention by name
			m["param:"+prm.Name()] = args[i]
		}
	}
	if len(m) == 0 {
		return o
	}
	used := false
	for _, ps := range o.Chain {
		for _, c := range ps.Conds {
			for k := range m {
				if strings.Contains(c.V.String(), k) {
					used = true
				}
			}
		}
		for _, e := range ps.Events {
			for k := range m {
				if (e.Val != nil && strings.Contains(e.Val.String(), k)) || strings.Contains(e.String(), k) {
					used = true
				}
			}
		}
	}
	if !used {
		return o
	}
	o2 := o
	o2.Chain = make([]*PathSum, len(o.Chain))
	for i, ps := range o.Chain {
		o2.Chain[i] = instPath(ps, m)
		if ps == o.Path {
			o2.Path = o2.Chain[i]
		}
	}
	if o2.Kind == "other" && strings.Contains(o2.Err, "non-constant event") {
		for _, e := range o2.Path.Events {
			if e.Kind == "call" && e.Fn == eg.Emit && len(e.Args) >= 2 {
				if name := eg.eventName(e.Args[1]); name != "" {
					o2.Kind, o2.Event, o2.Err = "emit", name, ""
				}
			}
		}
	}
	return o2
}

// errorsHandedOn: r, returned by path ps, is the error result of a call on that path; the answer
// is the set of sentinel errors that callee can return (its nil returns aside). ok is false when
// the callee can also return something that is not a sentinel.
func (eg *EventGraph) errorsHandedOn(ps *PathSum, r *Val, depth int) ([]string, bool) {
	if depth > 3 {
		return nil, false
	}
	var callee *ssa.Function
	rs := r.String()
	for _, e := range ps.Events {
		if e.Kind == "call" && e.Fn != nil && e.Fn.Blocks != nil && strings.HasPrefix(rs, e.Callee+"(") {
			callee = e.Fn
		}
	}
	if callee == nil {
		return nil, false
	}
	res := callee.Signature.Results()
	if res.Len() == 0 || typeShort(res.At(res.Len()-1).Type()) != "error" {
		return nil, false
	}
	s := eg.summ(1)
	paths, cut := s.Function(callee)
	if cut != "" {
		return nil, false
	}
	set := map[string]bool{}
	for _, q := range paths {
		if q.End != "return" || len(q.Ret) == 0 {
			continue
		}
		rv := q.Ret[len(q.Ret)-1]
		if rv.K == KConst && rv.S == "nil" {
			continue
		}
		if name, ok := eg.c.sentinelError(rv); ok {
			set[name] = true
			continue
		}
		more, ok := eg.errorsHandedOn(q, rv, depth+1)
		if !ok {
			return nil, false
		}
		for _, m := range more {
			set[m] = true
		}
	}
	return sortedSet(set), true
}

// emitName: e is a call that emits: EmitEvent itself, or a helper whose outcomes, re-read with the
// arguments of this call, all emit one and the same event (a wrapper that clears something and
// then moves on with the event it is given). The name is "" when the event is not a constant.
func (eg *EventGraph) emitName(e *Event) (string, bool) {
	if e == nil || e.Kind != "call" || e.Fn == nil {
		return "", false
	}
	if e.Fn == eg.Emit {
		if len(e.Args) > 1 {
			return eg.eventName(e.Args[1]), true
		}
		return "", true
	}
	if !eg.MayEmit[e.Fn] || e.Fn == eg.Resume || e.Fn == eg.Trigger {
		return "", false
	}
	names := map[string]bool{}
	for _, o := range eg.Outcomes(e.Fn) {
		o2 := eg.instantiate(o, e.Fn, e.Args)
		if o2.Kind == "emit" {
			names[o2.Event] = true
		}
	}
	if len(names) == 1 {
		for n := range names {
			return n, true
		}
	}
	return "", len(names) > 0
}

// handlerMapOf: for a call of a function value looked up in a package-level map (v is the value
// called), the functions ever stored into that map anywhere in the module, by constant key.
func handlerMapOf(p *Prog, v ssa.Value) (*ssa.Global, map[string]*ssa.Function) {
	if ex, ok := v.(*ssa.Extract); ok {
		v = ex.Tuple
	}
	lk, ok := v.(*ssa.Lookup)
	if !ok {
		return nil, nil
	}
	ld, ok := lk.X.(*ssa.UnOp)
	if !ok {
		return nil, nil
	}
	g, ok := ld.X.(*ssa.Global)
	if !ok {
		return nil, nil
	}
	out := map[string]*ssa.Function{}
	for _, fn := range p.Funcs {
		if fn.Pkg == nil || fn.Pkg != g.Pkg {
			continue
		}
		for _, b := range fn.Blocks {
			for _, in := range b.Instrs {
				mu, ok := in.(*ssa.MapUpdate)
				if !ok {
					continue
				}
				// the map being filled is stored into (or was loaded from) the global
				if !mapIsGlobal(mu.Map, g, fn) {
					continue
				}
				k, isC := mu.Key.(*ssa.Const)
				h := methodOfValue(mu.Value)
				if !isC || k.Value == nil || h == nil {
					continue
				}
				out[k.Value.ExactString()] = h
			}
		}
	}
	return g, out
}

func mapIsGlobal(m ssa.Value, g *ssa.Global, fn *ssa.Function) bool {
	if ld, ok := m.(*ssa.UnOp); ok && ld.X == ssa.Value(g) {
		return true
	}
	// a fresh map that is stored into the global in the same function
	if mm, ok := m.(*ssa.MakeMap); ok && mm.Referrers() != nil {
		for _, r := range *mm.Referrers() {
			if st, ok := r.(*ssa.Store); ok && st.Addr == ssa.Value(g) && st.Val == ssa.Value(mm) {
				return true
			}
		}
	}
	return false
}

// mapDispatcher finds the function of the engine that takes a GameEvent, looks it up in a handler
// map and calls what it found.
func mapDispatcher(p *Prog, ea *engineAnchors, emit *ssa.Function) (*ssa.Function, map[string]*ssa.Function) {
	for _, fn := range p.MethodsOf("pokerface", ea.gameImpl) {
		if len(fn.Params) != 2 || typeShort(fn.Params[1].Type()) != "pokerface.GameEvent" || fn == emit {
			continue
		}
		for _, b := range fn.Blocks {
			for _, in := range b.Instrs {
				call, ok := in.(*ssa.Call)
				if !ok || call.Call.IsInvoke() || call.Call.StaticCallee() != nil {
					continue
				}
				g, table := handlerMapOf(p, call.Call.Value)
				if g == nil || len(table) < 3 {
					continue
				}
				// keyed by the event parameter
				v := call.Call.Value
				if ex, ok := v.(*ssa.Extract); ok {
					v = ex.Tuple
				}
				if lk, ok := v.(*ssa.Lookup); ok && lk.Index == ssa.Value(fn.Params[1]) {
					return fn, table
				}
			}
		}
	}
	return nil, nil
}
