package main

import (
	"fmt"
	"strings"

	"golang.org/x/tools/go/ssa"
)

func init() {
	register(&propDef{
		ID: "C13", Level: "other", Run: withShared(runC13, share{"C01", runC01, chipMoverInvariant}, share{"C12", runC12, ruleIs("wager-monotone")}, share{"C11", runC11, ruleIs("pay-facts")}, share{"C07", runC07, ruleIs("load-is-identity")}),
		Explanation: "The per-seat blind payment is extracted as a decision table and compared on a grid with: pay the big blind iff BB > 0 and the seat holds bb, else the small blind iff SB > 0 and it holds sb, else the dealer blind iff Dealer > 0 and it holds dealer, else nothing — each capped by the stack and paid through the chip mover as a wager; the table layer waits on exactly the seats the engine charges; the blinds wait point is bypassed only when every blind field is zero; the ante is paid as a non-wager by every player and swept into the pot (pots published, player and round status reset) before preflop; the minimum raise after the blinds is the big blind (dealer blind if none) and the minimum bet the larger of dealer blind and big blind; the list those per-player loops range over (GetPlayers) holds every seat exactly once from the dealer on (shape rule: wrapping cursor over the player count, two segments with one split point, or modulo index).",
		Trusted:     commonTrusted,
		Assumptions: []string{"grid 0..3 for blind sizes and the stack; all eight position combinations"},
		NotCovered:  "cap arithmetic at the boundaries as values beyond the grid; that positions are assigned to the right seats (C08)",
	})
}

func posAtom(b string, pos string) bool {
	return (strings.Contains(b, "CheckPosition(") || strings.Contains(b, "HasPosition(")) && strings.Contains(b, `"`+pos+`"`)
}

func runC13(c *Ctx) {
	p := c.P
	ea := c.engine()
	if ea.playerImpl == "" || ea.gameImpl == "" {
		c.undecided("anchors", "engine-implementations", "-", "pokerface.Player / pokerface.Game do not have exactly one implementation each")
		return
	}
	mover := c.chipMover(ea)
	if mover == nil {
		c.undecided("anchors", "chip-mover", "-", "cannot resolve the chip mover")
		return
	}
	eg := buildEventGraph(c, ea)

	// ---- blind-table
	pb := p.Func("pokerface", ea.playerImpl, "PayBlinds")
	if pb == nil {
		c.undecided("blind-table", "player.PayBlinds", "-", "not found")
	} else {
		c.touch(fnKey(pb))
		s := newSumm(p, 0)
		s.HelperInline = func(f *ssa.Function) bool { return privateHelper(pb, f) && f != mover }
		paths, cut := s.Function(pb)
		if cut != "" {
			c.undecided("blind-table", fnKey(pb), p.FnPos(pb), "summary cut: "+cut)
		} else {
			ints, bools := tableVars(paths)
			tBB, tSB, tD, tStack := findTerm(ints, "Blind.BB"), findTerm(ints, "Blind.SB"), findTerm(ints, "Blind.Dealer"), findTerm(ints, ".StackSize")
			var bBB, bSB, bD, bPhase string
			for _, b := range bools {
				switch {
				case posAtom(b, "bb"):
					bBB = b
				case posAtom(b, "sb"):
					bSB = b
				case posAtom(b, "dealer"):
					bD = b
				case strings.Contains(b, "CurrentEvent"):
					bPhase = b
				}
			}
			if tBB == "" || tSB == "" || tD == "" || tStack == "" || bBB == "" || bSB == "" || bD == "" {
				c.bad("blind-table", fnKey(pb)+"#terms", p.FnPos(pb), "the payment does not depend on all of Blind.{BB,SB,Dealer}, the three positions and the stack")
			} else {
				var viol []string
				selfErr := ""
				n := enumGrid(ints, 0, 3, bools, func(a Asg) bool { return bPhase == "" || a.B[bPhase] }, func(a Asg) bool {
					row, err := selectPath(paths, a)
					if err != "" {
						selfErr = err
						return false
					}
					var pay *Event
					for _, e := range row.Events {
						if e.Kind == "call" && e.Fn == mover {
							pay = e
						}
					}
					want := int64(0)
					switch {
					case a.I[tBB] > 0 && a.B[bBB]:
						want = a.I[tBB]
					case a.I[tSB] > 0 && a.B[bSB]:
						want = a.I[tSB]
					case a.I[tD] > 0 && a.B[bD]:
						want = a.I[tD]
					}
					if a.I[tStack] < want {
						want = a.I[tStack]
					}
					fail := func(m string) {
						if len(viol) < 5 {
							viol = append(viol, fmt.Sprintf("%s — {%s} (row [%s])", m, a.String(), row.CondString()))
						}
					}
					if pay == nil {
						if want != 0 {
							fail(fmt.Sprintf("nothing is paid, expected %d", want))
						}
						return len(viol) < 5
					}
					got, ok := evalAff(pay.Args[1].asAff(), a)
					if !ok {
						fail("amount " + pay.Args[1].String() + " is not a function of the table's terms")
					} else if got != want {
						fail(fmt.Sprintf("pays %d (%s), expected %d", got, pay.Args[1], want))
					}
					if len(pay.Args) > 2 && pay.Args[2].String() != "true" {
						fail("blind paid as non-wager: it would not count toward the wager to match")
					}
					return len(viol) < 5
				})
				c.Sites += n
				if selfErr != "" {
					c.undecided("blind-table", fnKey(pb)+"#extraction", p.FnPos(pb), "table self-check failed: "+selfErr)
				} else {
					c.check(len(viol) == 0, "blind-table", fnKey(pb)+"#reference", p.FnPos(pb), fmt.Sprintf("%d rows pay the blind of the seat's position, capped by the stack, as a wager (%d states)", len(paths), n), "a seat posts the wrong blind", viol...)
				}
			}
		}
	}

	// ---- table-engine-agreement: table/game.go waits on the seats the engine charges
	runC13TableAgreement(c)

	// ---- no-skip
	rb := p.Func("pokerface", ea.gameImpl, "RequestBlinds")
	if rb == nil {
		c.undecided("no-skip", "RequestBlinds", "-", "not found")
	} else if eg.Trigger != nil {
		c.touch(fnKey(rb))
		outs := eg.Outcomes(rb)
		var paths []*PathSum
		for _, o := range outs {
			paths = append(paths, o.Chain[0])
		}
		ints, bools := tableVars(paths)
		var viol []string
		nReq := 0
		n := enumGrid(ints, 0, 2, bools, nil, func(a Asg) bool {
			for _, o := range outs {
				holds, ok := evalPath(o.Chain[0], a)
				if !ok || !holds {
					continue
				}
				if o.Kind == "emit" && o.Event == "GameEvent_BlindsRequested" {
					nReq++
				}
				if !(o.Kind == "emit" && o.Event == "GameEvent_BlindsRequested") {
					// bypass: every blind field must be zero
					for _, t := range []string{"GS.Meta.Blind.BB", "GS.Meta.Blind.SB", "GS.Meta.Blind.Dealer"} {
						if v, has := a.I[t]; has && v != 0 && len(viol) < 4 {
							viol = append(viol, fmt.Sprintf("blinds wait point bypassed (%s %s) although %s = %d — {%s}", o.Kind, o.Event, t, v, a.String()))
						}
					}
					// a bypass that does not even look at a blind field is a bypass for non-zero values of it
					for _, t := range []string{"GS.Meta.Blind.BB", "GS.Meta.Blind.SB", "GS.Meta.Blind.Dealer"} {
						if _, has := a.I[t]; !has && len(viol) < 4 {
							viol = append(viol, "blinds wait point bypassed without testing "+t)
						}
					}
				}
			}
			return len(viol) < 4
		})
		c.Sites += n
		c.check(len(viol) == 0 && nReq > 0, "no-skip", fnKey(rb), p.FnPos(rb), "the blinds wait point is bypassed only when every blind is zero", "configured blinds are never posted", uniq(viol, 4)...)
	}

	// ---- ante
	pa := p.Func("pokerface", ea.playerImpl, "PayAnte")
	if pa == nil {
		c.undecided("ante", "player.PayAnte", "-", "not found")
	} else {
		c.touch(fnKey(pa))
		s := newSumm(p, 0)
		s.HelperInline = func(f *ssa.Function) bool { return privateHelper(pa, f) && f != mover }
		paths, _ := s.Function(pa)
		var bad []string
		n := 0
		for _, ps := range paths {
			for _, e := range ps.Events {
				if e.Kind == "call" && e.Fn == mover {
					n++
					if e.Args[1].String() != "GS.Meta.Ante" {
						bad = append(bad, "pays "+e.Args[1].String()+", expected Meta.Ante")
					}
					if len(e.Args) < 3 || e.Args[2].String() != "false" {
						bad = append(bad, "the ante is paid as a wager: it would count toward the wager to match")
					}
				}
			}
		}
		c.check(len(bad) == 0 && n > 0, "ante", fnKey(pa)+"#amount", p.FnPos(pa), "pays Meta.Ante through the chip mover as a non-wager", "ante payment wrong", uniq(bad, 3)...)
	}
	ga := p.Func("pokerface", ea.gameImpl, "PayAnte")
	if ga == nil {
		c.undecided("ante", "game.PayAnte", "-", "not found")
	} else {
		c.touch(fnKey(ga))
		c.check(loopsOverAllPlayers(c, ga, "PayAnte"), "ante", fnKey(ga)+"#all-players", p.FnPos(ga), "every player is asked for the ante (full range over GetPlayers())", "not every player pays the ante")
	}
	runC13PlayerRing(c, ea)
	gb := p.Func("pokerface", ea.gameImpl, "PayBlinds")
	if gb != nil {
		c.touch(fnKey(gb))
		c.check(loopsOverAllPlayers(c, gb, "PayBlinds"), "blind-table", fnKey(gb)+"#all-players", p.FnPos(gb), "every player goes through the per-seat blind payment (full range over GetPlayers())", "not every seat is asked for its blind")
	}
	// onAntePaid: pots published, then sweep (player + round status) before entering preflop
	if eg.Trigger != nil {
		h := eg.Handler["GameEvent_AntePaid"]
		if h == nil {
			c.undecided("ante", "handler:AntePaid", "-", "no handler")
		} else {
			c.touch(fnKey(h))
			s := eg.summ(0)
			paths, _ := s.Function(h)
			ok := len(paths) > 0
			var why []string
			for _, ps := range paths {
				iPots, iPlayers, iRound, iEnter := -1, -1, -1, -1
				for i, e := range ps.Events {
					if e.Kind != "call" || e.Fn == nil {
						continue
					}
					w := p.Index().Info[e.Fn]
					// directly, or through a wrapper that does not emit
					writes := func(key string) bool {
						return hasDirectWrite(w, key) || (w != nil && !eg.MayEmit[e.Fn] && w.TWrites[key])
					}
					switch {
					case writes("pokerface.Status.Pots"):
						iPots = i
					case writes("pokerface.PlayerState.Pot"):
						iPlayers = i
					case writes("pokerface.Status.CurrentRoundPot"):
						iRound = i
					case eg.MayEmit[e.Fn]:
						if iEnter < 0 {
							iEnter = i
						}
					}
				}
				if ps.End != "return" {
					continue
				}
				if iEnter < 0 {
					continue
				}
				if iPots < 0 || iPlayers < 0 || iRound < 0 || iPots > iPlayers || iPlayers > iEnter || iRound > iEnter {
					ok = false
					why = append(why, fmt.Sprintf("order pots=%d sweep=%d round-reset=%d enter=%d on path [%s]", iPots, iPlayers, iRound, iEnter, ps.CondString()))
				}
			}
			c.check(ok, "ante", fnKey(h)+"#sweep-before-preflop", p.FnPos(h), "pots are published from the antes, then wagers are swept and the round reset, then preflop is entered", "the ante is not swept into the pot before preflop", why...)
		}
	}

	// ---- wager-owner: after the blinds the wager to match "equals the largest blind actually
	// posted" because nothing but the chip mover (which raises it to the payer's wager) and the
	// round reset (which zeroes it) ever stores it. A post-processing step that lifts it to the
	// nominal big blind makes it differ from what was posted when the big blind is short
	{
		var bad []string
		n := 0
		for _, w := range p.Index().Writers("pokerface.Status.CurrentWager") {
			n++
			if w == mover || c.moverFamily(mover)[w] {
				continue
			}
			s := newSumm(p, 0)
			paths, _ := s.Function(w)
			for _, ps := range paths {
				for _, e := range ps.storesTo("pokerface.Status.CurrentWager") {
					if v, ok := e.Val.isConstInt(); !ok || v != 0 {
						bad = append(bad, fnKey(w)+" sets the wager to match to "+e.Val.String()+" ("+e.Pos+")")
					}
				}
			}
		}
		c.check(len(bad) == 0 && n >= 2, "wager-owner", "Status.CurrentWager", "-", "stored only by the chip mover and, as zero, by the round reset", "the wager to match is set by something other than a payment", uniq(bad, 2)...)
	}

	// ---- min-raise-init
	if gb != nil {
		s := newSumm(p, 0)
		s.HelperInline = func(f *ssa.Function) bool { return privateHelper(gb, f) && f != mover && !eg.MayEmit[f] }
		paths, _ := s.Function(gb)
		var bad []string
		n := 0
		for _, ps := range paths {
			emits := false
			for _, e := range ps.Events {
				if e.Kind == "call" && e.Fn != nil && (e.Fn == eg.Emit || eg.MayEmit[e.Fn]) {
					emits = true
				}
			}
			if !emits {
				continue
			}
			n++
			var st *Event
			for _, e := range ps.Events {
				if e.Kind == "store" && e.FKey == "pokerface.Status.PreviousRaiseSize" {
					st = e
				}
			}
			bbPos := hasCond(ps, func(v *Val) bool { return ltIs(v, "-GS.Meta.Blind.BB") })
			switch {
			case st == nil:
				bad = append(bad, "the minimum raise is not initialised after the blinds")
			case bbPos && st.Val.String() != "GS.Meta.Blind.BB":
				bad = append(bad, "with a big blind the minimum raise is "+st.Val.String())
			case !bbPos && st.Val.String() != "GS.Meta.Blind.Dealer":
				bad = append(bad, "without a big blind the minimum raise is "+st.Val.String()+", expected the dealer blind")
			}
		}
		c.check(len(bad) == 0 && n >= 2, "min-raise-init", fnKey(gb)+"#previous-raise-size", p.FnPos(gb), "after the blinds the minimum raise is the big blind (dealer blind if none)", "minimum raise initialised wrongly", uniq(bad, 3)...)
	}
	ini := p.Func("pokerface", ea.gameImpl, "Initialize")
	if ini == nil {
		c.undecided("min-raise-init", "Initialize", "-", "not found")
	} else {
		c.touch(fnKey(ini))
		s := newSumm(p, 0)
		s.HelperInline = func(f *ssa.Function) bool { return privateHelper(ini, f) && f != mover && !eg.MayEmit[f] }
		paths, _ := s.Function(ini)
		var bad []string
		ints, bools := tableVars(paths)
		n := enumGrid(ints, 0, 3, bools, nil, func(a Asg) bool {
			for _, ps := range paths {
				holds, ok := evalPath(ps, a)
				if !ok || !holds {
					continue
				}
				var st *Event
				for _, e := range ps.Events {
					if e.Kind == "store" && e.FKey == "pokerface.Status.MiniBet" {
						st = e
					}
				}
				if st == nil {
					bad = append(bad, "MiniBet not initialised")
					return false
				}
				got, ok := evalAff(st.Val.asAff(), a)
				bb, d := a.I["GS.Meta.Blind.BB"], a.I["GS.Meta.Blind.Dealer"]
				want := bb
				if d > bb {
					want = d
				}
				if !ok || got != want {
					bad = append(bad, fmt.Sprintf("MiniBet = %s for BB=%d Dealer=%d, expected the larger one", st.Val, bb, d))
					return false
				}
			}
			return true
		})
		c.Sites += n
		c.check(len(bad) == 0 && n > 0, "min-raise-init", fnKey(ini)+"#mini-bet", p.FnPos(ini), "the minimum bet is the larger of dealer blind and big blind", "minimum bet initialised wrongly", uniq(bad, 2)...)
	}
}

func hasDirectWrite(fi *FnInfo, key string) bool {
	if fi == nil {
		return false
	}
	for _, w := range fi.Writes {
		if w.Key == key && !w.Fresh {
			return true
		}
	}
	return false
}

// loopsOverAllPlayers: fn has a full range loop over GetPlayers() (or GameState.Players)
// whose body calls the per-seat method on the element, and the list producer returns every
// player (a counting loop of length GetPlayerCount appending one player per iteration).
func loopsOverAllPlayers(c *Ctx, fn *ssa.Function, method string) bool {
	if loopsOverAllPlayersVia(c, fn, method, nil) {
		return true
	}
	// the loop may live in a package-private helper that is handed the per-seat method as a
	// function value (a method expression or a closure that calls it on its argument)
	for _, b := range fn.Blocks {
		for _, in := range b.Instrs {
			call, ok := in.(ssa.CallInstruction)
			if !ok {
				continue
			}
			h := call.Common().StaticCallee()
			if h == nil || !privateHelper(fn, h) {
				continue
			}
			for i, a := range call.Common().Args {
				fv, ok := a.(*ssa.Function)
				if !ok || i >= len(h.Params) {
					continue
				}
				if !isMethodValueOf(fv, method) {
					continue
				}
				if loopsOverAllPlayersVia(c, h, "", h.Params[i]) {
					return true
				}
			}
		}
	}
	return false
}

// isMethodValueOf: fv is the thunk of the method expression T.method, or a function whose every
// return is the result of calling method on its first parameter.
func isMethodValueOf(fv *ssa.Function, method string) bool {
	if strings.Contains(fv.Name(), ")."+method+"$") || strings.HasSuffix(fv.Name(), ")."+method) {
		return true
	}
	if len(fv.Blocks) == 0 || len(fv.Params) == 0 {
		return false
	}
	n := 0
	for _, b := range fv.Blocks {
		r, ok := b.Instrs[len(b.Instrs)-1].(*ssa.Return)
		if !ok {
			continue
		}
		n++
		if len(r.Results) != 1 {
			return false
		}
		call, ok := r.Results[0].(*ssa.Call)
		if !ok {
			return false
		}
		cc := call.Common()
		name := ""
		var recv ssa.Value
		if cc.IsInvoke() {
			name, recv = cc.Method.Name(), cc.Value
		} else if f := cc.StaticCallee(); f != nil && len(cc.Args) > 0 {
			name, recv = f.Name(), cc.Args[0]
		}
		if name != method || recv != ssa.Value(fv.Params[len(fv.Params)-1]) && recv != ssa.Value(fv.Params[0]) {
			return false
		}
	}
	return n > 0
}

func loopsOverAllPlayersVia(c *Ctx, fn *ssa.Function, method string, fnParam *ssa.Parameter) bool {
	s := newSumm(c.P, 0)
	for _, l := range s.loops(fn) {
		ri := analyseRange(l)
		if ri.Kind != "slice" || !ri.Full {
			continue
		}
		fromAll := false
		if call, ok := ri.Coll.(*ssa.Call); ok {
			cc := call.Common()
			name := ""
			if cc.IsInvoke() {
				name = cc.Method.Name()
			} else if f := cc.StaticCallee(); f != nil {
				name = f.Name()
			}
			if name == "GetPlayers" {
				fromAll = true
			}
		}
		if loadsField(ri.Coll, "pokerface.GameState.Players") {
			fromAll = true
		}
		if !fromAll {
			continue
		}
		// body calls method on the element on every path that continues
		body, _ := s.LoopBody(fn, l)
		ok := len(body) > 0
		for _, ps := range body {
			calls := false
			for _, e := range ps.Events {
				if method != "" && e.Kind == "call" && strings.HasSuffix(e.Callee, ")."+method) {
					calls = true
				}
				if fnParam != nil && e.Kind == "call" && e.Fn == nil {
					// a call through the function parameter, on the element
					if ci, isCall := e.Instr.(ssa.CallInstruction); isCall && ci.Common().Value == ssa.Value(fnParam) {
						calls = true
					}
				}
			}
			if !calls {
				ok = false
			}
		}
		if ok {
			return true
		}
	}
	return false
}

// runC13TableAgreement: the seats the table layer waits on in the BlindsRequested case are
// those the engine charges (same three-way predicate).
func runC13TableAgreement(c *Ctx) {
	p := c.P
	hs := p.Func("table", "game", "handleState")
	if hs == nil {
		c.undecided("table-engine-agreement", "table.(*game).handleState", "-", "not found")
		return
	}
	c.touch(fnKey(hs))
	s := newSumm(p, 0)
	s.EngineAliases = false
	// the loop whose body tests HasPosition
	var target *Loop
	for _, l := range s.loops(hs) {
		for blk := range l.Blocks {
			for _, in := range blk.Instrs {
				if call, ok := in.(*ssa.Call); ok {
					if f := call.Common().StaticCallee(); f != nil && f.Name() == "HasPosition" {
						target = l
					}
				}
			}
		}
	}
	var body []*PathSum
	cut := ""
	predicate := false
	if target == nil {
		// second form: the selection is a loop-free predicate (gs, player) -> bool handed, as a
		// function value, to a helper that waits on the seats it accepts
		var pred *ssa.Function
		for _, b := range hs.Blocks {
			for _, in := range b.Instrs {
				call, ok := in.(ssa.CallInstruction)
				if !ok {
					continue
				}
				for _, a := range call.Common().Args {
					var fv *ssa.Function
					switch x := a.(type) {
					case *ssa.Function:
						fv = x
					case *ssa.MakeClosure:
						fv, _ = x.Fn.(*ssa.Function)
					}
					if fv == nil || fv.Blocks == nil || len(findLoops(fv)) > 0 {
						continue
					}
					countHP := func(g *ssa.Function) (int, *ssa.Function) {
						n := 0
						var only *ssa.Function
						for _, fb := range g.Blocks {
							for _, fin := range fb.Instrs {
								if fc, ok := fin.(*ssa.Call); ok {
									if f := fc.Common().StaticCallee(); f != nil {
										if f.Name() == "HasPosition" {
											n++
										} else if inModule(f) {
											only = f
										}
									}
								}
							}
						}
						return n, only
					}
					n, inner := countHP(fv)
					target := fv
					if n < 3 && inner != nil && inner.Blocks != nil && len(findLoops(inner)) == 0 && len(fv.Blocks) == 1 {
						// a closure that only hands its argument to the predicate
						if n2, _ := countHP(inner); n2 >= 3 {
							n, target = n2, inner
						}
					}
					if n >= 3 {
						h := call.Common().StaticCallee()
						if h != nil && waitsOnAccepted(p, h, call.Common().Args, a) {
							pred = target
						}
					}
				}
			}
		}
		if pred == nil {
			c.bad("table-engine-agreement", fnKey(hs), p.FnPos(hs), "no loop testing HasPosition: the table does not select the seats that must post blinds")
			return
		}
		c.touch(fnKey(pred))
		ps2 := newSumm(p, 0)
		ps2.EngineAliases = false
		raw, cut2 := ps2.Function(pred)
		cut = cut2
		// a row that returns its last test as a value is two rows: the test holds / does not hold
		for _, r := range raw {
			if len(r.Ret) == 1 && r.Ret[0].String() != "true" && r.Ret[0].String() != "false" {
				for _, neg := range []bool{false, true} {
					cp := *r
					cp.Conds = append(append([]Cond(nil), r.Conds...), Cond{V: &Val{K: KAtom, At: &Atom{Op: "b", L: r.Ret[0].String()}, Neg: neg}})
					cp.Ret = []*Val{{K: KConst, S: map[bool]string{false: "true", true: "false"}[neg]}}
					body = append(body, &cp)
				}
				continue
			}
			body = append(body, r)
		}
		predicate = true
	} else {
		body, cut = s.LoopBody(hs, target)
	}
	if cut != "" {
		c.undecided("table-engine-agreement", fnKey(hs), p.FnPos(hs), "loop body summary cut: "+cut)
		return
	}
	ints, bools := tableVars(body)
	tBB, tSB, tD := findTerm(ints, "Blind.BB"), findTerm(ints, "Blind.SB"), findTerm(ints, "Blind.Dealer")
	var bBB, bSB, bD string
	for _, b := range bools {
		switch {
		case posAtom(b, "bb"):
			bBB = b
		case posAtom(b, "sb"):
			bSB = b
		case posAtom(b, "dealer"):
			bD = b
		}
	}
	if tBB == "" || tSB == "" || tD == "" || bBB == "" || bSB == "" || bD == "" {
		c.bad("table-engine-agreement", fnKey(hs)+"#terms", p.FnPos(hs), "the table's selection does not depend on all three blinds and positions")
		return
	}
	var viol []string
	n := enumGrid(ints, 0, 2, bools, nil, func(a Asg) bool {
		row, err := selectPath(body, a)
		if err != "" {
			viol = append(viol, "table self-check: "+err)
			return false
		}
		waits := false
		for _, e := range row.Events {
			if e.Kind == "call" && (strings.HasSuffix(e.Callee, ".Add") || strings.HasSuffix(e.Callee, ".AllowAction")) {
				waits = true
			}
		}
		if predicate {
			waits = len(row.Ret) == 1 && row.Ret[0].String() == "true"
			if len(row.Ret) != 1 || (row.Ret[0].String() != "true" && row.Ret[0].String() != "false") {
				viol = append(viol, "the selecting predicate does not return a constant on a row: "+row.CondString())
				return false
			}
		}
		charged := (a.I[tBB] > 0 && a.B[bBB]) || (a.I[tSB] > 0 && a.B[bSB]) || (a.I[tD] > 0 && a.B[bD])
		if waits != charged && len(viol) < 4 {
			viol = append(viol, fmt.Sprintf("table waits=%v but engine charges=%v for {%s}", waits, charged, a.String()))
		}
		return len(viol) < 4
	})
	c.Sites += n
	c.check(len(viol) == 0, "table-engine-agreement", fnKey(hs), p.FnPos(hs), fmt.Sprintf("the table waits on exactly the seats the engine charges a blind (%d states)", n), "table and engine disagree on who posts a blind", viol...)
}

// waitsOnAccepted: helper h, called with args among which is the predicate fv, has a full loop over
// the players in which the ready group's Add is reached exactly on the rows where the function
// parameter that stands for fv said yes.
func waitsOnAccepted(p *Prog, h *ssa.Function, args []ssa.Value, fv ssa.Value) bool {
	if h == nil || h.Blocks == nil {
		return false
	}
	var prm *ssa.Parameter
	for i, a := range args {
		if a == fv && i < len(h.Params) {
			prm = h.Params[i]
		}
	}
	if prm == nil {
		return false
	}
	s := newSumm(p, 0)
	s.EngineAliases = false
	for _, l := range s.loops(h) {
		ri := analyseRange(l)
		if !ri.Full || len(l.Exits) != 1 {
			continue
		}
		body, cut := s.LoopBody(h, l)
		if cut != "" || len(body) == 0 {
			continue
		}
		ok, seen := true, false
		for _, row := range body {
			adds := false
			for _, e := range row.Events {
				if e.Kind == "call" && strings.HasSuffix(e.Callee, ".Add") {
					adds = true
				}
			}
			yes := hasCond(row, func(v *Val) bool {
				return v.K == KAtom && v.At.Op == "b" && !v.Neg && strings.HasPrefix(v.At.L, "dynamic:"+prm.Name()+"(")
			})
			no := hasCond(row, func(v *Val) bool {
				return v.K == KAtom && v.At.Op == "b" && v.Neg && strings.HasPrefix(v.At.L, "dynamic:"+prm.Name()+"(")
			})
			if yes || no {
				seen = true
			}
			if adds != yes || row.End != "continue" {
				ok = false
			}
		}
		if ok && seen {
			return true
		}
	}
	return false
}
