package main

import (
	"fmt"
	"go/token"
	"go/types"

	"golang.org/x/tools/go/ssa"
)

// runC13PlayerRing decides that the list the forced-bet loops range over — the result of
// the engine's GetPlayers — holds every seat exactly once, beginning with the dealer's seat.
// It is a necessary condition of "every player pays the ante" and "every seat goes through
// the blind payment": those loops are full ranges over this list. Three shapes are accepted,
// all over the same count N (the number of players) and the same start X:
//
//	A  one counting loop 0..N, one append of players[cur] per turn, cur starts at X and
//	   steps by one, wrapping to 0 when it reaches N
//	B  two loops: X..N then 0..X, each appending players[i]
//	C  one counting loop 0..N appending players[(X+i) % N]
//
// Anything else is left undecided (the check then fails with the shape it found).
func runC13PlayerRing(c *Ctx, ea *engineAnchors) {
	p := c.P
	fn := p.Func("pokerface", ea.gameImpl, "GetPlayers")
	if fn == nil {
		c.undecided("player-ring", "game.GetPlayers", "-", "not found")
		return
	}
	c.touch(fnKey(fn))
	shape, bad := playerRingShape(fn)
	if shape == "" && len(bad) == 0 {
		c.undecided("player-ring", fnKey(fn), p.FnPos(fn), "the list is not built by one of the three ring shapes (single wrapping loop, two segments, modulo)")
		return
	}
	c.check(len(bad) == 0, "player-ring", fnKey(fn), p.FnPos(fn), "returns every seat exactly once from the dealer's seat on (shape "+shape+")", "the list the forced bets range over misses or repeats a seat", bad...)
}

type ringLoop struct {
	head    *ssa.BasicBlock
	blocks  map[*ssa.BasicBlock]bool
	counter *ssa.Phi
	init    ssa.Value
	bound   ssa.Value
	appends []*ssa.Call
}

func playerRingShape(fn *ssa.Function) (string, []string) {
	var bad []string
	// natural loops
	var loops []*ringLoop
	for _, h := range fn.Blocks {
		var latches []*ssa.BasicBlock
		for _, pr := range h.Preds {
			if h.Dominates(pr) {
				latches = append(latches, pr)
			}
		}
		if len(latches) == 0 {
			continue
		}
		rl := &ringLoop{head: h, blocks: map[*ssa.BasicBlock]bool{h: true}}
		work := append([]*ssa.BasicBlock{}, latches...)
		for len(work) > 0 {
			b := work[len(work)-1]
			work = work[:len(work)-1]
			if rl.blocks[b] {
				continue
			}
			rl.blocks[b] = true
			work = append(work, b.Preds...)
		}
		// counter: the phi tested with < in the head
		iff, ok := h.Instrs[len(h.Instrs)-1].(*ssa.If)
		if !ok {
			return "", nil
		}
		bo, ok := iff.Cond.(*ssa.BinOp)
		if !ok || bo.Op != token.LSS || !rl.blocks[h.Succs[0]] || rl.blocks[h.Succs[1]] {
			return "", nil
		}
		ph, ok := bo.X.(*ssa.Phi)
		if !ok || ph.Block() != h {
			return "", nil
		}
		rl.counter, rl.bound = ph, bo.Y
		for i, e := range ph.Edges {
			if rl.blocks[h.Preds[i]] {
				if !isPlusOne(e, ph) {
					return "", nil
				}
			} else {
				if rl.init != nil && rl.init != e {
					return "", nil
				}
				rl.init = e
			}
		}
		// every append of the loop runs on every turn
		for b := range rl.blocks {
			for _, in := range b.Instrs {
				call, ok := in.(*ssa.Call)
				if !ok {
					continue
				}
				if bi, ok := call.Call.Value.(*ssa.Builtin); ok && bi.Name() == "append" {
					rl.appends = append(rl.appends, call)
					for _, l := range latches {
						if !b.Dominates(l) {
							bad = append(bad, "an append of the loop is skipped on some turns")
						}
					}
				}
			}
		}
		loops = append(loops, rl)
	}
	// appends outside loops are not part of any accepted shape
	for _, b := range fn.Blocks {
		in := false
		for _, rl := range loops {
			if rl.blocks[b] {
				in = true
			}
		}
		if in {
			continue
		}
		for _, ins := range b.Instrs {
			if call, ok := ins.(*ssa.Call); ok {
				if bi, ok := call.Call.Value.(*ssa.Builtin); ok && bi.Name() == "append" {
					return "", nil
				}
			}
		}
	}
	for _, rl := range loops {
		if len(rl.appends) != 1 {
			return "", nil
		}
	}
	isZero := func(v ssa.Value) bool {
		k, ok := v.(*ssa.Const)
		return ok && k.Value != nil && k.Int64() == 0 && isIntType(k.Type())
	}
	switch len(loops) {
	case 1:
		rl := loops[0]
		idx := appendedIndex(rl.appends[0])
		if idx == nil {
			return "", nil
		}
		if !isZero(rl.init) {
			bad = append(bad, "the counting loop does not start at 0")
		}
		if !isPlayerCount(rl.bound) {
			bad = append(bad, "the counting loop is not bounded by the number of players")
		}
		// C: (X+i) % N
		if bo, ok := idx.(*ssa.BinOp); ok && bo.Op == token.REM {
			sum, ok := bo.X.(*ssa.BinOp)
			if !ok || sum.Op != token.ADD || (sum.X != rl.counter && sum.Y != rl.counter) {
				return "", nil
			}
			if !sameRingVal(bo.Y, rl.bound) {
				bad = append(bad, "the modulus is not the loop bound")
			}
			return "C", bad
		}
		// A: cur phi, +1, wraps to 0 at N
		cur, ok := idx.(*ssa.Phi)
		if !ok || cur.Block() != rl.head || cur == rl.counter {
			return "", nil
		}
		for i, e := range cur.Edges {
			if !rl.blocks[rl.head.Preds[i]] {
				continue
			}
			if msg, ok := wrapsAt(e, cur, rl.bound); !ok {
				if msg == "" {
					return "", nil
				}
				bad = append(bad, msg)
			}
		}
		return "A", bad
	case 2:
		a, b := loops[0], loops[1]
		if !a.head.Dominates(b.head) {
			a, b = b, a
		}
		if !a.head.Dominates(b.head) {
			return "", nil
		}
		ia, ib := appendedIndex(a.appends[0]), appendedIndex(b.appends[0])
		if ia != a.counter || ib != b.counter {
			return "", nil
		}
		if isZero(a.init) && !isZero(b.init) {
			bad = append(bad, "the segment from seat 0 comes before the segment from the dealer")
			a, b = b, a
		}
		if !isPlayerCount(a.bound) {
			bad = append(bad, "the first segment does not run to the number of players")
		}
		if !isZero(b.init) {
			bad = append(bad, "the second segment does not start at seat 0")
		}
		if !sameRingVal(b.bound, a.init) {
			bad = append(bad, fmt.Sprintf("the second segment ends at %s, the first begins at %s: a seat is missed or repeated", b.bound.Name(), a.init.Name()))
		}
		return "B", bad
	}
	return "", nil
}

func isPlusOne(v ssa.Value, of ssa.Value) bool {
	bo, ok := v.(*ssa.BinOp)
	if !ok || bo.Op != token.ADD {
		return false
	}
	one := func(x ssa.Value) bool { k, ok := x.(*ssa.Const); return ok && k.Value != nil && k.Int64() == 1 }
	return (bo.X == of && one(bo.Y)) || (bo.Y == of && one(bo.X))
}

// wrapsAt: v is the next value of cur: cur+1, replaced by 0 exactly when cur+1 == bound
// (if-form or modulo form).
func wrapsAt(v ssa.Value, cur ssa.Value, bound ssa.Value) (string, bool) {
	if call, ok := v.(*ssa.Call); ok {
		return wrapsAtCall(call, cur, bound)
	}
	if bo, ok := v.(*ssa.BinOp); ok && bo.Op == token.REM {
		if !isPlusOne(bo.X, cur) {
			return "", false
		}
		if !sameRingVal(bo.Y, bound) {
			return "the seat cursor wraps at a value other than the number of players", false
		}
		return "", true
	}
	ph, ok := v.(*ssa.Phi)
	if !ok || len(ph.Edges) != 2 {
		return "", false
	}
	var next ssa.Value
	zeroFrom := -1
	for i, e := range ph.Edges {
		if k, ok := e.(*ssa.Const); ok && k.Value != nil && k.Int64() == 0 {
			zeroFrom = i
		} else {
			next = e
		}
	}
	if zeroFrom < 0 || next == nil || !isPlusOne(next, cur) {
		return "", false
	}
	// the 0 edge comes from the then-branch of next == bound (or next >= bound)
	zb := ph.Block().Preds[zeroFrom]
	d := zb
	if len(zb.Instrs) == 1 && len(zb.Preds) == 1 {
		d = zb.Preds[0]
	} else {
		return "", false
	}
	iff, ok := d.Instrs[len(d.Instrs)-1].(*ssa.If)
	if !ok || d.Succs[0] != zb {
		return "", false
	}
	bo, ok := iff.Cond.(*ssa.BinOp)
	if !ok {
		return "", false
	}
	if (bo.Op == token.EQL || bo.Op == token.GEQ) && bo.X == next && sameRingVal(bo.Y, bound) {
		return "", true
	}
	if bo.X == next || bo.Y == next {
		return "the seat cursor wraps at a value other than the number of players", false
	}
	return "", false
}

// appendedIndex: the index of the single element appended by call (varargs of one element
// loaded from a map or slice), nil when the call has another form.
func appendedIndex(call *ssa.Call) ssa.Value {
	if len(call.Call.Args) != 2 {
		return nil
	}
	sl, ok := call.Call.Args[1].(*ssa.Slice)
	if !ok {
		return nil
	}
	al, ok := sl.X.(*ssa.Alloc)
	if !ok {
		return nil
	}
	at, ok := al.Type().Underlying().(*types.Pointer).Elem().Underlying().(*types.Array)
	if !ok || at.Len() != 1 {
		return nil
	}
	var elem ssa.Value
	for _, r := range *al.Referrers() {
		if ia, ok := r.(*ssa.IndexAddr); ok {
			for _, r2 := range *ia.Referrers() {
				if st, ok := r2.(*ssa.Store); ok && st.Addr == ia {
					elem = st.Val
				}
			}
		}
	}
	for {
		switch x := elem.(type) {
		case *ssa.MakeInterface:
			elem = x.X
			continue
		case *ssa.ChangeInterface:
			elem = x.X
			continue
		case *ssa.Lookup:
			return x.Index
		case *ssa.UnOp:
			if ia, ok := x.X.(*ssa.IndexAddr); ok && x.Op == token.MUL {
				return ia.Index
			}
		}
		return nil
	}
}

// isPlayerCount: v is len(<...>.Players) or a call of a getter whose every return is that.
func isPlayerCount(v ssa.Value) bool {
	call, ok := v.(*ssa.Call)
	if !ok {
		return false
	}
	if bi, ok := call.Call.Value.(*ssa.Builtin); ok && bi.Name() == "len" {
		u, ok := call.Call.Args[0].(*ssa.UnOp)
		if !ok {
			return false
		}
		fa, ok := u.X.(*ssa.FieldAddr)
		if !ok {
			return false
		}
		st := fa.X.Type().Underlying().(*types.Pointer).Elem().Underlying().(*types.Struct)
		return st.Field(fa.Field).Name() == "Players"
	}
	callee := call.Call.StaticCallee()
	if callee == nil || len(callee.Blocks) == 0 {
		return false
	}
	n := 0
	for _, b := range callee.Blocks {
		if r, ok := b.Instrs[len(b.Instrs)-1].(*ssa.Return); ok {
			if len(r.Results) != 1 || !isPlayerCount(r.Results[0]) {
				return false
			}
			n++
		}
	}
	return n > 0
}

// sameRingVal: the same SSA value, equal constants, or two calls of the same getter on the
// same arguments.
func sameRingVal(a, b ssa.Value) bool {
	if a == b {
		return true
	}
	if ka, ok := a.(*ssa.Const); ok {
		if kb, ok := b.(*ssa.Const); ok && ka.Value != nil && kb.Value != nil {
			return ka.Value.ExactString() == kb.Value.ExactString()
		}
		return false
	}
	ca, ok1 := a.(*ssa.Call)
	cb, ok2 := b.(*ssa.Call)
	if ok1 && ok2 {
		if isPlayerCount(a) && isPlayerCount(b) {
			return true
		}
		fa, fb := ca.Call.StaticCallee(), cb.Call.StaticCallee()
		if fa == nil || fa != fb || len(ca.Call.Args) != len(cb.Call.Args) {
			return false
		}
		for i := range ca.Call.Args {
			if !sameRingVal(ca.Call.Args[i], cb.Call.Args[i]) {
				return false
			}
		}
		return true
	}
	return false
}

// wrapsAtCall: the next cursor comes from a straight-line helper f(cur, bound) whose result is
// cur+1, replaced by 0 exactly when cur+1 reaches bound.
func wrapsAtCall(call *ssa.Call, cur ssa.Value, bound ssa.Value) (string, bool) {
	f := call.Call.StaticCallee()
	if f == nil || len(f.Blocks) == 0 || len(call.Call.Args) != len(f.Params) {
		return "", false
	}
	var pc, pb ssa.Value
	for i, a := range call.Call.Args {
		if a == cur {
			pc = f.Params[i]
		} else if sameRingVal(a, bound) {
			pb = f.Params[i]
		}
	}
	if pc == nil {
		return "", false
	}
	if pb == nil {
		// the helper may read the count itself
		pb = bound
	}
	var rets []*ssa.Return
	for _, b := range f.Blocks {
		if r, ok := b.Instrs[len(b.Instrs)-1].(*ssa.Return); ok && len(r.Results) == 1 {
			rets = append(rets, r)
		}
	}
	switch len(rets) {
	case 1:
		if _, isCall := rets[0].Results[0].(*ssa.Call); isCall {
			return "", false
		}
		return wrapsAt(rets[0].Results[0], pc, pb)
	case 2:
		var zero, other *ssa.Return
		for _, r := range rets {
			if k, ok := r.Results[0].(*ssa.Const); ok && k.Value != nil && k.Int64() == 0 {
				zero = r
			} else {
				other = r
			}
		}
		if zero == nil || other == nil || !isPlusOne(other.Results[0], pc) {
			return "", false
		}
		next := other.Results[0]
		zb := zero.Block()
		if len(zb.Preds) != 1 {
			return "", false
		}
		d := zb.Preds[0]
		iff, ok := d.Instrs[len(d.Instrs)-1].(*ssa.If)
		if !ok {
			return "", false
		}
		bo, ok := iff.Cond.(*ssa.BinOp)
		if !ok {
			return "", false
		}
		onTrue := d.Succs[0] == zb
		if bo.X == next && sameRingVal(bo.Y, pb) {
			if (onTrue && (bo.Op == token.EQL || bo.Op == token.GEQ)) || (!onTrue && (bo.Op == token.NEQ || bo.Op == token.LSS)) {
				return "", true
			}
		}
		if bo.X == next || bo.Y == next {
			return "the seat cursor wraps at a value other than the number of players", false
		}
	}
	return "", false
}
