package main

import (
	"fmt"
	"go/token"
	"strings"

	"golang.org/x/tools/go/ssa"
)

func init() {
	register(&propDef{
		ID: "C05", Level: "other", Run: withShared(runC05, share{"C04", runC04, ruleIs("no-offers-outside-action-wait", "current-seat-only")}, share{"C12", runC12, ruleIs("wager-monotone")}, share{"C11", runC11, ruleIs("amounts")}),
		Explanation: "Typestate rules the per-seat acted flags must obey for a round to close when it should: every offered action marks the actor acted on every accepted path before re-entering the chain; every in-round raise of the wager to match is followed, on every path to the return, by a reset of the other seats' flags; the raiser stays acted; the hand completes at once when one player is alive (dominates every street entry, and the seat walk); no betting round is opened with fewer than two movable players; the alive and movable counters count exactly not-folded and not-folded-with-chips over all players. Does NOT decide that a round closes within one lap and never early for every interleaving.",
		Trusted:     commonTrusted,
		Assumptions: []string{"alias player.state == Player.State() (see C07)", "the walk closes a round when it reaches an acted seat (RequestPlayerAction, checked here structurally)"},
		NotCovered:  "closes within one lap and never early for all interleavings (history property of flag vectors)",
	})
}

func runC05(c *Ctx) {
	p := c.P
	ea := c.engine()
	if ea.playerImpl == "" || ea.gameImpl == "" {
		c.undecided("anchors", "engine-implementations", "-", "pokerface.Player / pokerface.Game do not have exactly one implementation each")
		return
	}
	eg := buildEventGraph(c, ea)
	if eg.Trigger == nil {
		c.undecided("anchors", "event-graph", "-", strings.Join(eg.problems, "; "))
		return
	}
	mover := c.chipMover(ea)
	acts := c.actionMethods(ea)
	offered, _, _ := c.offeredActions(ea)
	isActionFn := map[*ssa.Function]bool{}
	for _, am := range acts {
		isActionFn[am.Fn] = true
	}

	// ---- acted-on-action
	n := 0
	for _, am := range acts {
		if !offered[am.Const] {
			continue
		}
		n++
		fn := am.Fn
		c.touch(fnKey(fn))
		s := newSumm(p, 0)
		owner := fn
		s.HelperInline = bodyHelpers(owner, mover)
		paths, _ := s.Function(fn)
		var bad []string
		nResume := 0
		for _, ps := range paths {
			passed := false
			for _, cd := range ps.Conds {
				if a, ok := actionGuardAtom(cd.V); ok && a == am.Const && !cd.V.Neg {
					passed = true
				}
			}
			if !passed {
				continue
			}
			acted := false
			for _, e := range ps.Events {
				if e.Kind == "store" && e.FKey == "pokerface.PlayerState.Acted" && e.Val.String() == "true" && strings.HasPrefix(e.Loc, "PS(recv)") {
					acted = true
				}
				if e.Kind == "call" && e.Fn == eg.Resume {
					nResume++
					if !acted {
						bad = append(bad, "re-enters the chain at "+e.Pos+" without marking the actor acted: the walk never finds an acted seat and the round cannot close within a lap")
					}
				}
			}
		}
		delegates := false
		for _, ps := range paths {
			for _, e := range ps.Events {
				if e.Kind == "call" && e.Fn != nil && isActionFn[e.Fn] {
					delegates = true
				}
			}
		}
		c.check(len(bad) == 0 && (nResume > 0 || delegates), "acted-on-action", fnKey(fn), p.FnPos(fn), "Acted := true precedes every Resume on accepted paths", "actor not marked acted", uniq(bad, 3)...)
	}
	c.floor("acted-on-action", "offered action methods", n, 5)

	// ---- raise-resets
	if mover == nil {
		c.undecided("raise-resets", "chip-mover", "-", "cannot resolve the chip mover")
	} else {
		c.touch(fnKey(mover))
		s := newSumm(p, 2)
		s.InlineFilter = func(f *ssa.Function) bool {
			return f.Name() != "BecomeRaiser" && f.Name() != "ResetActedPlayers" && f.Pkg != nil && shortPkg(f.Pkg.Pkg.Path()) == "pokerface" && f.Signature.Recv() != nil && strings.HasSuffix(recvName(f.Signature.Recv().Type()), ea.playerImpl)
		}
		paths, _ := s.Function(mover)
		nSt := 0
		var bad []string
		for _, ps := range paths {
			for i, e := range ps.Events {
				if e.Kind != "store" || e.FKey != "pokerface.Status.CurrentWager" {
					continue
				}
				if v, ok := e.Val.isConstInt(); ok && v == 0 {
					continue
				}
				nSt++
				reset := false
				for _, e2 := range ps.Events[i+1:] {
					if e2.Kind == "call" && (strings.HasSuffix(e2.Callee, ".BecomeRaiser") || strings.HasSuffix(e2.Callee, ".ResetActedPlayers")) {
						reset = true
					}
				}
				if !reset {
					bad = append(bad, "wager to match raised at "+e.Pos+" on path ["+ps.CondString()+"] without clearing the other seats' acted flags: a seat that acted at the lower price is skipped")
				}
			}
		}
		c.floor("raise-resets", "paths raising the wager to match", nSt, 2)
		c.check(len(bad) == 0, "raise-resets", fnKey(mover), p.FnPos(mover), "every raise of the wager to match is followed by BecomeRaiser or ResetActedPlayers", "acted flags survive a raise", uniq(bad, 3)...)
	}

	// ---- raiser-stays-acted / reset clears everybody
	if br := p.Func("pokerface", ea.gameImpl, "BecomeRaiser"); br == nil {
		c.undecided("raiser-stays-acted", "BecomeRaiser", "-", "not found")
	} else {
		c.touch(fnKey(br))
		s := newSumm(p, 0)
		paths, _ := s.Function(br)
		ok := len(paths) > 0
		for _, ps := range paths {
			resetIdx, actedIdx := -1, -1
			for i, e := range ps.Events {
				if e.Kind == "call" && strings.HasSuffix(e.Callee, ".ResetActedPlayers") {
					resetIdx = i
				}
				if e.Kind == "store" && e.FKey == "pokerface.PlayerState.Acted" && e.Val.String() == "true" && strings.Contains(e.Loc, "param:p") {
					actedIdx = i
				}
			}
			if resetIdx < 0 || actedIdx < resetIdx {
				ok = false
			}
		}
		c.check(ok, "raiser-stays-acted", fnKey(br), p.FnPos(br), "the raiser is marked acted after everybody's flag was cleared", "the raiser does not stay acted after the reset (or nobody is reset)")
	}
	if ra := p.Func("pokerface", ea.gameImpl, "ResetActedPlayers"); ra == nil {
		c.undecided("raiser-stays-acted", "ResetActedPlayers", "-", "not found")
	} else {
		c.touch(fnKey(ra))
		s := newSumm(p, 0)
		loops := s.loops(ra)
		ok := false
		if len(loops) == 1 {
			ri := analyseRange(loops[0])
			body, _ := s.LoopBody(ra, loops[0])
			all := len(body) > 0
			for _, ps := range body {
				st := ps.storesTo("pokerface.PlayerState.Acted")
				if ps.End != "continue" || len(st) != 1 || st[0].Val.String() != "false" {
					all = false
				}
			}
			ok = all && ri.Full && strings.Contains(s.val(newState(), ri.Coll).String(), "") // full range
			if cv, isU := ri.Coll.(*ssa.UnOp); !isU || !loadsField(cv, "pokerface.GameState.Players") {
				ok = false
			}
		}
		c.check(ok, "raiser-stays-acted", fnKey(ra), p.FnPos(ra), "clears Acted for every player (full range over GameState.Players, no early exit)", "does not clear every player's acted flag")
	}

	runC05Shortcuts(c, ea, eg)
	runC05Counters(c, ea)
}

func hasCond(ps *PathSum, pred func(v *Val) bool) bool {
	for _, cd := range ps.Conds {
		if pred(cd.V) {
			return true
		}
	}
	return false
}

func countAtom(v *Val, counter string, op string, aff string, neg bool) bool {
	return v.K == KAtom && v.At.Op == op && v.Neg == neg && v.At.A.String() == aff && strings.Contains(aff, counter)
}

// runC05Shortcuts: walkover and nobody-can-move short-cuts.
func runC05Shortcuts(c *Ctx, ea *engineAnchors, eg *EventGraph) {
	p := c.P
	aliveTerms := map[string]bool{"pokerface.(*game).GetAlivePlayerCount(recv)": true}
	movTerms := map[string]bool{"pokerface.(*game).GetMovablePlayerCount(recv)": true}
	// a private helper that makes one pass over the players and hands back both counts: each
	// result is classified by what its counter excludes (folded / folded or without chips)
	for _, fn := range p.MethodsOf("pokerface", ea.gameImpl) {
		if token.IsExported(fn.Name()) || fn.Signature.Params().Len() != 0 || fn.Signature.Results().Len() < 2 {
			continue
		}
		for k := 0; k < fn.Signature.Results().Len(); k++ {
			term := fmt.Sprintf("%s(recv)#%d", fnKey(fn), k)
			switch counterRole(c, fn, k) {
			case "alive":
				aliveTerms[term] = true
			case "movable":
				movTerms[term] = true
			}
		}
	}
	aliveIs1 := func(v *Val, neg bool) bool {
		if !(v.K == KAtom && v.At.Op == "eq" && v.Neg == neg) {
			return false
		}
		as := v.At.A.String()
		for t := range aliveTerms {
			if as == t+" - 1" {
				return true
			}
		}
		return false
	}
	movIs0 := func(v *Val, neg bool) bool {
		return v.K == KAtom && v.At.Op == "eq" && v.Neg == neg && movTerms[v.At.A.String()]
	}
	// nextRound (the street sequencer): entries to further streets only under alive != 1
	var seq *ssa.Function
	for _, fn := range p.MethodsOf("pokerface", ea.gameImpl) {
		if fn.Name() == "nextRound" {
			seq = fn
		}
	}
	// resolve by role as in C06: function switching on Round calling street enterers
	ix := p.Index()
	for _, fn := range p.MethodsOf("pokerface", ea.gameImpl) {
		nw := 0
		for _, cc := range ix.Info[fn].Calls {
			for _, t := range ix.targets(fn, cc) {
				if ix.Info[t] == nil {
					continue // a generic instance or a synthetic wrapper without index entry
				}
				for _, w := range ix.Info[t].Writes {
					if w.Key == "pokerface.Status.Round" {
						nw++
					}
				}
			}
		}
		if nw >= 2 {
			seq = fn
		}
	}
	if seq == nil {
		c.undecided("walkover", "sequencer", "-", "street sequencer not found")
	} else {
		c.touch(fnKey(seq))
		c.role("street sequencer", fnKey(seq))
		var bad []string
		nEnter, nDone := 0, 0
		for _, o := range eg.Outcomes(seq) {
			first := o.Chain[0]
			if o.Kind != "emit" {
				continue
			}
			entersStreet := strings.HasSuffix(o.Event, "RoundEntered")
			if entersStreet {
				nEnter++
				if !hasCond(first, func(v *Val) bool { return aliveIs1(v, true) }) {
					bad = append(bad, "a further street is entered ("+o.Event+") on a path not dominated by alive != 1: ["+first.CondString()+"]")
				}
			}
			if hasCond(first, func(v *Val) bool { return aliveIs1(v, false) }) {
				nDone++
				if o.Event != "GameEvent_GameCompleted" {
					bad = append(bad, "with one player alive the sequencer emits "+o.Event+" instead of completing the hand")
				}
			}
		}
		c.check(len(bad) == 0 && nEnter >= 3 && nDone >= 1, "walkover", fnKey(seq), p.FnPos(seq), fmt.Sprintf("%d street entries all under alive != 1; alive == 1 completes the hand", nEnter), "the hand goes on after everybody else folded", uniq(bad, 3)...)
	}
	// RequestPlayerAction: the handler of the event at which actions are offered
	rpa := p.Func("pokerface", ea.gameImpl, "RequestPlayerAction")
	if rpa == nil {
		c.undecided("walkover", "RequestPlayerAction", "-", "not found")
	} else {
		c.touch(fnKey(rpa))
		s := eg.summ(0)
		base := s.HelperInline
		s.HelperInline = func(f *ssa.Function) bool {
			return base(f) || (privateHelper(rpa, f) && !eg.MayEmit[f] && f.Signature.Results().Len() == 1 && isBoolType(f.Signature.Results().At(0).Type()))
		}
		paths, _ := s.Function(rpa)
		var bad []string
		nWalk := 0
		for _, ps := range paths {
			walks := false
			closes := false
			for _, e := range ps.Events {
				if e.Kind == "call" && (strings.HasSuffix(e.Callee, ".SetCurrentPlayer") || strings.HasSuffix(e.Callee, ".NextPlayer")) {
					walks = true
				}
				if nm, ok := eg.emitName(e); ok && nm == "GameEvent_RoundClosed" {
					closes = true
				}
			}
			one := hasCond(ps, func(v *Val) bool { return aliveIs1(v, false) })
			none := hasCond(ps, func(v *Val) bool { return movIs0(v, false) })
			if one || none {
				if walks || !closes {
					bad = append(bad, "with one player alive / nobody movable the round is not closed at once: ["+ps.CondString()+"]")
				}
				continue
			}
			if walks {
				nWalk++
				if !hasCond(ps, func(v *Val) bool { return aliveIs1(v, true) }) || !hasCond(ps, func(v *Val) bool {
					return movIs0(v, true)
				}) {
					bad = append(bad, "the seat walk is reached without the alive/movable tests: ["+ps.CondString()+"]")
				}
				// offering a seat: only when the next seat has not acted
				offers := false
				for _, e := range ps.Events {
					if e.Kind == "call" && strings.HasSuffix(e.Callee, ".SetCurrentPlayer") {
						offers = true
					}
				}
				actedTrue := hasCond(ps, func(v *Val) bool {
					return v.K == KAtom && v.At.Op == "b" && !v.Neg && strings.HasSuffix(v.At.L, ".Acted")
				})
				actedFalse := hasCond(ps, func(v *Val) bool {
					return v.K == KAtom && v.At.Op == "b" && v.Neg && strings.HasSuffix(v.At.L, ".Acted")
				})
				if offers && !actedFalse {
					bad = append(bad, "a seat is offered actions without testing that it has not acted yet")
				}
				if actedTrue && !closes {
					bad = append(bad, "the walk reaches an acted seat and does not close the round")
				}
			}
		}
		c.check(len(bad) == 0 && nWalk > 0, "walkover", fnKey(rpa), p.FnPos(rpa), "alive == 1 and movable == 0 close the round before any seat is made current; an acted seat closes it, a fresh seat is offered", "round closing tests broken", uniq(bad, 4)...)
	}

	// PrepareRound / StartRound: no betting round with fewer than two movable players
	prep := p.Func("pokerface", ea.gameImpl, "PrepareRound")
	if prep == nil {
		c.undecided("no-bet-when-one-movable", "PrepareRound", "-", "not found")
	} else {
		c.touch(fnKey(prep))
		var bad []string
		nReady := 0
		for _, o := range eg.Outcomes(prep) {
			first := o.Chain[0]
			preflop := hasCond(first, func(v *Val) bool {
				return v.K == KAtom && v.At.Op == "is" && !v.Neg && strings.Contains(v.At.String(), `"preflop"`)
			})
			if preflop {
				continue
			}
			few := hasCond(first, func(v *Val) bool {
				for mov := range movTerms {
					if ltIs(v, mov+" - 2") {
						return true
					}
				}
				return false
			})
			many := hasCond(first, func(v *Val) bool {
				for mov := range movTerms {
					if ltIs(v, "-"+mov+" + 1") {
						return true
					}
				}
				return false
			})
			switch {
			case o.Kind == "emit" && o.Event == "GameEvent_ReadyRequested":
				nReady++
				if !many {
					bad = append(bad, "a betting round is prepared on a later street without the test movable > 1: ["+first.CondString()+"]")
				}
			case few:
				if !(o.Kind == "emit" && o.Event == "GameEvent_RoundClosed") {
					bad = append(bad, "with at most one movable player the street is not closed at once")
				}
			}
		}
		c.check(len(bad) == 0 && nReady > 0, "no-bet-when-one-movable", fnKey(prep), p.FnPos(prep), "after the flop a betting round is opened only when more than one player can move; otherwise the street closes at once", "a betting round can open with fewer than two movable players", uniq(bad, 3)...)
	}
	sr := p.Func("pokerface", ea.gameImpl, "StartRound")
	if sr == nil {
		c.undecided("no-bet-when-one-movable", "StartRound", "-", "not found")
	} else {
		c.touch(fnKey(sr))
		var bad []string
		nStart := 0
		for _, o := range eg.Outcomes(sr) {
			first := o.Chain[0]
			preflop := hasCond(first, func(v *Val) bool {
				return v.K == KAtom && v.At.Op == "is" && !v.Neg && strings.Contains(v.At.String(), `"preflop"`)
			})
			none := hasCond(first, func(v *Val) bool { return movIs0(v, false) })
			some := hasCond(first, func(v *Val) bool { return movIs0(v, true) })
			if !preflop {
				continue
			}
			if o.Kind == "emit" && o.Event == "GameEvent_RoundStarted" {
				nStart++
				if !some {
					bad = append(bad, "preflop betting starts without the test movable != 0")
				}
			}
			if none && !(o.Kind == "emit" && o.Event == "GameEvent_RoundClosed") {
				bad = append(bad, "with nobody movable preflop the round is not closed at once")
			}
		}
		c.check(len(bad) == 0 && nStart > 0, "no-bet-when-one-movable", fnKey(sr), p.FnPos(sr), "preflop betting starts only when somebody can move", "preflop betting can start with everybody all-in", uniq(bad, 3)...)
	}
}

// runC05Counters: GetAlivePlayerCount / GetMovablePlayerCount count exactly the stated predicates.
func runC05Counters(c *Ctx, ea *engineAnchors) {
	p := c.P
	type spec struct {
		name string
		ref  func(fold bool, stack int64) bool // element is NOT counted
		desc string
	}
	specs := []spec{
		{"GetAlivePlayerCount", func(fold bool, stack int64) bool { return fold }, "not folded"},
		{"GetMovablePlayerCount", func(fold bool, stack int64) bool { return fold || stack == 0 }, "not folded and with chips"},
	}
	for _, sp := range specs {
		fn := p.Func("pokerface", ea.gameImpl, sp.name)
		if fn == nil {
			c.undecided("counters", sp.name, "-", "not found")
			continue
		}
		c.touch(fnKey(fn))
		s := newSumm(p, 1)
		loops := s.loops(fn)
		if len(loops) != 1 {
			c.undecided("counters", fnKey(fn), p.FnPos(fn), fmt.Sprintf("expected one counting loop, found %d", len(loops)))
			continue
		}
		l := loops[0]
		ri := analyseRange(l)
		var bad []string
		if ri.Kind != "slice" || !ri.Full || !loadsField(ri.Coll, "pokerface.GameState.Players") {
			bad = append(bad, "the loop is not a full range over GameState.Players")
		}
		// counter phi: starts at the number of players (count down) or at 0 (count up); returned after the loop
		var counter *ssa.Phi
		countDown := false
		for _, in := range l.Header.Instrs {
			if phi, ok := in.(*ssa.Phi); ok && isIntType(phi.Type()) {
				for i, e := range phi.Edges {
					if !l.Blocks[l.Header.Preds[i]] {
						if call, isCall := e.(*ssa.Call); isCall {
							if f := call.Common().StaticCallee(); f != nil && f.Name() == "GetPlayerCount" {
								counter, countDown = phi, true
							}
							if b, isB := call.Common().Value.(*ssa.Builtin); isB && b.Name() == "len" && loadsField(call.Common().Args[0], "pokerface.GameState.Players") {
								counter, countDown = phi, true
							}
						}
						if c0, isC := constInt(e); isC && c0 == 0 {
							// candidate count-up counter: must be the returned value
							for _, b := range fn.Blocks {
								if r, ok := b.Instrs[len(b.Instrs)-1].(*ssa.Return); ok && len(r.Results) == 1 && r.Results[0] == ssa.Value(phi) {
									counter, countDown = phi, false
								}
							}
						}
					}
				}
			}
		}
		if counter == nil {
			c.bad("counters", fnKey(fn), p.FnPos(fn), "no counter initialised with the number of players (or with 0) and returned")
			continue
		}
		// returned value is the counter
		retOK := false
		for _, b := range fn.Blocks {
			if r, ok := b.Instrs[len(b.Instrs)-1].(*ssa.Return); ok && len(r.Results) == 1 && r.Results[0] == ssa.Value(counter) {
				retOK = true
			}
		}
		if !retOK {
			bad = append(bad, "the function does not return the counter")
		}
		body, cut := s.LoopBody(fn, l)
		if cut != "" {
			c.undecided("counters", fnKey(fn), p.FnPos(fn), "loop body summary cut: "+cut)
			continue
		}
		iter := "iter:" + fn.Name() + "." + counter.Name()
		// evaluate the body table on fold x stack grid
		ints, bools := tableVars(body)
		var tFold, tStack string
		for _, b := range bools {
			if strings.HasSuffix(b, ".Fold") {
				tFold = b
			}
		}
		tStack = findTerm(ints, ".StackSize")
		var en []string
		for _, t := range ints {
			en = append(en, t)
		}
		nEval := enumGrid(en, 0, 3, bools, nil, func(a Asg) bool {
			row, err := selectBodyPath(body, a)
			if err != "" {
				bad = append(bad, "table self-check: "+err)
				return false
			}
			if row == nil {
				return true
			}
			if row.End != "continue" {
				bad = append(bad, "the loop can stop early ("+row.End+")")
				return false
			}
			back := row.Store["backedge:"+counter.Name()]
			if back == nil {
				bad = append(bad, "no back-edge value for the counter")
				return false
			}
			d := back.asAff().add(affTerm(iter), -1)
			if !d.isConst() {
				bad = append(bad, "counter update is not counter-1 / counter: "+back.String())
				return false
			}
			fold := tFold != "" && a.B[tFold]
			stack := int64(1)
			if tStack != "" {
				stack = a.I[tStack]
			}
			excluded := sp.ref(fold, stack)
			okStep := false
			if countDown {
				okStep = (excluded && d.C == -1) || (!excluded && d.C == 0)
			} else {
				okStep = (excluded && d.C == 0) || (!excluded && d.C == 1)
			}
			if !okStep {
				bad = append(bad, fmt.Sprintf("for fold=%v stack=%d the counter changes by %d", fold, stack, d.C))
				return false
			}
			return true
		})
		c.Sites += nEval
		if sp.name == "GetMovablePlayerCount" && tStack == "" {
			bad = append(bad, "does not look at StackSize")
		}
		if tFold == "" {
			bad = append(bad, "does not look at Fold")
		}
		c.check(len(bad) == 0, "counters", fnKey(fn), p.FnPos(fn), "counts exactly the players that are "+sp.desc+", over all players", "counter predicate wrong", uniq(bad, 3)...)
	}
}

// counterRole classifies result k of fn, a parameterless private method: "alive" when it is the
// number of players not folded, "movable" when it is the number not folded and with chips, ""
// otherwise. The function must be one full pass over GameState.Players without early exit; the
// result must be a counter of that loop starting at the number of players (counting down) or at 0
// (counting up); the body table is evaluated on the fold x stack grid.
func counterRole(c *Ctx, fn *ssa.Function, k int) string {
	p := c.P
	s := newSumm(p, 1)
	loops := s.loops(fn)
	if len(loops) != 1 {
		return ""
	}
	l := loops[0]
	ri := analyseRange(l)
	if ri.Kind != "slice" || !ri.Full || len(l.Exits) != 1 || !loadsField(ri.Coll, "pokerface.GameState.Players") {
		return ""
	}
	var counter *ssa.Phi
	for _, b := range fn.Blocks {
		if r, ok := b.Instrs[len(b.Instrs)-1].(*ssa.Return); ok {
			if k >= len(r.Results) {
				return ""
			}
			ph, isPhi := r.Results[k].(*ssa.Phi)
			if !isPhi || ph.Block() != l.Header || (counter != nil && counter != ph) {
				return ""
			}
			counter = ph
		}
	}
	if counter == nil {
		return ""
	}
	init, _ := phiInitStep(l, counter)
	countDown := false
	switch x := init.(type) {
	case *ssa.Const:
		if k0, ok := constInt(x); !ok || k0 != 0 {
			return ""
		}
	case *ssa.Call:
		if f := x.Common().StaticCallee(); f != nil && f.Name() == "GetPlayerCount" {
			countDown = true
		} else if b, isB := x.Common().Value.(*ssa.Builtin); isB && b.Name() == "len" && loadsField(x.Common().Args[0], "pokerface.GameState.Players") {
			countDown = true
		} else {
			return ""
		}
	default:
		return ""
	}
	body, cut := s.LoopBody(fn, l)
	if cut != "" || len(body) == 0 {
		return ""
	}
	iter := "iter:" + fn.Name() + "." + counter.Name()
	ints, bools := tableVars(body)
	var tFold string
	for _, b := range bools {
		if strings.HasSuffix(b, ".Fold") {
			tFold = b
		}
	}
	tStack := findTerm(ints, ".StackSize")
	if tFold == "" {
		return ""
	}
	isAlive, isMovable, okAll := true, true, true
	enumGrid(ints, 0, 3, bools, nil, func(a Asg) bool {
		row, err := selectBodyPath(body, a)
		if err != "" || row == nil || row.End != "continue" {
			okAll = false
			return false
		}
		back := row.Store["backedge:"+counter.Name()]
		if back == nil {
			okAll = false
			return false
		}
		d := back.asAff().add(affTerm(iter), -1)
		if !d.isConst() {
			okAll = false
			return false
		}
		fold := a.B[tFold]
		stack := int64(1)
		if tStack != "" {
			stack = a.I[tStack]
		}
		counted := d.C == 1
		if countDown {
			counted = d.C == 0
			if d.C != 0 && d.C != -1 {
				okAll = false
				return false
			}
		} else if d.C != 0 && d.C != 1 {
			okAll = false
			return false
		}
		if counted != !fold {
			isAlive = false
		}
		if counted != (!fold && stack != 0) {
			isMovable = false
		}
		return true
	})
	switch {
	case !okAll:
		return ""
	case isAlive:
		return "alive"
	case isMovable && tStack != "":
		return "movable"
	}
	return ""
}
