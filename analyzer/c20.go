package main

import (
	"fmt"
	"golang.org/x/tools/go/ssa"
	"regexp"
	"strings"
)

func init() {
	register(&propDef{
		ID: "C20", Level: "other", Run: withShared(runC20, share{"C09", runC09, ruleIs("counter-lockstep", "refusal", "queue-discipline")}, share{"C19", runC19, ruleIs("topup-bounded")}),
		Explanation: "THIN. Of the first sentence (rebalancing settles) only structural necessary conditions are decided: the level a low table is topped up to, the level above which a table has a surplus and the level at which releasing stops use one rounding of the water level (otherwise tables are filled to one level and drained towards another for ever); the stop level is computed by one full pass over the tables in which a table is either counted under PlayerCount <= level or has its own player count taken off the total. The second sentence is decided in shape: on every break path of SyncState the table broken is the syncing one, the path carries the test that more tables exist than the players need, the release count handed back is the table's full player count after the break succeeded, and no players are handed to it; ReleasePlayers appends its whole argument to the waiting queue on every path and, unless the competition is pending, drains the queue. Convergence of repeated sweeps (no oscillation, bounded number of sweeps) is a liveness property of a numeric fixed point and is NOT decided.",
		Trusted:     commonTrusted,
		Assumptions: []string{"tables carry out the release they are told (the property's premise)"},
		NotCovered:  "convergence within a bounded number of sweeps for every sync order; absence of oscillation",
	})
}

func runC20(c *Ctx) {
	p := c.P
	sync := p.Func(regPkg, "regulator", "SyncState")
	rel := p.Func(regPkg, "regulator", "ReleasePlayers")
	if sync == nil || rel == nil {
		c.undecided("anchors", "regulator", "-", "SyncState / ReleasePlayers not found")
		return
	}
	// ---- break-releases-all
	{
		c.touch(fnKey(sync))
		ra := resolveRegAnchors(p)
		s := regSumm(p, 0)
		s.HelperInline = ra.helperFilter(p, sync)
		paths, _ := s.Function(sync)
		tid, out := "param:"+sync.Params[1].Name(), "param:"+sync.Params[2].Name()
		T := "lookup(recv.tables, " + tid + ")"
		var bad []string
		n := 0
		for _, ps := range paths {
			brk := callsTo(ps, ra.breaker)
			if len(brk) == 0 {
				continue
			}
			okBreak := hasCond(ps, func(v *Val) bool {
				return v.K == KAtom && v.At.Op == "is" && !v.Neg && strings.Contains(v.At.String(), fnKey(ra.breaker)+"(") && strings.Contains(v.At.String(), "nil")
			})
			if !okBreak {
				// break failed: nothing released
				if v, ok := ps.Ret[0].isConstInt(); !ok || v != 0 {
					bad = append(bad, "a failed break still asks for a release")
				}
				continue
			}
			n++
			// a table is broken only while more tables exist than the players need: breaking the last
			// table (or one that is still needed) leaves its players queued with nowhere to go
			spare := hasCond(ps, func(v *Val) bool {
				a, ok := ltForm(v)
				if !ok || a.C != 0 || len(a.T) != 2 {
					return false
				}
				tc, need := false, false
				for t, co := range a.T {
					if strings.HasSuffix(t, ".tableCount") && co == -1 {
						tc = true
					}
					if strings.Contains(t, "math.Ceil(") && co == 1 {
						need = true
					}
				}
				return tc && need
			})
			if !spare {
				bad = append(bad, "a table is broken on a path that does not test that more tables exist than are needed: ["+ps.CondString()+"]")
			}
			if brk[0].Args[1].String() != tid {
				bad = append(bad, "the table broken is not the syncing table")
			}
			want := affTerm(T+".PlayerCount").add(affTerm(out), -1)
			if !ps.Ret[0].asAff().equal(want) {
				bad = append(bad, "a broken table is told to release "+ps.Ret[0].String()+", not all of its players")
			}
			if !isEmptyVal(ps.Ret[1]) {
				bad = append(bad, "a broken table is handed new players")
			}
		}
		c.floor("break-releases-all", "break paths", n, 2)
		c.check(len(bad) == 0, "break-releases-all", fnKey(sync), p.FnPos(sync), fmt.Sprintf("on all %d break paths the release count is the table's full player count", n), "a broken table strands players", uniq(bad, 3)...)
	}
	// ---- targets-agree: the level a low table is topped up to, the level above which a table has a
	// surplus, and the level at which releasing stops are one and the same function of the water
	// level; otherwise a table topped up to one level is drained again towards another, forever
	{
		ra := resolveRegAnchors(p)
		s := regSumm(p, 0)
		s.HelperInline = ra.helperFilter(p, sync)
		paths, _ := s.Function(sync)
		targets := map[string]map[string]bool{"top-up": {}, "surplus": {}, "stop": {}}
		roundingOf := func(term string) string {
			for _, fn := range []string{"math.Floor(", "math.Ceil(", "math.Round(", "math.Trunc("} {
				if i := strings.Index(term, fn); i >= 0 {
					return term[i:]
				}
			}
			return term
		}
		for _, ps := range paths {
			for _, e := range callsToAny(ps, ra.poppers) {
				for t, co := range e.Args[1].asAff().T {
					if co == 1 && strings.Contains(t, "math.") {
						targets["top-up"][strings.TrimSuffix(roundingOf(t), ")")] = true
					}
				}
			}
			for _, e := range ps.Events {
				if e.Kind != "loop" {
					continue
				}
				// surplus: the loop bound is PlayerCount - T
				ci := analyseCounting(e.Loop)
				if ci.OK {
					// evaluate the bound on the function path: find it among the path's values via the body summary
				}
				body, _ := s.LoopBody(e.InFn, e.Loop)
				// a loop that lives in a helper analysed in place sees the helper's parameters: read
				// them as the arguments the helper was entered with
				subst := func(x string) string { return x }
				if e.InFn != sync {
					for _, en := range ps.Events {
						if en.Kind == "enter" && en.Fn == e.InFn {
							fn, args := en.Fn, en.Args
							subst = func(x string) string { return substParams(x, fn, args) }
						}
					}
				}
				// a value computed before the loop (the rounded level named once) is opaque inside the
				// body summary: name the rounding it was computed with
				inFn := e.InFn
				base := subst
				subst = func(x string) string { return base(nameRoundings(x, inFn)) }
				for _, bp := range body {
					for _, cd := range bp.Conds {
						str := subst(cd.V.String())
						if cd.V.K == KAtom && cd.V.At.Op == "b" && strings.Contains(str, "calculateLowerWaterLevel(") || strings.Contains(str, ">= math.") {
							if i := strings.Index(str, ">= "); i >= 0 {
								targets["stop"][strings.TrimRight(roundingOf(str[i+3:]), ")")] = true
							}
						}
						if a, ok := ltForm(cd.V); ok {
							for t0, co := range a.T {
								t := subst(t0)
								if co == 1 && strings.Contains(t, "math.") && strings.HasPrefix(t, "conv:int(") {
									targets["surplus"][strings.TrimSuffix(roundingOf(t), ")")] = true
								}
								if co == -1 && strings.Contains(t, "math.") && strings.HasPrefix(t, "conv:int(") {
									targets["surplus"][strings.TrimSuffix(roundingOf(t), ")")] = true
								}
							}
						}
					}
				}
			}
		}
		norm := func(m map[string]bool) []string {
			out := map[string]bool{}
			for k := range m {
				// keep only the rounding function and drop the loop-local naming of the water level
				if i := strings.Index(k, "("); i > 0 {
					out[k[:i]] = true
				}
			}
			return sortedSet(out)
		}
		tu, su, st := norm(targets["top-up"]), norm(targets["surplus"]), norm(targets["stop"])
		okT := len(tu) == 1 && len(st) == 1 && tu[0] == st[0] && (len(su) == 0 || (len(su) == 1 && su[0] == tu[0]))
		c.check(okT, "targets-agree", fnKey(sync), p.FnPos(sync), fmt.Sprintf("top-up target, surplus threshold and release stop level all use %v of the water level", tu), fmt.Sprintf("the balancing targets disagree: top-up %v, surplus %v, stop %v — tables are filled to one level and drained towards another", tu, su, st))
	}

	// ---- stop-level-shape: the level at which releasing stops is "players on the tables at or below
	// the water level, divided by the number of those tables": one pass over all tables, a table at
	// or below the level is counted, any other table's own player count is taken off the total
	{
		ra := resolveRegAnchors(p)
		s := regSumm(p, 0)
		s.HelperInline = ra.helperFilter(p, sync)
		paths, _ := s.Function(sync)
		var lvl *ssa.Function
		for _, ps := range paths {
			for _, e := range ps.Events {
				if e.Kind != "loop" {
					continue
				}
				body, _ := s.LoopBody(e.InFn, e.Loop)
				for _, bp := range body {
					for _, e2 := range bp.Events {
						if e2.Kind == "call" && e2.Fn != nil && e2.Fn.Pkg == sync.Pkg && e2.Fn.Signature.Results().Len() == 1 && typeShort(e2.Fn.Signature.Results().At(0).Type()) == "float64" {
							lvl = e2.Fn
						}
					}
				}
			}
		}
		if lvl == nil {
			c.undecided("stop-level-shape", "stop-level", "-", "the function giving the level at which releasing stops was not resolved")
		} else {
			c.touch(fnKey(lvl))
			ls := regSumm(p, 0)
			var bad []string
			loops := ls.loops(lvl)
			if len(loops) != 1 {
				bad = append(bad, fmt.Sprintf("%d loops, expected one pass over the tables", len(loops)))
			} else {
				l := loops[0]
				ri := analyseRange(l)
				if ri.Kind != "map" || !ri.Full || len(l.Exits) != 1 || !loadsField(ri.Coll, "regulator.regulator.tables") {
					bad = append(bad, "the pass does not cover every table")
				}
				body, _ := ls.LoopBody(lvl, l)
				nLow, nHigh := 0, 0
				for _, bp := range body {
					if bp.End != "continue" {
						bad = append(bad, "the pass over the tables can stop early")
						continue
					}
					var inc, dec []string
					keep := 0
					for k, v := range bp.Store {
						if !strings.HasPrefix(k, "backedge:") {
							continue
						}
						a := v.asAff()
						self := "iter:" + lvl.Name() + "." + strings.TrimPrefix(k, "backedge:")
						d := a.add(affTerm(self), -1)
						switch {
						case d.isZero():
							keep++
						case d.isConst() && d.C == 1:
							inc = append(inc, k)
						default:
							dec = append(dec, d.String())
						}
					}
					switch {
					case len(inc) == 1 && len(dec) == 0:
						nLow++
						// counted: the table is at or below the level
						if !hasCond(bp, func(v *Val) bool {
							a, ok := ltForm(v)
							if !ok {
								return false
							}
							pc := false
							for t, co := range a.T {
								if strings.HasSuffix(t, ".PlayerCount") && strings.HasPrefix(t, "elem@") && co == 1 {
									pc = true
								}
							}
							return pc && a.C == -1
						}) {
							bad = append(bad, "a table is counted as low without the test PlayerCount <= level: ["+bp.CondString()+"]")
						}
					case len(inc) == 0 && len(dec) == 1:
						nHigh++
						if !(strings.HasPrefix(dec[0], "-elem@") && strings.HasSuffix(dec[0], ".PlayerCount")) {
							bad = append(bad, "a table above the level takes "+dec[0]+" off the total, expected minus its own player count")
						}
					case len(inc) == 0 && len(dec) == 0:
						bad = append(bad, "a table is neither counted nor taken off the total")
					default:
						bad = append(bad, "a table is both counted and taken off the total")
					}
				}
				if nLow == 0 || nHigh == 0 {
					bad = append(bad, "the pass does not distinguish tables at or below the level from the others")
				}
			}
			c.check(len(bad) == 0, "stop-level-shape", fnKey(lvl), p.FnPos(lvl), "every table is either counted (PlayerCount <= level) or has its own player count taken off the total", "the level at which releasing stops is computed wrongly: releases may never stop", uniq(bad, 3)...)
		}
	}

	// ---- released-are-queued
	{
		c.touch(fnKey(rel))
		s := regSumm(p, 1)
		paths, _ := s.Function(rel)
		pl := "param:" + rel.Params[2].Name()
		var bad []string
		nDrain := 0
		for _, ps := range paths {
			st := ps.storesTo("regulator.regulator.waitingQueue")
			if len(st) < 1 || st[0].Val.String() != "append(recv.waitingQueue, "+pl+")" {
				got := "<nothing>"
				if len(st) > 0 {
					got = st[0].Val.String()
				}
				bad = append(bad, "released players are not all appended to the waiting queue: "+got)
			}
			pend := hasCond(ps, func(v *Val) bool {
				return v.K == KAtom && v.At.Op == "eq" && !v.Neg && strings.HasPrefix(v.At.A.String(), "recv.status")
			})
			if !pend {
				if ra := resolveRegAnchors(p); ra.drainer == nil || len(callsTo(ps, ra.drainer)) == 0 {
					bad = append(bad, "released players are queued but the queue is not drained although the competition is running")
				} else {
					nDrain++
				}
			}
		}
		c.check(len(bad) == 0 && nDrain > 0, "released-are-queued", fnKey(rel), p.FnPos(rel), "the whole argument is appended to the waiting queue and the queue is drained unless pending", "released players are not queued for another table", uniq(bad, 3)...)
	}
}

var loopvalRe = regexp.MustCompile(`loopval:[A-Za-z0-9_$]+\.(t[0-9]+)`)

// nameRoundings rewrites "loopval:<fn>.<tN>" to "math.Floor(<tN>)" (or Ceil/Round/Trunc) when the
// SSA value tN of fn is the result of that rounding, looking through integer/float conversions.
func nameRoundings(x string, fn *ssa.Function) string {
	return loopvalRe.ReplaceAllStringFunc(x, func(m string) string {
		name := loopvalRe.FindStringSubmatch(m)[1]
		for _, b := range fn.Blocks {
			for _, in := range b.Instrs {
				v, ok := in.(ssa.Value)
				if !ok || v.Name() != name {
					continue
				}
				for i := 0; i < 3; i++ {
					if cv, ok := v.(*ssa.Convert); ok {
						v = cv.X
					}
				}
				if call, ok := v.(*ssa.Call); ok {
					if n := extCalleeName(call.Common()); strings.HasPrefix(n, "math.") {
						return n + "(" + name + ")"
					}
				}
			}
		}
		return m
	})
}
