package main

import (
	"fmt"
	"strings"
)

func init() {
	register(&propDef{
		ID: "C20", Level: "other", Run: runC20,
		Explanation: "THIN: only the second sentence of the property is decided. On both break paths of SyncState the release count handed back is the table's full player count after the break succeeded, the table broken is the syncing one, and no players are handed to it; ReleasePlayers appends its whole argument to the waiting queue on every path and, unless the competition is pending, drains the queue, so every released player is queued for another table. Convergence of repeated sweeps (no oscillation, bounded number of sweeps) is a liveness property of a numeric fixed point and is NOT decided.",
		Trusted:     commonTrusted,
		Assumptions: []string{"tables carry out the release they are told (the property's premise)"},
		NotCovered:  "convergence within a bounded number of sweeps for every sync order; absence of oscillation",
	})
}

func runC20(c *Ctx) {
	p := c.P
	sync := p.Func(regPkg, "regulator", "SyncState")
	rel := p.Func(regPkg, "regulator", "ReleasePlayers")
	if sync == nil || rel == nil {
		c.undecided("anchors", "regulator", "-", "SyncState / ReleasePlayers not found")
		return
	}
	// ---- break-releases-all
	{
		c.touch(fnKey(sync))
		ra := resolveRegAnchors(p)
		s := regSumm(p, 0)
		s.HelperInline = ra.helperFilter(p, sync)
		paths, _ := s.Function(sync)
		tid, out := "param:"+sync.Params[1].Name(), "param:"+sync.Params[2].Name()
		T := "lookup(recv.tables, " + tid + ")"
		var bad []string
		n := 0
		for _, ps := range paths {
			brk := callsTo(ps, ra.breaker)
			if len(brk) == 0 {
				continue
			}
			okBreak := hasCond(ps, func(v *Val) bool {
				return v.K == KAtom && v.At.Op == "is" && !v.Neg && strings.Contains(v.At.String(), fnKey(ra.breaker)+"(") && strings.Contains(v.At.String(), "nil")
			})
			if !okBreak {
				// break failed: nothing released
				if v, ok := ps.Ret[0].isConstInt(); !ok || v != 0 {
					bad = append(bad, "a failed break still asks for a release")
				}
				continue
			}
			n++
			if brk[0].Args[1].String() != tid {
				bad = append(bad, "the table broken is not the syncing table")
			}
			want := affTerm(T + ".PlayerCount").add(affTerm(out), -1)
			if !ps.Ret[0].asAff().equal(want) {
				bad = append(bad, "a broken table is told to release "+ps.Ret[0].String()+", not all of its players")
			}
			if !isEmptyVal(ps.Ret[1]) {
				bad = append(bad, "a broken table is handed new players")
			}
		}
		c.floor("break-releases-all", "break paths", n, 2)
		c.check(len(bad) == 0, "break-releases-all", fnKey(sync), p.FnPos(sync), fmt.Sprintf("on all %d break paths the release count is the table's full player count", n), "a broken table strands players", uniq(bad, 3)...)
	}
	// ---- targets-agree: the level a low table is topped up to, the level above which a table has a
	// surplus, and the level at which releasing stops are one and the same function of the water
	// level; otherwise a table topped up to one level is drained again towards another, forever
	{
		ra := resolveRegAnchors(p)
		s := regSumm(p, 0)
		s.HelperInline = ra.helperFilter(p, sync)
		paths, _ := s.Function(sync)
		targets := map[string]map[string]bool{"top-up": {}, "surplus": {}, "stop": {}}
		roundingOf := func(term string) string {
			for _, fn := range []string{"math.Floor(", "math.Ceil(", "math.Round(", "math.Trunc("} {
				if i := strings.Index(term, fn); i >= 0 {
					return term[i:]
				}
			}
			return term
		}
		for _, ps := range paths {
			for _, e := range callsToAny(ps, ra.poppers) {
				for t, co := range e.Args[1].asAff().T {
					if co == 1 && strings.Contains(t, "math.") {
						targets["top-up"][strings.TrimSuffix(roundingOf(t), ")")] = true
					}
				}
			}
			for _, e := range ps.Events {
				if e.Kind != "loop" {
					continue
				}
				// surplus: the loop bound is PlayerCount - T
				ci := analyseCounting(e.Loop)
				if ci.OK {
					// evaluate the bound on the function path: find it among the path's values via the body summary
				}
				body, _ := s.LoopBody(e.InFn, e.Loop)
				// a loop that lives in a helper analysed in place sees the helper's parameters: read
				// them as the arguments the helper was entered with
				subst := func(x string) string { return x }
				if e.InFn != sync {
					for _, en := range ps.Events {
						if en.Kind == "enter" && en.Fn == e.InFn {
							fn, args := en.Fn, en.Args
							subst = func(x string) string { return substParams(x, fn, args) }
						}
					}
				}
				for _, bp := range body {
					for _, cd := range bp.Conds {
						str := subst(cd.V.String())
						if cd.V.K == KAtom && cd.V.At.Op == "b" && strings.Contains(str, "calculateLowerWaterLevel(") || strings.Contains(str, ">= math.") {
							if i := strings.Index(str, ">= "); i >= 0 {
								targets["stop"][strings.TrimRight(roundingOf(str[i+3:]), ")")] = true
							}
						}
						if a, ok := ltForm(cd.V); ok {
							for t0, co := range a.T {
								t := subst(t0)
								if co == 1 && strings.Contains(t, "math.") && strings.HasPrefix(t, "conv:int(") {
									targets["surplus"][strings.TrimSuffix(roundingOf(t), ")")] = true
								}
								if co == -1 && strings.Contains(t, "math.") && strings.HasPrefix(t, "conv:int(") {
									targets["surplus"][strings.TrimSuffix(roundingOf(t), ")")] = true
								}
							}
						}
					}
				}
			}
		}
		norm := func(m map[string]bool) []string {
			out := map[string]bool{}
			for k := range m {
				// keep only the rounding function and drop the loop-local naming of the water level
				if i := strings.Index(k, "("); i > 0 {
					out[k[:i]] = true
				}
			}
			return sortedSet(out)
		}
		tu, su, st := norm(targets["top-up"]), norm(targets["surplus"]), norm(targets["stop"])
		okT := len(tu) == 1 && len(st) == 1 && tu[0] == st[0] && (len(su) == 0 || (len(su) == 1 && su[0] == tu[0]))
		c.check(okT, "targets-agree", fnKey(sync), p.FnPos(sync), fmt.Sprintf("top-up target, surplus threshold and release stop level all use %v of the water level", tu), fmt.Sprintf("the balancing targets disagree: top-up %v, surplus %v, stop %v — tables are filled to one level and drained towards another", tu, su, st))
	}

	// ---- released-are-queued
	{
		c.touch(fnKey(rel))
		s := regSumm(p, 1)
		paths, _ := s.Function(rel)
		pl := "param:" + rel.Params[2].Name()
		var bad []string
		nDrain := 0
		for _, ps := range paths {
			st := ps.storesTo("regulator.regulator.waitingQueue")
			if len(st) < 1 || st[0].Val.String() != "append(recv.waitingQueue, "+pl+")" {
				got := "<nothing>"
				if len(st) > 0 {
					got = st[0].Val.String()
				}
				bad = append(bad, "released players are not all appended to the waiting queue: "+got)
			}
			pend := hasCond(ps, func(v *Val) bool { return v.K == KAtom && v.At.Op == "eq" && !v.Neg && strings.HasPrefix(v.At.A.String(), "recv.status") })
			if !pend {
				if ra := resolveRegAnchors(p); ra.drainer == nil || len(callsTo(ps, ra.drainer)) == 0 {
					bad = append(bad, "released players are queued but the queue is not drained although the competition is running")
				} else {
					nDrain++
				}
			}
		}
		c.check(len(bad) == 0 && nDrain > 0, "released-are-queued", fnKey(rel), p.FnPos(rel), "the whole argument is appended to the waiting queue and the queue is drained unless pending", "released players are not queued for another table", uniq(bad, 3)...)
	}
}
