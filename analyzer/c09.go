package main

import (
	"fmt"
	"go/token"
	"go/types"
	"sort"
	"strconv"
	"strings"

	"golang.org/x/tools/go/ssa"
)

func init() {
	register(&propDef{
		ID: "C09", Level: "other", Run: runC09,
		Explanation: "Refusals: every effect of SyncState comes after the found edge of the table lookup and the not-found edge returns the not-found error without effect; every effect of AddPlayers comes after status != after-deadline and the other edge returns the deadline error without effect (ReleasePlayers is exempt by the repo's own protocol: a broken table is deleted before its players are released). Counters move in lock-step on every non-error path: AddPlayers adds len(players) and queues the same slice; SyncState subtracts the eliminated count from both the total and the table; a top-up adds exactly the number of players it hands back; a release decrements the table once per picked player; a break returns the table's full count, deletes the entry and decrements the table count; dispatch moves len(picked) from Required to PlayerCount for the slice it handed to the assign callback; a new table is entered with the size of the slice handed to the request callback, the table count incremented and the entry inserted. The waiting queue is written only by appending incoming players, by popping its head in lock-step with the result, and by storing the undispatched remainder. Does NOT decide no-loss/no-duplication across histories nor the callback-error paths.",
		Trusted:     commonTrusted,
		Assumptions: []string{"len(x) is an opaque symbol: equal slices have equal lengths", "the callbacks do what the regulator asks (the property speaks of tables that follow instructions)"},
		NotCovered:  "no duplicates / no loss across unbounded histories (multiset conservation); callback-error paths (today they drop the picked players)",
	})
}

const regPkg = "regulator"

func regSumm(p *Prog, d int) *Summ {
	s := newSumm(p, d)
	s.EngineAliases = false
	// queue accessors are read where they are called
	qh := queueHelpers(p)
	core := openerCoreOf(p)
	s.HelperInline = func(f *ssa.Function) bool { return qh[f] || (core != nil && f == core) }
	return s
}

var openerCoreCache = map[*Prog]*ssa.Function{}
var openerCoreBusy = map[*Prog]bool{}

func openerCoreOf(p *Prog) *ssa.Function {
	if f, ok := openerCoreCache[p]; ok {
		return f
	}
	if openerCoreBusy[p] {
		return nil
	}
	openerCoreBusy[p] = true
	ra := resolveRegAnchors(p)
	openerCoreBusy[p] = false
	openerCoreCache[p] = ra.openerCore
	return ra.openerCore
}

// regAnchors resolves the regulator's internal routines by role (never by name).
type regAnchors struct {
	breaker    *ssa.Function          // deletes a table entry and decrements the table count
	poppers    map[*ssa.Function]bool // pop the head of the waiting queue in a loop
	enqueuer   *ssa.Function          // appends incoming players to the waiting queue
	drainer    *ssa.Function          // stores the undispatched remainder into the queue
	dispatcher *ssa.Function          // invokes the assign-players callback
	opener     *ssa.Function          // invokes the request-table callback (or the function that pops the players and calls the helper that does)
	openerCore *ssa.Function          // the loop-free helper that holds the callback call, when split off
	bulk       map[*ssa.Function]bool // poppers that cut the first n players off in one step
	all        map[*ssa.Function]bool
}

// queueHelpers: package-private functions without loops that store to the waiting queue and are
// called from the package (a setter, a pop-the-head accessor). They are analysed where they are
// called; the roles go to their callers.
var queueHelpersOf = map[*Prog]map[*ssa.Function]bool{}

func queueHelpers(p *Prog) map[*ssa.Function]bool {
	if m, ok := queueHelpersOf[p]; ok {
		return m
	}
	m := map[*ssa.Function]bool{}
	ix := p.Index()
	for _, fn := range p.Funcs {
		if fn.Pkg == nil || shortPkg(fn.Pkg.Pkg.Path()) != regPkg || fn.Parent() != nil || fn.Blocks == nil || token.IsExported(fn.Name()) || len(findLoops(fn)) > 0 {
			continue
		}
		stores, leaf := false, true
		for _, b := range fn.Blocks {
			for _, in := range b.Instrs {
				if st, ok := in.(*ssa.Store); ok && accessKey(st.Addr) == "regulator.regulator.waitingQueue" {
					stores = true
				}
				// an accessor does nothing else: no calls except builtins and printing
				if call, ok := in.(ssa.CallInstruction); ok {
					cc := call.Common()
					if _, bi := cc.Value.(*ssa.Builtin); bi {
						continue
					}
					if n := extCalleeName(cc); strings.HasPrefix(n, "fmt.") {
						continue
					}
					leaf = false
				}
			}
		}
		if !stores || !leaf {
			continue
		}
		called := false
		for _, cl := range ix.Callers(fn) {
			if cl.Pkg == fn.Pkg {
				called = true
			}
		}
		if called {
			m[fn] = true
		}
	}
	queueHelpersOf[p] = m
	return m
}

func (ra *regAnchors) classifyQueueStore(fn *ssa.Function, val ssa.Value, inLoop bool) {
	switch v := val.(type) {
	case *ssa.Slice:
		if inLoop {
			ra.poppers[fn] = true
		} else if lo, isC := constInt(v.Low); (!isC || lo != 1) && v.Low != nil && fn.Signature.Results().Len() == 1 && typeShort(fn.Signature.Results().At(0).Type()) == "[]string" {
			// bulk pop: the first n players are cut off in one step and handed back
			ra.poppers[fn] = true
			if ra.bulk == nil {
				ra.bulk = map[*ssa.Function]bool{}
			}
			ra.bulk[fn] = true
		}
	case *ssa.Call:
		if bi, ok := v.Call.Value.(*ssa.Builtin); ok && bi.Name() == "append" {
			ra.enqueuer = fn
		} else {
			// the result of a helper that returns what is left over
			ra.drainer = fn
		}
	case *ssa.Phi:
		ra.drainer = fn
	}
}

// storeThroughHelper books the store of val by accessor h on h's callers: a parameter is read as
// the argument of the call, and "in a loop" is asked of the call site.
func (ra *regAnchors) storeThroughHelper(ix *Index, h *ssa.Function, val ssa.Value, depth int) {
	if depth > 2 {
		return
	}
	for _, cl := range ix.Callers(h) {
		if cl.Pkg != h.Pkg {
			continue
		}
		for _, site := range ix.CallSites(cl, h) {
			cc := site.Common()
			if cc.StaticCallee() != h {
				continue
			}
			v := val
			if prm, ok := val.(*ssa.Parameter); ok {
				for i, fp := range h.Params {
					if fp == prm && i < len(cc.Args) {
						v = cc.Args[i]
					}
				}
			}
			if queueHelpers(ix.P)[cl] {
				ra.storeThroughHelper(ix, cl, v, depth+1)
				continue
			}
			inLoop := false
			for _, l := range findLoops(cl) {
				if l.Blocks[site.Block()] {
					inLoop = true
				}
			}
			ra.classifyQueueStore(cl, v, inLoop)
		}
	}
}

func resolveRegAnchors(p *Prog) *regAnchors {
	ra := &regAnchors{poppers: map[*ssa.Function]bool{}, all: map[*ssa.Function]bool{}}
	ix := p.Index()
	qh := queueHelpers(p)
	for _, fn := range p.Funcs {
		if fn.Pkg == nil || shortPkg(fn.Pkg.Pkg.Path()) != regPkg || fn.Parent() != nil {
			continue
		}
		hasLoop := len(findLoops(fn)) > 0
		for _, b := range fn.Blocks {
			for _, in := range b.Instrs {
				switch x := in.(type) {
				case *ssa.Call:
					if bi, ok := x.Call.Value.(*ssa.Builtin); ok && bi.Name() == "delete" && typeShort(x.Call.Args[0].Type()) == "map[string]*regulator.Table" {
						ra.breaker = fn
					}
					if !x.Call.IsInvoke() && x.Call.StaticCallee() == nil {
						if loadsField(x.Call.Value, "regulator.regulator.assignPlayersFn") {
							ra.dispatcher = fn
						}
						if loadsField(x.Call.Value, "regulator.regulator.requestTableFn") {
							ra.opener = fn
						}
					}
				case *ssa.Store:
					if accessKey(x.Addr) != "regulator.regulator.waitingQueue" {
						continue
					}
					if qh[fn] {
						// a small accessor: the store belongs to whoever calls it
						ra.storeThroughHelper(ix, fn, x.Val, 0)
						continue
					}
					ra.classifyQueueStore(fn, x.Val, hasLoop)
				}
			}
		}
	}
	// a function that only hands back what a popper returned for its own argument (or nothing at
	// all) pops the queue on behalf of its caller: de-duplicating two poppers leaves such a wrapper
	for changed := true; changed; {
		changed = false
		for _, fn := range p.Funcs {
			if fn.Pkg == nil || shortPkg(fn.Pkg.Pkg.Path()) != regPkg || fn.Parent() != nil || ra.poppers[fn] || fn.Blocks == nil || len(findLoops(fn)) > 0 {
				continue
			}
			if fn.Signature.Results().Len() != 1 || typeShort(fn.Signature.Results().At(0).Type()) != "[]string" {
				continue
			}
			// a pass-through does nothing else: a helper that also books the players it got
			// (counters of a table) is a step of its caller and is read there
			if fi := ix.Info[fn]; fi != nil {
				stores := false
				for _, w := range fi.Writes {
					if !w.Fresh {
						stores = true
					}
				}
				if stores {
					continue
				}
			}
			ok, n := true, 0
			for _, b := range fn.Blocks {
				r, isRet := b.Instrs[len(b.Instrs)-1].(*ssa.Return)
				if !isRet {
					continue
				}
				var leaves []ssa.Value
				retLeaves(r.Results[0], map[ssa.Value]bool{}, &leaves)
				for _, lf := range leaves {
					switch x := lf.(type) {
					case *ssa.Call:
						f := x.Call.StaticCallee()
						if f == nil || !ra.poppers[f] {
							ok = false
							break
						}
						for _, a := range x.Call.Args[1:] {
							if _, isParam := a.(*ssa.Parameter); !isParam {
								ok = false
							}
						}
						n++
					case *ssa.Slice:
						// an empty literal: []string{}
						if al, isAlloc := x.X.(*ssa.Alloc); !isAlloc || !strings.Contains(al.Type().String(), "[0]string") {
							ok = false
						}
					default:
						ok = false
					}
				}
			}
			if ok && n > 0 {
				ra.poppers[fn] = true
				changed = true
			}
		}
	}
	// the callback call split off into a loop-free helper (openTable(players, level)): the opener
	// is the function that pops the players and calls it; the helper is read where it is called
	if ra.opener != nil && len(findLoops(ra.opener)) == 0 {
		var cl []*ssa.Function
		for _, c0 := range ix.Callers(ra.opener) {
			if c0.Pkg == ra.opener.Pkg {
				cl = append(cl, c0)
			}
		}
		if len(cl) == 1 && len(findLoops(cl[0])) > 0 {
			ra.openerCore = ra.opener
			ra.opener = cl[0]
		}
	}
	for _, f := range []*ssa.Function{ra.breaker, ra.enqueuer, ra.drainer, ra.dispatcher, ra.opener} {
		if f != nil {
			ra.all[f] = true
		}
	}
	for f := range ra.poppers {
		ra.all[f] = true
	}
	return ra
}

// regHelpers: package-private helpers that are not role anchors and do not iterate over the
// table map are analysed where they are used.
func (ra *regAnchors) helperFilter(p *Prog, owner *ssa.Function) func(*ssa.Function) bool {
	return func(f *ssa.Function) bool {
		if f == ra.openerCore && f != nil {
			return true
		}
		if !privateHelper(owner, f) || ra.all[f] {
			return false
		}
		// counting helpers over the table map stay opaque predicates
		for _, l := range findLoops(f) {
			if ri := analyseRange(l); ri.Kind == "map" {
				return false
			}
		}
		return true
	}
}

func callsTo(ps *PathSum, fn *ssa.Function) []*Event {
	var out []*Event
	for _, e := range ps.Events {
		if (e.Kind == "call" || e.Kind == "defer") && e.Fn != nil && e.Fn == fn {
			out = append(out, e)
		}
	}
	return out
}

func callsToAny(ps *PathSum, fns map[*ssa.Function]bool) []*Event {
	var out []*Event
	for _, e := range ps.Events {
		if (e.Kind == "call" || e.Kind == "defer") && e.Fn != nil && fns[e.Fn] {
			out = append(out, e)
		}
	}
	return out
}

// refusalCheck: generic guard/refusal over path summaries with an explicit pass test.
func (c *Ctx) refusalCheck(rule string, fn *ssa.Function, guardName string, isGuard func(v *Val) (isG bool, passed bool), wantErr string) {
	p := c.P
	c.touch(fnKey(fn))
	s := regSumm(p, 0)
	{
		// a guard may be a small predicate (isRegistrationClosed()): loop-free, store-free, bool
		base := s.HelperInline
		ix := p.Index()
		s.HelperInline = func(f *ssa.Function) bool {
			if base != nil && base(f) {
				return true
			}
			if !privateHelper(fn, f) || len(findLoops(f)) > 0 || f.Signature.Results().Len() != 1 || !isBoolType(f.Signature.Results().At(0).Type()) {
				return false
			}
			if fi := ix.Info[f]; fi != nil {
				for _, w := range fi.Writes {
					if !w.Fresh {
						return false
					}
				}
			}
			return true
		}
	}
	paths, cut := s.Function(fn)
	if cut != "" {
		c.undecided(rule, fnKey(fn), p.FnPos(fn), "summary cut: "+cut)
		return
	}
	var bad []string
	nPass, nRefuse := 0, 0
	for _, ps := range paths {
		gi, passed := -1, false
		for i, cd := range ps.Conds {
			if g, ok := isGuard(cd.V); g {
				gi = i
				passed = ok
				break
			}
		}
		effects := c.pathEffects(ps)
		if gi < 0 {
			if len(effects) > 0 {
				bad = append(bad, "effect "+effects[0]+" on a path that never tests "+guardName)
			}
			continue
		}
		if passed {
			nPass++
			for ei, e := range ps.Events {
				if ei >= ps.Conds[gi].NEv {
					break
				}
				if eff, why := c.effectOf(e); eff {
					bad = append(bad, "effect "+why+" precedes the test of "+guardName)
				}
			}
			continue
		}
		nRefuse++
		if len(effects) > 0 {
			bad = append(bad, "the refusing edge has effect "+effects[0])
		}
		name, ok := "", false
		if len(ps.Ret) > 0 {
			name, ok = c.sentinelError(ps.Ret[len(ps.Ret)-1])
		}
		if !ok || !strings.HasSuffix(name, wantErr) {
			bad = append(bad, "the refusing edge does not return "+wantErr)
		}
	}
	c.Sites += len(paths)
	c.check(len(bad) == 0 && nPass > 0 && nRefuse > 0, rule, fnKey(fn), p.FnPos(fn), "all effects come after the passed test of "+guardName+"; the other edge returns "+wantErr+" without effect", "refusal is not effect-free", uniq(bad, 4)...)
}

func runC09(c *Ctx) {
	p := c.P
	sync := p.Func(regPkg, "regulator", "SyncState")
	add := p.Func(regPkg, "regulator", "AddPlayers")
	if sync == nil || add == nil {
		c.undecided("anchors", "regulator", "-", "SyncState / AddPlayers not found")
		return
	}
	// ---- refusal
	c.refusalCheck("refusal", sync, "the table lookup", func(v *Val) (bool, bool) {
		if v.K == KAtom && v.At.Op == "b" && strings.HasPrefix(v.At.L, "has(recv.tables, param:"+sync.Params[1].Name()+")") {
			return true, !v.Neg
		}
		return false, false
	}, "ErrNotFoundTable")
	after, okc := lookupIntConst(p, regPkg, "CompetitionStatus_AfterRegDeadline")
	if !okc {
		c.undecided("refusal", fnKey(add), p.FnPos(add), "constant CompetitionStatus_AfterRegDeadline not found")
	} else {
		c.refusalCheck("refusal", add, "the registration deadline", func(v *Val) (bool, bool) {
			if v.K == KAtom && v.At.Op == "eq" && v.At.A.String() == fmt.Sprintf("recv.status - %d", after) {
				return true, v.Neg
			}
			return false, false
		}, "ErrAfterRegDealline")
	}
	c.Notes = append(c.Notes, "ReleasePlayers carries no unknown-table refusal by the repo's own protocol: a broken table is deleted inside SyncState before its players are released, so the releasing table is unknown by design")

	// ---- counter-lockstep
	runRegLockstep(c, "counter-lockstep")
	// ---- queue-discipline
	runRegQueue(c)
}

func lookupIntConst(p *Prog, pkg, name string) (int64, bool) {
	tp, _, _ := p.pkgShort(pkg)
	if tp == nil {
		return 0, false
	}
	cst, ok := tp.Scope().Lookup(name).(*types.Const)
	if !ok {
		return 0, false
	}
	return cint(cst.Val())
}

// runRegLockstep: the counter rules (also used by C19 for dispatch and by C20 for break).
func runRegLockstep(c *Ctx, rule string) {
	p := c.P
	ra := resolveRegAnchors(p)
	if ra.breaker == nil || ra.enqueuer == nil || ra.dispatcher == nil || ra.opener == nil || len(ra.poppers) == 0 {
		c.undecided(rule, "anchors", "-", "cannot resolve the regulator's internal routines by role (breaker / queue writers / dispatcher / opener)")
		return
	}
	c.role("table breaker", fnKey(ra.breaker))
	c.role("queue poppers", fnNames(fnSetToList(ra.poppers)))
	// ---- required-not-accumulated: a table's outstanding requirement is set from the current
	// shortfall (or reduced by what was handed out); it is never increased by adding to itself, or
	// seats already promised are promised again and the table is filled beyond the level
	{
		ix := p.Index()
		var bad []string
		n := 0
		for _, w := range ix.AnyWriters("regulator.Table.Required") {
			s := regSumm(p, 0)
			fp, _ := s.Function(w)
			sets := [][]*PathSum{fp}
			for _, l := range s.loops(w) {
				bp, _ := s.LoopBody(w, l)
				sets = append(sets, bp)
			}
			for _, set := range sets {
				for _, ps := range set {
					for _, e := range ps.storesTo("regulator.Table.Required") {
						n++
						a := e.Val.asAff()
						self := e.Loc
						if a.T[self] <= 0 {
							continue
						}
						for t, co := range a.T {
							if t != self && co > 0 {
								bad = append(bad, fnKey(w)+": "+e.Loc+" := "+e.Val.String()+" adds to the requirement already outstanding ("+e.Pos+")")
							}
						}
						if a.C > 0 {
							bad = append(bad, fnKey(w)+": "+e.Loc+" := "+e.Val.String()+" ("+e.Pos+")")
						}
					}
				}
			}
		}
		c.check(len(bad) == 0 && n > 0, "counter-lockstep", "Table.Required#not-accumulated", "-", "a requirement is set from the shortfall or reduced by a hand-out, never added to", "a table's requirement can grow beyond its shortfall", uniq(bad, 2)...)
	}
	// ---- total-owner: the player total changes with registrations (+len) and eliminations (-out)
	// only; the rules below pin those two. Anything else that stores it (a "resync" from the table
	// sheets, say) forgets the players who are on their way between a table and the queue
	{
		ix := p.Index()
		add := p.Func(regPkg, "regulator", "AddPlayers")
		sync := p.Func(regPkg, "regulator", "SyncState")
		var bad []string
		n := 0
		for _, w := range ix.Writers("regulator.regulator.playerCount") {
			n++
			if w == add || w == sync || (w.Signature.Recv() == nil && strings.HasPrefix(w.Name(), "New")) {
				continue
			}
			// a package-private helper of one of the two
			okH := false
			for _, cl := range ix.Callers(w) {
				if (cl == add || cl == sync) && privateHelper(cl, w) {
					okH = true
				}
			}
			if !okH {
				bad = append(bad, fnKey(w)+" stores the player total")
			}
		}
		c.check(len(bad) == 0 && n >= 2, "counter-lockstep", "regulator.playerCount#owner", "-", "the player total is stored by registration and by sync only", "the player total is recomputed elsewhere", uniq(bad, 2)...)
	}
	c.role("enqueuer", fnKey(ra.enqueuer))
	c.role("dispatcher", fnKey(ra.dispatcher))
	c.role("table opener", fnKey(ra.opener))
	sync := p.Func(regPkg, "regulator", "SyncState")
	add := p.Func(regPkg, "regulator", "AddPlayers")
	// (a) AddPlayers
	{
		s := regSumm(p, 0)
		paths, _ := s.Function(add)
		pl := "param:" + add.Params[1].Name()
		var bad []string
		n := 0
		for _, ps := range paths {
			st := ps.storesTo("regulator.regulator.playerCount")
			if len(st) == 0 {
				continue
			}
			n++
			if len(st) != 1 || st[0].Val.asAff().String() != "len("+pl+") + recv.playerCount" {
				bad = append(bad, "the total changes by something other than len(players): "+st[0].Val.String())
			}
			q := callsTo(ps, ra.enqueuer)
			if len(q) != 1 || q[0].Args[1].String() != pl {
				bad = append(bad, "the players counted are not the players queued")
			}
		}
		c.check(len(bad) == 0 && n > 0, rule, fnKey(add), p.FnPos(add), "the total grows by len(players) and the same slice is queued", "registration miscounts", uniq(bad, 3)...)
	}
	// (b) SyncState
	{
		c.touch(fnKey(sync))
		s := regSumm(p, 0)
		s.HelperInline = ra.helperFilter(p, sync)
		paths, cut := s.Function(sync)
		tid, out := "param:"+sync.Params[1].Name(), "param:"+sync.Params[2].Name()
		T := "lookup(recv.tables, " + tid + ")"
		var bad []string
		kinds := map[string]int{}
		if cut != "" {
			bad = append(bad, "summary cut: "+cut)
		}
		// the release loop (possibly inside an inlined helper)
		var relLoop *Loop
		var relFn *ssa.Function
		for _, ps := range paths {
			for _, e := range ps.Events {
				if e.Kind == "loop" {
					relLoop, relFn = e.Loop, e.InFn
				}
			}
		}
		for _, ps := range paths {
			if !hasCond(ps, func(v *Val) bool {
				return v.K == KAtom && v.At.Op == "b" && !v.Neg && strings.HasPrefix(v.At.L, "has(recv.tables")
			}) {
				continue
			}
			total := ps.storesTo("regulator.regulator.playerCount")
			tab := ps.storesTo("regulator.Table.PlayerCount")
			if len(total) != 1 || total[0].Val.asAff().String() != "-"+out+" + recv.playerCount" {
				bad = append(bad, "the total is not reduced by exactly the eliminated count")
				continue
			}
			if len(tab) == 0 || tab[0].Loc != T+".PlayerCount" || tab[0].Val.asAff().String() != T+".PlayerCount - "+out {
				bad = append(bad, "the syncing table's count is not reduced by exactly the eliminated count")
				continue
			}
			cur := tab[0].Val.asAff()
			brk := callsTo(ps, ra.breaker)
			req := callsToAny(ps, ra.poppers)
			hasLoop := false
			for _, e := range ps.Events {
				if e.Kind == "loop" {
					hasLoop = true
				}
			}
			errRet := len(ps.Ret) == 3 && ps.Ret[2].String() != "nil"
			switch {
			case len(brk) == 1:
				kinds["break"]++
				if len(req) > 0 {
					bad = append(bad, "players are popped from the waiting queue on a path that breaks the table and does not hand them over: they are in no place")
				}
				if brk[0].Args[1].String() != tid {
					bad = append(bad, "the table broken is not the syncing table")
				}
				if !errRet {
					if !ps.Ret[0].asAff().equal(cur) {
						bad = append(bad, "a broken table releases "+ps.Ret[0].String()+", not its full player count")
					}
					if !isEmptyVal(ps.Ret[1]) || len(tab) != 1 {
						bad = append(bad, "a broken table is also handed players or its count changes again")
					}
				}
			case len(req) == 1:
				kinds["top-up"]++
				R := req[0].Res.String()
				if len(tab) != 2 || !tab[1].Val.asAff().equal(cur.add(affTerm("len("+R+")"), 1)) {
					bad = append(bad, "a top-up does not add exactly the number of players handed back to the table's count")
				}
				if ps.Ret[1].String() != R {
					bad = append(bad, "the players popped for the top-up are not the players returned")
				}
				if v, ok := ps.Ret[0].isConstInt(); !ok || v != 0 {
					bad = append(bad, "a top-up also asks for a release")
				}
				// what the table still requires after the top-up is the count asked for minus the players handed over
				cnt := req[0].Args[1].asAff()
				still := cnt.add(affTerm("len("+R+")"), -1)
				for _, e := range ps.storesTo("regulator.Table.Required") {
					if !e.Val.asAff().equal(still) {
						bad = append(bad, "after a top-up Required is set to "+e.Val.String()+", not to the count asked for minus the players handed over: later arrivals are assigned to a table that is already full")
					} else if !hasCond(ps, func(v *Val) bool { a, ok := ltForm(v); return ok && a.equal(still.scale(-1)) }) {
						bad = append(bad, "Required is overwritten after a top-up without the test that players are still missing")
					}
				}
			case hasLoop:
				kinds["release"]++
				if !isEmptyVal(ps.Ret[1]) {
					bad = append(bad, "a release also hands players")
				}
				if !strings.HasPrefix(ps.Ret[0].String(), "loopval:") {
					bad = append(bad, "the release count returned is "+ps.Ret[0].String()+", not the number picked")
				}
			default:
				kinds["balanced"]++
				if v, ok := ps.Ret[0].isConstInt(); !ok || v != 0 || !isEmptyVal(ps.Ret[1]) || len(tab) != 1 {
					bad = append(bad, "a balanced table is asked to move players")
				}
			}
		}
		if relLoop != nil {
			body, _ := s.LoopBody(relFn, relLoop)
			for _, bp := range body {
				if bp.End != "continue" {
					if len(bp.storesTo("regulator.Table.PlayerCount")) > 0 {
						bad = append(bad, "the table count changes on the iteration that stops the release")
					}
					continue
				}
				st := bp.storesTo("regulator.Table.PlayerCount")
				picked := false
				for k, v := range bp.Store {
					if strings.HasPrefix(k, "backedge:") && v.K == KAff && v.A.C == 1 && len(v.A.T) == 1 {
						// picked' = picked + 1 (the loop counter also steps by one; at least two such phis)
						picked = true
					}
				}
				if len(st) != 1 || !strings.HasSuffix(st[0].Val.asAff().String(), ".PlayerCount - 1") || !picked {
					bad = append(bad, "a picked player does not reduce the table's count by exactly one")
				}
			}
			// the value returned is the phi that steps by one with the table count
		} else {
			bad = append(bad, "no release loop")
		}
		for _, k := range []string{"break", "top-up", "release", "balanced"} {
			if kinds[k] == 0 {
				bad = append(bad, "no "+k+" path found")
			}
		}
		c.Sites += len(paths)
		c.check(len(bad) == 0, rule, fnKey(sync), p.FnPos(sync), fmt.Sprintf("counts move together on all paths (%v)", kinds), "sync miscounts", uniq(bad, 4)...)
	}
	// (c) breakTable
	if bt := ra.breaker; bt == nil {
		c.undecided(rule, "breakTable", "-", "not found")
	} else {
		c.touch(fnKey(bt))
		s := regSumm(p, 0)
		paths, _ := s.Function(bt)
		var bad []string
		n := 0
		for _, ps := range paths {
			del := ps.Calls("builtin.delete")
			cnt := ps.storesTo("regulator.regulator.tableCount")
			if len(del) == 0 && len(cnt) == 0 {
				if len(ps.Ret) == 1 {
					if _, ok := c.sentinelError(ps.Ret[0]); !ok {
						bad = append(bad, "nothing is broken and no error is returned")
					}
				}
				continue
			}
			n++
			if len(del) != 1 || len(cnt) != 1 || del[0].Args[1].String() != "param:"+bt.Params[1].Name() || cnt[0].Val.asAff().String() != "recv.tableCount - 1" {
				bad = append(bad, "deleting the table entry and decrementing the table count do not happen together")
			}
			if !hasCond(ps, func(v *Val) bool {
				return v.K == KAtom && v.At.Op == "b" && !v.Neg && strings.HasPrefix(v.At.L, "has(recv.tables")
			}) {
				bad = append(bad, "the table count is decremented without checking that the table exists")
			}
		}
		// a table sheet lives in the table map only: any other regulator field that can hold one
		// (a remembered "table being filled", a cache) must be written by the function that deletes
		// the entry, or it goes on naming a table that no longer exists
		if rt := namedType(p, regPkg, "regulator"); rt != nil {
			if st, ok := rt.Underlying().(*types.Struct); ok {
				for i := 0; i < st.NumFields(); i++ {
					f := st.Field(i)
					ts := f.Type().String()
					if !strings.Contains(ts, "regulator.Table") || strings.HasPrefix(ts, "map[string]") {
						continue
					}
					key := "regulator.regulator." + f.Name()
					if fi := p.Index().Info[bt]; fi == nil || !fi.TWrites[key] {
						bad = append(bad, "the field "+f.Name()+" ("+ts+") can keep a table's sheet and is not touched when the table is broken")
					}
				}
			}
		}
		c.check(len(bad) == 0 && n > 0, rule, fnKey(bt), p.FnPos(bt), "entry deleted and table count decremented together, only for an existing table; no other field keeps a sheet of the broken table", "breaking a table miscounts", uniq(bad, 3)...)
	}
	// (d) dispatchPlayer
	if dp := ra.dispatcher; dp == nil {
		c.undecided(rule, "dispatchPlayer", "-", "not found")
	} else {
		c.touch(fnKey(dp))
		s := regSumm(p, 0)
		s.HelperInline = ra.helperFilter(p, dp) // the cut of the list may live in a helper
		paths, _ := s.Function(dp)
		pl := "param:" + dp.Params[1].Name()
		var bad []string
		n := 0
		for _, ps := range paths {
			rq := ps.storesTo("regulator.Table.Required")
			pc := ps.storesTo("regulator.Table.PlayerCount")
			var assign *Event
			for _, e := range ps.Events {
				if e.Kind == "call" && strings.HasPrefix(e.Callee, "dynamic:") && len(e.Args) == 2 {
					assign = e
				}
			}
			if len(rq) == 0 && len(pc) == 0 {
				continue
			}
			n++
			if assign == nil {
				bad = append(bad, "table counters change without handing players to the assign callback")
				continue
			}
			X := assign.Args[1].String()
			if len(rq) == 0 || len(pc) == 0 {
				bad = append(bad, "players are handed out but Required and PlayerCount are not both updated")
				continue
			}
			base, _ := splitLoc(rq[0].Loc)
			if assign.Args[0].String() != base+".ID" {
				bad = append(bad, "players are assigned to "+assign.Args[0].String()+" but "+base+" is credited")
			}
			if len(rq) != 1 || !rq[0].Val.asAff().equal(affTerm(base+".Required").add(affTerm("len("+X+")"), -1)) {
				bad = append(bad, "Required is not reduced by the number of players handed out")
			}
			if len(pc) != 1 || !pc[0].Val.asAff().equal(affTerm(base+".PlayerCount").add(affTerm("len("+X+")"), 1)) {
				bad = append(bad, "PlayerCount is not increased by the number of players handed out")
			}
			// bounded by Required, remainder returned
			full := X == pl
			if full {
				if !hasCond(ps, func(v *Val) bool {
					return ltIs(v, "len("+pl+") - "+base+".Required - 1")
				}) {
					bad = append(bad, "all candidates are handed out without the test Required >= len(candidates)")
				}
				if !isEmptyVal(ps.Ret[0]) {
					bad = append(bad, "all candidates were handed out but a remainder is returned")
				}
			} else {
				if X != "slice("+pl+", _, "+base+".Required, _)" {
					bad = append(bad, "the slice handed out is "+X+", expected the first Required candidates")
				}
				if ps.Ret[0].String() != "slice("+pl+", "+base+".Required, _, _)" {
					bad = append(bad, "the remainder returned is "+ps.Ret[0].String()+", expected the candidates after the first Required")
				}
			}
		}
		c.check(len(bad) == 0 && n >= 2, rule, fnKey(dp), p.FnPos(dp), "len(picked) moves from Required to PlayerCount of the table the slice is assigned to; at most Required players are picked and the rest is returned", "dispatch miscounts or exceeds the table's requirement", uniq(bad, 4)...)
	}
	// (e) allocateTables
	if at := ra.opener; at == nil {
		c.undecided(rule, "allocateTables", "-", "not found")
	} else {
		c.touch(fnKey(at))
		s := regSumm(p, 0)
		s.HelperInline = ra.helperFilter(p, at) // sheet constructors, registration helpers, planning predicates
		var bad []string
		n := 0
		for _, l := range s.loops(at) {
			body, _ := s.LoopBody(at, l)
			for _, bp := range body {
				var req *Event
				for _, e := range bp.Events {
					if e.Kind == "call" && strings.HasPrefix(e.Callee, "dynamic:") && len(e.Args) == 1 {
						req = e
					}
				}
				if req == nil {
					if len(bp.storesTo("regulator.regulator.tableCount")) > 0 {
						bad = append(bad, "a table is counted without being requested")
					}
					continue
				}
				if bp.End != "continue" {
					continue // callback error: outside the property
				}
				n++
				P := req.Args[0].String()
				fromPop, whole := false, false
				for f := range ra.poppers {
					if strings.Contains(P, fnKey(f)+"(") {
						fromPop = true
					}
					for _, e := range callsTo(bp, f) {
						if e.Res != nil && e.Res.String() == P {
							whole = true
						}
					}
				}
				if !fromPop {
					bad = append(bad, "the players of a new table do not come from the waiting queue")
				} else if !whole {
					bad = append(bad, "the players taken from the waiting queue are not all handed to the new table: "+P)
				}
				pc := bp.storesTo("regulator.Table.PlayerCount")
				tc := bp.storesTo("regulator.regulator.tableCount")
				if len(pc) != 1 || pc[0].Val.asAff().String() != "len("+P+")" {
					bad = append(bad, "a new table's count is not the size of the slice handed to the request callback")
				}
				if len(tc) != 1 || tc[0].Val.asAff().String() != "recv.tableCount + 1" {
					bad = append(bad, "the table count does not grow by one per new table")
				}
				ins := false
				for _, e := range bp.Events {
					if e.Kind == "mapupdate" && strings.HasPrefix(e.Loc, "recv.tables[") {
						ins = true
					}
				}
				if !ins {
					bad = append(bad, "the new table is not entered into the table map")
				}
			}
		}
		c.check(len(bad) == 0 && n > 0, rule, fnKey(at), p.FnPos(at), "a new table is entered with the size of the slice handed out, counted once and inserted", "table allocation miscounts", uniq(bad, 3)...)
	}
}

// runRegQueue: writers of the waiting queue.
func runRegQueue(c *Ctx) {
	p := c.P
	ix := p.Index()
	// the undispatched remainder is stored back before anything else pops the queue: on a path of the
	// drainer that dispatches and then opens tables, the queue is written between the two (otherwise
	// the table opener pops players that were seated a moment ago)
	if ra := resolveRegAnchors(p); ra.drainer != nil && ra.opener != nil && ra.dispatcher != nil {
		s := regSumm(p, 0)
		paths, _ := s.Function(ra.drainer)
		var bad []string
		n := 0
		for _, ps := range paths {
			lastDispatch, firstOpen := -1, -1
			for i, e := range ps.Events {
				isDisp := e.Kind == "loop"
				if e.Kind == "call" && e.Fn != nil && e.Fn != ra.opener && (e.Fn == ra.dispatcher || (ix.Info[e.Fn] != nil && ix.Info[e.Fn].TCalls[ra.dispatcher])) {
					isDisp = true
				}
				if isDisp {
					lastDispatch = i
				}
				if e.Kind == "call" && e.Fn == ra.opener && lastDispatch >= 0 && firstOpen < 0 {
					firstOpen = i
				}
			}
			if lastDispatch < 0 || firstOpen < 0 {
				continue
			}
			n++
			stored := false
			for _, e := range ps.Events[lastDispatch+1 : firstOpen] {
				if e.Kind == "store" && e.FKey == "regulator.regulator.waitingQueue" {
					stored = true
				}
			}
			if !stored {
				bad = append(bad, "tables are opened after dispatching without the remainder having been stored back into the queue: ["+ps.CondString()+"]")
			}
		}
		c.check(len(bad) == 0 && n > 0, "queue-discipline", fnKey(ra.drainer)+"#remainder-before-open", p.FnPos(ra.drainer), "the remainder is stored back before tables are opened", "players just seated can be popped again for a new table", uniq(bad, 2)...)
	}
	ws := ix.Writers("regulator.regulator.waitingQueue")
	{
		// an accessor's store is examined in the functions that call it
		qh := queueHelpers(p)
		seen := map[*ssa.Function]bool{}
		var out []*ssa.Function
		var add func(f *ssa.Function, d int)
		add = func(f *ssa.Function, d int) {
			if !qh[f] {
				if !seen[f] {
					seen[f] = true
					out = append(out, f)
				}
				return
			}
			if d > 2 {
				return
			}
			for _, cl := range ix.Callers(f) {
				if cl.Pkg == f.Pkg {
					add(cl, d+1)
				}
			}
		}
		for _, w := range ws {
			add(w, 0)
		}
		sort.Slice(out, func(i, j int) bool { return fnKey(out[i]) < fnKey(out[j]) })
		ws = out
	}
	kinds := map[string]bool{}
	defer func() {
		c.floor("queue-discipline", "kinds of queue writers (append, pop, remainder)", len(kinds), 3)
	}()
	for _, w := range ws {
		c.touch(fnKey(w))
		s := regSumm(p, 0)
		fp, _ := s.Function(w)
		sets := [][]*PathSum{fp}
		for _, l := range s.loops(w) {
			bp, _ := s.LoopBody(w, l)
			sets = append(sets, bp)
		}
		var bad []string
		n := 0
		for _, set := range sets {
			for _, ps := range set {
				for _, e := range ps.storesTo("regulator.regulator.waitingQueue") {
					n++
					v := e.Val
					switch {
					case v.Op == "append" && len(v.Args) == 2 && v.Args[0].String() == "recv.waitingQueue" && strings.HasPrefix(v.Args[1].String(), "param:"):
						// incoming players appended
						kinds["append"] = true
					case v.String() == "slice(recv.waitingQueue, 1, _, _)":
						// pop-front: the head must be appended to the result on the same path
						kinds["pop"] = true
						head := false
						for k, bv := range ps.Store {
							if strings.HasPrefix(k, "backedge:") && bv.Op == "append" && len(bv.Args) == 2 && bv.Args[1].String() == "list(recv.waitingQueue[0])" {
								head = true
							}
						}
						if !head {
							bad = append(bad, "the queue's head is dropped without being handed out ("+e.Pos+")")
						}
					case strings.HasPrefix(v.String(), "slice(recv.waitingQueue, ") && strings.HasSuffix(v.String(), ", _, _)") && resolveRegAnchors(p).bulk[w]:
						// bulk pop: queue[n:] is kept and queue[:n] handed out, 0 <= n <= len(queue) on
						// every assignment of the path's condition
						kinds["pop"] = true
						nStr := strings.TrimSuffix(strings.TrimPrefix(v.String(), "slice(recv.waitingQueue, "), ", _, _)")
						if msg := bulkPopOK(ps, nStr); msg != "" {
							bad = append(bad, msg+" ("+e.Pos+")")
						}
					case strings.HasPrefix(v.String(), "loopval:") || func() bool {
						st, ok := e.Instr.(*ssa.Store)
						return ok && remainderOnly(st.Val, resolveRegAnchors(p).dispatcher, nil, 0)
					}():
						// the undispatched remainder: its sources must be dispatch remainders or the queue itself
						kinds["remainder"] = true
						if st, ok := e.Instr.(*ssa.Store); ok {
							if !remainderOnly(st.Val, resolveRegAnchors(p).dispatcher, nil, 0) {
								bad = append(bad, "the queue is replaced by a value that is neither the queue nor a dispatch remainder ("+e.Pos+")")
							}
						}
					default:
						bad = append(bad, "the queue is overwritten with "+v.String()+" ("+e.Pos+")")
					}
				}
			}
		}
		c.check(len(bad) == 0 && n > 0, "queue-discipline", fnKey(w), p.FnPos(w), "writes the queue only by appending incoming players, popping its head into the result, or storing the undispatched remainder", "players can be lost from or duplicated in the queue", uniq(bad, 3)...)
	}
}

// remainderOnly: every source of v is the waiting queue itself, the remainder returned by the
// dispatcher, or what a package-private helper returns from such sources (its parameters are read
// as the arguments of the call).
func remainderOnly(v ssa.Value, dispatcher *ssa.Function, bind map[*ssa.Parameter]ssa.Value, depth int) bool {
	if depth > 8 {
		return false
	}
	var leaves []ssa.Value
	retLeaves(v, map[ssa.Value]bool{}, &leaves)
	for _, lf := range leaves {
		if loadsField(lf, "regulator.regulator.waitingQueue") {
			continue
		}
		switch x := lf.(type) {
		case *ssa.Extract:
			if call, ok := x.Tuple.(*ssa.Call); ok && x.Index == 0 && call.Common().StaticCallee() != nil && call.Common().StaticCallee() == dispatcher {
				continue
			}
			return false
		case *ssa.Parameter:
			if a, ok := bind[x]; ok {
				if !remainderOnly(a, dispatcher, nil, depth+1) {
					return false
				}
				continue
			}
			// the parameter of a queue accessor: what every call site passes
			if h := x.Parent(); h != nil && dispatcher != nil && queueHelpers(progOf(dispatcher))[h] {
				ix := progOf(dispatcher).Index()
				n := 0
				for _, cl := range ix.Callers(h) {
					for _, site := range ix.CallSites(cl, h) {
						for i, fp := range h.Params {
							if fp == x && i < len(site.Common().Args) {
								n++
								if !remainderOnly(site.Common().Args[i], dispatcher, nil, depth+1) {
									return false
								}
							}
						}
					}
				}
				if n > 0 {
					continue
				}
			}
			return false
		case *ssa.Call:
			f := x.Call.StaticCallee()
			if f == nil || f.Pkg == nil || shortPkg(f.Pkg.Pkg.Path()) != regPkg || f.Blocks == nil {
				return false
			}
			b2 := map[*ssa.Parameter]ssa.Value{}
			for i, prm := range f.Params {
				if i < len(x.Call.Args) {
					b2[prm] = x.Call.Args[i]
				}
			}
			for _, b := range f.Blocks {
				if r, ok := b.Instrs[len(b.Instrs)-1].(*ssa.Return); ok && len(r.Results) >= 1 {
					if !remainderOnly(r.Results[0], dispatcher, b2, depth+1) {
						return false
					}
				}
			}
		default:
			return false
		}
	}
	return true
}

// progOf finds the loaded program a function belongs to (there is one per process).
func progOf(fn *ssa.Function) *Prog {
	for p := range queueHelpersOf {
		return p
	}
	return nil
}

// bulkPopOK: on path ps the queue becomes queue[n:]; the path must hand out exactly queue[:n]
// (possibly copied) and its condition must imply 0 <= n <= len(queue) (grid).
func bulkPopOK(ps *PathSum, n string) string {
	if len(ps.Ret) != 1 {
		return "a bulk pop does not return the players it removed"
	}
	r := ps.Ret[0].String()
	want := "slice(recv.waitingQueue, _, " + n + ", _)"
	okRet := r == want
	if strings.HasPrefix(r, "append(") && strings.HasSuffix(r, ", "+want+")") {
		// a copy onto a fresh, empty base: list() or makeslice(0[, cap])
		base := strings.TrimSuffix(strings.TrimPrefix(r, "append("), ", "+want+")")
		if base == "list()" || base == "makeslice" || strings.HasPrefix(base, "makeslice(0") {
			okRet = true
		}
	}
	if !okRet {
		return "the players handed out are " + r + ", not the first " + n + " of the queue"
	}
	nv := ps.Ret[0]
	_ = nv
	ints, bools := tableVars([]*PathSum{ps})
	has := func(t string) bool {
		for _, x := range ints {
			if x == t {
				return true
			}
		}
		return false
	}
	qlen := "len(recv.waitingQueue)"
	if !has(qlen) {
		ints = append(ints, qlen)
	}
	// n as an affine expression over the grid terms
	var nAff *Aff
	if k, err := strconv.ParseInt(n, 10, 64); err == nil {
		nAff = affConst(k)
	} else {
		nAff = affTerm(n)
		if !has(n) {
			ints = append(ints, n)
		}
	}
	msg := ""
	enumGridR(ints, func(name string) (int64, int64) {
		if name == qlen {
			return 0, 4
		}
		return -2, 5
	}, bools, nil, func(a Asg) bool {
		holds, ok := evalPath(ps, a)
		if !ok || !holds {
			return true
		}
		v, ok := evalAff(nAff, a)
		if !ok {
			msg = "the number of players cut off is not a closed form"
			return false
		}
		if v < 0 || v > a.I[qlen] {
			msg = fmt.Sprintf("%d players are cut off a queue of %d", v, a.I[qlen])
			return false
		}
		return true
	})
	return msg
}
