package main

import (
	"fmt"
	"strings"

	"golang.org/x/tools/go/ssa"
)

// C04/opening-seat: where a betting round opens. The engine offers the first action to the seat
// AFTER Status.CurrentPlayer (the action requester advances through the seat successor before it
// offers), so the function that emits RoundStarted has to park the current seat
//
//	on later streets: on the dealer;
//	before the flop:  on the big blind, found by walking the seat successor clockwise from the
//	                  dealer (with two players that walk finds the big blind at once and the
//	                  dealer, who is the small blind, acts first).
//
// What is decided is the shape of that walk: it starts at the dealer, every candidate is the seat
// successor's result, the current seat follows the candidate on a miss, the hit test is the "bb"
// position of the candidate, the hit makes the candidate current, and the walk is long enough to go
// once round the table. Which seat the successor is, is C04/seat-successor.
func runC04OpeningSeat(c *Ctx, ea *engineAnchors, eg *EventGraph) {
	p := c.P
	const rule = "opening-seat"
	succ := p.Func("pokerface", ea.gameImpl, "NextPlayer")
	setcur := p.Func("pokerface", ea.gameImpl, "SetCurrentPlayer")
	dealer := p.Func("pokerface", ea.gameImpl, "Dealer")
	if succ == nil || setcur == nil || dealer == nil {
		c.undecided(rule, "anchors", "-", "NextPlayer / SetCurrentPlayer / Dealer not found on the engine")
		return
	}
	isRes := func(v *Val, fn *ssa.Function) bool { return v != nil && strings.HasPrefix(v.String(), fnKey(fn)+"(") }
	emitsStarted := func(ps *PathSum) int {
		for i, e := range ps.Events {
			if nm, ok := eg.emitName(e); ok && nm == "GameEvent_RoundStarted" {
				return i
			}
		}
		return -1
	}
	// functions that park the current seat on the dealer and do nothing else with it (StartAtDealer)
	parksOnDealer := map[*ssa.Function]bool{}
	for _, fn := range p.MethodsOf("pokerface", ea.gameImpl) {
		if fn == setcur || fn.Blocks == nil {
			continue
		}
		s := eg.summ(0)
		paths, cut := s.Function(fn)
		if cut != "" || len(s.loops(fn)) > 0 || len(paths) == 0 || len(paths) > 6 {
			continue
		}
		ok, n := true, 0
		for _, ps := range paths {
			sets := callsTo(ps, setcur)
			errRet := len(ps.Ret) > 0 && ps.Ret[len(ps.Ret)-1].String() != "nil" && len(sets) == 0
			if errRet {
				continue
			}
			if len(sets) != 1 || !isRes(sets[0].Args[1], dealer) {
				ok = false
				continue
			}
			n++
		}
		if ok && n > 0 {
			parksOnDealer[fn] = true
		}
	}

	nStarters := 0
	for _, fn := range p.MethodsOf("pokerface", ea.gameImpl) {
		if fn.Blocks == nil || !eg.MayEmit[fn] {
			continue
		}
		s := eg.summ(0)
		owner := fn
		s.HelperInline = func(f *ssa.Function) bool { return privateHelper(owner, f) && !eg.MayEmit[f] }
		paths, _ := s.Function(fn)
		var starting []*PathSum
		for _, ps := range paths {
			if emitsStarted(ps) >= 0 {
				starting = append(starting, ps)
			}
		}
		if len(starting) == 0 {
			continue
		}
		nStarters++
		c.touch(fnKey(fn))
		var bad []string
		nPre, nPost := 0, 0
		for _, ps := range starting {
			em := emitsStarted(ps)
			pre := hasCond(ps, func(v *Val) bool {
				return v.K == KAtom && v.At.Op == "is" && !v.Neg && strings.Contains(v.At.String(), `"preflop"`)
			})
			notPre := hasCond(ps, func(v *Val) bool {
				return v.K == KAtom && v.At.Op == "is" && v.Neg && strings.Contains(v.At.String(), `"preflop"`)
			})
			switch {
			case notPre:
				nPost++
				// the last thing that moves the current seat before the emit parks it on the dealer
				var last *Event
				for _, e := range ps.Events[:em] {
					if e.Kind == "call" && (e.Fn == setcur || parksOnDealer[e.Fn]) {
						last = e
					}
				}
				if last == nil {
					bad = append(bad, "on a later street the current seat is not parked before the round starts")
				} else if last.Fn == setcur && !isRes(last.Args[1], dealer) {
					bad = append(bad, "on a later street the round opens from "+last.Args[1].String()+", not from the dealer")
				}
			case pre:
				nPre++
				li := -1
				for i, e := range ps.Events[:em] {
					if e.Kind == "loop" {
						if li >= 0 {
							bad = append(bad, "more than one loop before the preflop round starts")
						}
						li = i
					}
				}
				if li < 0 {
					bad = append(bad, "before the flop the big blind is not searched by a walk")
					continue
				}
				// start of the walk
				var start *Event
				for _, e := range ps.Events[:li] {
					if e.Kind == "call" && (e.Fn == setcur || parksOnDealer[e.Fn]) {
						start = e
					}
				}
				if start == nil || (start.Fn == setcur && !isRes(start.Args[1], dealer)) {
					bad = append(bad, "the preflop walk does not start at the dealer")
				}
				loop := ps.Events[li].Loop
				ci := analyseCounting(loop)
				long := false
				if ci.OK && ci.Step == 1 {
					if c0, ok := constInt(ci.Init); ok && (c0 <= 0 || (c0 == 1 && ci.Op == "<=") || (c0 == 1 && ci.Op == "<")) {
						// bound: the number of players
						if call, ok := ci.Bound.(*ssa.Call); ok {
							if f := call.Call.StaticCallee(); f != nil && f.Name() == "GetPlayerCount" {
								long = true
							}
							if b, ok := call.Call.Value.(*ssa.Builtin); ok && b.Name() == "len" && loadsField(call.Call.Args[0], "pokerface.GameState.Players") {
								long = true
							}
						}
					}
				}
				if !long {
					bad = append(bad, "the preflop walk is not bounded by the number of players from the start (it may stop before it has gone round the table)")
				}
				body, _ := s.LoopBody(ps.Events[li].InFn, loop)
				hitExit := ""
				for _, bp := range body {
					var cand *Event
					for _, e := range bp.Events {
						if e.Kind == "call" && e.Fn == succ && cand == nil {
							cand = e
						}
					}
					bbPos := hasCond(bp, func(v *Val) bool {
						return v.K == KAtom && v.At.Op == "b" && !v.Neg && strings.Contains(v.At.L, ".CheckPosition("+fnKey(succ)+"(") && strings.Contains(v.At.L, `"bb"`)
					})
					bbNeg := hasCond(bp, func(v *Val) bool {
						return v.K == KAtom && v.At.Op == "b" && v.Neg && strings.Contains(v.At.L, ".CheckPosition("+fnKey(succ)+"(") && strings.Contains(v.At.L, `"bb"`)
					})
					sets := callsTo(bp, setcur)
					switch {
					case bp.End == "continue":
						if cand == nil || !bbNeg {
							bad = append(bad, "a step of the preflop walk does not take the seat successor as its candidate and test it for the big blind")
						} else if len(sets) != 1 || !isRes(sets[0].Args[1], succ) {
							bad = append(bad, "on a miss the current seat does not follow the candidate")
						}
					case strings.HasPrefix(bp.End, "exit:"):
						if bbPos {
							hitExit = strings.TrimPrefix(bp.End, "exit:")
							for _, e := range sets {
								if !isRes(e.Args[1], succ) {
									bad = append(bad, "on the hit the current seat is set to "+e.Args[1].String())
								}
							}
						} else if cand != nil {
							bad = append(bad, "the preflop walk is left on something other than the big-blind hit")
						}
					}
				}
				if hitExit == "" {
					bad = append(bad, "the preflop walk has no exit on the candidate holding the big blind")
				} else if hasCond(ps, func(v *Val) bool {
					return v.K == KAtom && v.At.Op == "b" && strings.HasSuffix(v.At.L, "exit→"+hitExit)
				}) {
					// after the hit the candidate is made current (inside the loop's exit block or right after)
					var first *Event
					for _, e := range ps.Events[li+1 : em] {
						if e.Kind == "call" && (e.Fn == setcur || parksOnDealer[e.Fn]) && first == nil {
							first = e
						}
					}
					inBody := false
					for _, bp := range body {
						if bp.End == "exit:"+hitExit && len(callsTo(bp, setcur)) > 0 {
							inBody = true
						}
					}
					if first == nil && !inBody {
						bad = append(bad, "the big blind found by the walk is not made the current seat")
					} else if first != nil && (first.Fn != setcur || !isRes(first.Args[1], succ)) {
						bad = append(bad, "after the hit the current seat is set to "+first.Args[1].String()+", not to the candidate")
					}
				}
			}
		}
		c.check(len(bad) == 0 && nPre >= 1 && nPost >= 1, rule, fnKey(fn), p.FnPos(fn), fmt.Sprintf("later streets open from the dealer (%d paths); before the flop the current seat walks the seat successor from the dealer to the big blind (%d paths)", nPost, nPre), "the betting round opens at the wrong seat", uniq(bad, 4)...)
	}
	c.floor(rule, "functions that emit RoundStarted", nStarters, 1)

	// the requester offers the seat AFTER the current one
	var bad []string
	nOffer := 0
	if h := eg.Handler["GameEvent_RoundStarted"]; h != nil {
		seen := map[*ssa.Function]bool{}
		var visit func(fn *ssa.Function, depth int)
		visit = func(fn *ssa.Function, depth int) {
			if fn == nil || seen[fn] || depth > 3 {
				return
			}
			seen[fn] = true
			c.touch(fnKey(fn))
			s := eg.summ(0)
			paths, _ := s.Function(fn)
			for _, ps := range paths {
				for _, e := range ps.Events {
					if e.Kind != "call" || e.Fn == nil {
						continue
					}
					switch {
					case e.Fn == setcur:
						nOffer++
						if !isRes(e.Args[1], succ) {
							bad = append(bad, "the seat offered when the round starts is "+e.Args[1].String()+", not the successor of the parked seat")
						}
					case e.Fn != eg.Emit && eg.MayEmit[e.Fn]:
						visit(e.Fn, depth+1)
					}
				}
			}
		}
		visit(h, 0)
		c.check(len(bad) == 0 && nOffer > 0, rule, "handler:GameEvent_RoundStarted", p.FnPos(h), "the first offer goes to the seat successor of the parked seat", "the first offer does not go to the seat after the parked one", uniq(bad, 2)...)
	} else {
		c.undecided(rule, "handler:GameEvent_RoundStarted", "-", "no handler")
	}
}
