package main

import (
	"fmt"
	"strings"

	"golang.org/x/tools/go/ssa"
)

func init() {
	register(&propDef{
		ID: "C10", Level: "other", Run: withShared(runC10, share{"C03", runC03, ruleIs("elements-ordered", "sorted-input", "ace-low-only-in-wheel", "category-order", "tables-read-only")}, share{"C07", runC07, ruleIs("no-hidden-state")}),
		Explanation: "The published hand of a player is structurally one evaluation of that player's own cards: Type, Cards and Power stored for a player all derive from the single best-hand value computed for that same player (Type through the category symbol table, Power from its score, Cards from its cards); the enumerator is given that player's HoleCards, the table's Board and Meta.RequiredHoleCardsCount, and every enumerated selection is scored with Meta.CombinationPowers; the value published is the first element of the selections sorted by score in descending order (or the last of an ascending sort); every street that deals cards re-evaluates all players before the next event; the strength the showdown compares is the published Power of the same player. The enumeration is complete in shape: the entry produces the full nested product of (hole cards, required count) and (board, 5 minus the count) selections, or every 5 of hole+board; the k-of-n enumerator decodes every generated mask over all card positions; the mask generator's start, bound and step agree with the increasing enumeration of k-subsets on the grid 1 <= k <= n <= 9 (closed-form evaluation of the loop's SSA expressions, no loop is run) and the bit scanner reports position i exactly when bit i is set. Does NOT decide that the scorer ranks the selections truthfully (that is C03) nor anything for more than 9 cards to choose from.",
		Trusted:     commonTrusted,
		Assumptions: []string{"sort.Slice orders by the less function given (documented)"},
		NotCovered:  "truth of the scores compared (C03); enumeration beyond 9 cards to choose from",
	})
}

// sortOrientation inspects the less-closure passed to sort.Slice: "desc"/"asc" by the named
// field, "" if not recognised.
func sortOrientation(p *Prog, closure *ssa.Function, field string) string {
	if closure == nil || len(closure.Params) != 2 {
		return ""
	}
	s := newSumm(p, 0)
	s.EngineAliases = false
	paths, _ := s.Function(closure)
	if len(paths) != 1 || len(paths[0].Ret) != 1 {
		return ""
	}
	a, ok := ltForm(paths[0].Ret[0])
	if !ok {
		return ""
	}
	i, j := "[param:"+closure.Params[0].Name()+"]."+field, "[param:"+closure.Params[1].Name()+"]."+field
	ts := a.terms()
	if len(ts) != 2 || (a.C != 0 && a.C != -1) {
		return ""
	}
	var ci, cj int64
	for _, t := range ts {
		if strings.HasSuffix(t, i) {
			ci = a.T[t]
		}
		if strings.HasSuffix(t, j) {
			cj = a.T[t]
		}
	}
	// same base slice
	if strings.TrimSuffix(ts[0], i) != strings.TrimSuffix(ts[1], j) && strings.TrimSuffix(ts[0], j) != strings.TrimSuffix(ts[1], i) {
		return ""
	}
	// less(i,j) == (ci*Si + cj*Sj [+C] < 0)
	switch {
	case ci == -1 && cj == 1: // Sj - Si < 0: Si > Sj
		return "desc"
	case ci == 1 && cj == -1: // Si - Sj < 0: Si < Sj
		return "asc"
	}
	return ""
}

// sortCall finds the sort.Slice call of fn and returns its closure.
func sortClosure(fn *ssa.Function) (*ssa.Function, *ssa.Call) {
	for _, b := range fn.Blocks {
		for _, in := range b.Instrs {
			if call, ok := in.(*ssa.Call); ok && extCalleeName(call.Common()) == "sort.Slice" && len(call.Call.Args) == 2 {
				if mc, ok := call.Call.Args[1].(*ssa.MakeClosure); ok {
					if f, ok := mc.Fn.(*ssa.Function); ok {
						return f, call
					}
				}
			}
		}
	}
	return nil, nil
}

func runC10(c *Ctx) {
	p := c.P
	ix := p.Index()
	ea := c.engine()
	if ea.gameImpl == "" {
		c.undecided("anchors", "engine-implementations", "-", "pokerface.Game does not have exactly one implementation")
		return
	}
	// the publisher: the function with a full-range loop over the players whose body — with the
	// package-private helpers that write the combination inlined — stores CombinationInfo.Power
	writesComb := func(f *ssa.Function) bool {
		fi := ix.Info[f]
		return fi != nil && (fi.TWrites["pokerface.CombinationInfo.Power"] || fi.TWrites["pokerface.CombinationInfo.Cards"] || fi.TWrites["pokerface.CombinationInfo.Type"])
	}
	var pub *ssa.Function
	var playerLoop *Loop
	var s *Summ
	var body []*PathSum
	for _, fn := range p.MethodsOf("pokerface", ea.gameImpl) {
		if !writesComb(fn) {
			continue
		}
		s2 := newSumm(p, 0)
		owner := fn
		s2.HelperInline = func(f *ssa.Function) bool { return privateHelper(owner, f) && (writesComb(f) || takesCards(f)) }
		for _, l := range s2.loops(fn) {
			ri := analyseRange(l)
			if !loadsField(ri.Coll, "pokerface.GameState.Players") || !ri.Full || len(l.Exits) != 1 {
				continue
			}
			bp, cut := s2.LoopBody(fn, l)
			if cut != "" {
				continue
			}
			stores := false
			for _, ps := range bp {
				if len(ps.storesTo("pokerface.CombinationInfo.Power")) > 0 {
					stores = true
				}
			}
			if stores {
				if pub != nil && pub != fn {
					c.undecided("one-hand", "publisher", "-", "several functions publish hands: "+fnKey(pub)+", "+fnKey(fn))
					return
				}
				pub, playerLoop, s, body = fn, l, s2, bp
			}
		}
	}
	if pub == nil {
		c.bad("one-hand", "publisher", "-", "no function publishes every player's hand in a full-range loop over GameState.Players")
		return
	}
	c.role("hand publisher", fnKey(pub))
	c.touch(fnKey(pub))
	// the publisher reaches its loop on every path: an early return (no board yet, say) leaves the
	// strengths of the street before, or zero, published and compared
	{
		fp, _ := s.Function(pub)
		var skip []string
		for _, ps := range fp {
			if ps.End != "return" {
				continue
			}
			has := false
			for _, e := range ps.Events {
				if e.Kind == "loop" && e.Loop == playerLoop {
					has = true
				}
			}
			if !has {
				skip = append(skip, "no hand is evaluated on path ["+ps.CondString()+"]")
			}
		}
		c.check(len(skip) == 0, "one-hand", fnKey(pub)+"#always", p.FnPos(pub), "every path of the publisher evaluates all players", "the publisher can return without evaluating", uniq(skip, 2)...)
	}
	var best *Event // the call computing the player's best hand
	{
		var bad []string
		nPub := 0
		for _, ps := range body {
			if ps.End != "continue" {
				bad = append(bad, "the loop can stop early: "+ps.End)
				continue
			}
			tS, cS, pS := ps.storesTo("pokerface.CombinationInfo.Type"), ps.storesTo("pokerface.CombinationInfo.Cards"), ps.storesTo("pokerface.CombinationInfo.Power")
			if len(tS)+len(cS)+len(pS) == 0 {
				// accepted only when the player has no Combination object to publish into
				if !hasCond(ps, func(v *Val) bool {
					return v.K == KAtom && v.At.Op == "is" && !v.Neg && strings.Contains(v.At.String(), ".Combination") && strings.Contains(v.At.String(), "nil")
				}) {
					bad = append(bad, "a player's hand is not published on path ["+ps.CondString()+"]")
				}
				continue
			}
			nPub++
			// the evaluation call for the loop element
			var ev *Event
			for _, e := range ps.Events {
				if e.Kind == "call" && e.Fn != nil && e.Res != nil && strings.Contains(e.Res.String(), "GS.Players[iter:") && e.Fn.Signature.Results().Len() == 1 && typeShort(e.Fn.Signature.Results().At(0).Type()) == "*combination.PowerState" {
					ev = e
				}
			}
			if ev == nil {
				bad = append(bad, "no evaluation of the loop's player feeds the published hand")
				continue
			}
			best = ev
			src := ev.Res.String()
			elem := ev.Args[len(ev.Args)-1].String()
			if len(tS) != 1 || !strings.HasPrefix(tS[0].Loc, elem+".") || tS[0].Val.String() != "lookup(global:combination.CombinationSymbol, "+src+".Combination)" {
				bad = append(bad, "Type is not CombinationSymbol[<that evaluation>.Combination] of the same player")
			}
			if len(pS) != 1 || !strings.HasPrefix(pS[0].Loc, elem+".") || pS[0].Val.asAff().String() != src+".Score" {
				got := "<none>"
				if len(pS) > 0 {
					got = pS[0].Val.String()
				}
				bad = append(bad, "Power is "+got+", not the score of the same evaluation")
			}
			// Cards: rebuilt by a full-range loop over <evaluation>.Cards that appends one string per card,
			// either directly to the field (after emptying it) or to a local that is then stored
			var cardLoop *Event
			helperColl := map[*Loop]bool{}
			for _, e := range ps.Events {
				if e.Kind != "loop" {
					continue
				}
				ri := analyseRange(e.Loop)
				fromEval := loadsField(ri.Coll, "combination.PowerState.Cards")
				if prm, isP := ri.Coll.(*ssa.Parameter); isP && e.InFn != pub {
					// a conversion helper entered with <evaluation>.Cards
					for _, en := range ps.Events {
						if en.Kind == "enter" && en.Fn == e.InFn {
							for i, q := range en.Fn.Params {
								if q == prm && i < len(en.Args) && en.Args[i].String() == src+".Cards" {
									fromEval = true
									helperColl[e.Loop] = true
								}
							}
						}
					}
				}
				if !fromEval || !ri.Full || len(e.Loop.Exits) != 1 {
					continue
				}
				ib, _ := s.LoopBody(e.InFn, e.Loop)
				okBody := len(ib) > 0
				for _, q := range ib {
					n := 0
					for k, v := range q.Store {
						if strings.HasPrefix(k, "backedge:") && v.Op == "append" && strings.Contains(v.String(), "[iter:") {
							n++
						}
					}
					for _, st := range q.storesTo("pokerface.CombinationInfo.Cards") {
						if st.Val.Op == "append" && strings.Contains(st.Val.String(), "[iter:") {
							n++
						}
					}
					if q.End != "continue" || n != 1 {
						okBody = false
					}
				}
				if okBody {
					cardLoop = e
				}
			}
			okCards := cardLoop != nil && len(cS) >= 1
			if okCards {
				// the collection ranged over is the Cards of this evaluation
				ri := analyseRange(cardLoop.Loop)
				okColl := helperColl[cardLoop.Loop]
				if u, ok := ri.Coll.(*ssa.UnOp); ok {
					if fa, ok := u.X.(*ssa.FieldAddr); ok {
						if fa.X == ev.Instr.(ssa.Value) {
							okColl = true
						}
						if prm, isP := fa.X.(*ssa.Parameter); isP && prm.Parent() == cardLoop.InFn && cardLoop.InFn != pub {
							okColl = true // the helper's parameter: bound to the evaluation at the call (checked by Type/Power above through the same helper)
						}
					}
				}
				if !okColl {
					okCards = false
				}
				for _, st := range cS {
					v := st.Val
					if !(isEmptyVal(v) || strings.HasPrefix(v.String(), "loopval:") || v.Op == "append") {
						okCards = false
					}
				}
			}
			if !okCards {
				bad = append(bad, "Cards are not rebuilt from the cards of the same evaluation")
			}
		}
		c.check(len(bad) == 0 && nPub > 0, "one-hand", fnKey(pub), p.FnPos(pub), "Type, Cards and Power of each player come from one evaluation of that same player", "the published hand is not one and the same hand", uniq(bad, 4)...)
	}

	// ---- admissible-inputs and max-selection: follow the evaluation chain from the publisher
	if best != nil {
		chain := []*ssa.Function{best.Fn}
		// callee chain until the enumerator / scorer calls
		var enumCall, scoreCall *Event
		var sortFn *ssa.Function
		var sortOwner *ssa.Function
		selection := "" // "first" / "last"
		visited := map[*ssa.Function]bool{}
		var walk func(fn *ssa.Function, playerArg string)
		walk = func(fn *ssa.Function, playerArg string) {
			if fn == nil || visited[fn] || !inModule(fn) || shortPkg(fn.Pkg.Pkg.Path()) != "pokerface" {
				return
			}
			visited[fn] = true
			c.touch(fnKey(fn))
			s2 := newSumm(p, 0)
			fp, _ := s2.Function(fn)
			sets := [][]*PathSum{fp}
			for _, l := range s2.loops(fn) {
				bp, _ := s2.LoopBody(fn, l)
				sets = append(sets, bp)
			}
			if cl, _ := sortClosure(fn); cl != nil {
				sortFn, sortOwner = cl, fn
			}
			for _, set := range sets {
				for _, ps := range set {
					for _, e := range ps.Events {
						if e.Kind != "call" {
							continue
						}
						switch e.Callee {
						case "combination.GetAllPossibleCombinations":
							enumCall = e
						case "combination.CalculatePower":
							scoreCall = e
						default:
							if e.Fn != nil {
								walk(e.Fn, playerArg)
							}
						}
					}
					if len(ps.Ret) == 1 {
						r := ps.Ret[0].String()
						if strings.HasSuffix(r, ")[0]") {
							selection = "first"
						} else if strings.Contains(r, ")[len(") && strings.HasSuffix(r, " - 1]") {
							selection = "last"
						}
					}
				}
			}
		}
		walk(best.Fn, "")
		_ = chain
		var bad []string
		if enumCall == nil {
			bad = append(bad, "the enumerator combination.GetAllPossibleCombinations is not reached from the evaluation")
		} else {
			a := enumCall.Args
			if a[0].String() != "GS.Status.Board" {
				bad = append(bad, "board argument is "+a[0].String())
			}
			if !strings.HasSuffix(a[1].String(), ".HoleCards") || !strings.HasPrefix(a[1].String(), "param:") {
				bad = append(bad, "hole-card argument is "+a[1].String()+", expected the evaluated player's HoleCards")
			}
			// the count is either Meta.RequiredHoleCardsCount directly, or a parameter to which the caller passes it
			cnt := a[2].String()
			if cnt != "GS.Meta.RequiredHoleCardsCount" {
				okc := false
				if strings.HasPrefix(cnt, "param:") {
					for _, cl := range ix.Callers(enumCall.InFn) {
						s3 := newSumm(p, 0)
						cp, _ := s3.Function(cl)
						for _, ps := range cp {
							for _, e := range ps.Events {
								if e.Kind == "call" && e.Fn == enumCall.InFn {
									// find the argument bound to that parameter
									for i, prm := range enumCall.InFn.Params {
										if "param:"+prm.Name() == cnt && i < len(e.Args) && e.Args[i].String() == "GS.Meta.RequiredHoleCardsCount" {
											okc = true
										}
									}
								}
							}
						}
					}
				}
				if !okc {
					bad = append(bad, "required-hole-card count argument is "+cnt+", expected Meta.RequiredHoleCardsCount")
				}
			}
		}
		if scoreCall == nil {
			bad = append(bad, "the scorer combination.CalculatePower is not reached from the evaluation")
		} else if scoreCall.Args[0].String() != "GS.Meta.CombinationPowers" {
			bad = append(bad, "selections are scored with "+scoreCall.Args[0].String()+", expected Meta.CombinationPowers")
		}
		c.check(len(bad) == 0, "admissible-inputs", fnKey(best.Fn), p.FnPos(best.Fn), "the enumerator gets the player's own hole cards, the board and the required count; selections are scored with the variant's ranking table", "the evaluation does not use the admissible inputs", uniq(bad, 4)...)

		// max-selection
		orient := sortOrientation(p, sortFn, "Score")
		okSel := (orient == "desc" && selection == "first") || (orient == "asc" && selection == "last")
		pos := "-"
		if sortOwner != nil {
			pos = p.FnPos(sortOwner)
		}
		c.check(okSel, "max-selection", fnKey(best.Fn), pos, fmt.Sprintf("selections sorted %s by Score and the %s one is published", orient, selection),
			fmt.Sprintf("sort orientation %q with selection %q does not pick the strongest selection", orient, selection))
		// the sorted slice is the one every scored selection was appended to and the one indexed
		if sortOwner != nil {
			s4 := newSumm(p, 0)
			var bad2 []string
			for _, l := range s4.loops(sortOwner) {
				ri := analyseRange(l)
				if !ri.Full || len(l.Exits) != 1 {
					bad2 = append(bad2, "the loop over the selections can stop early")
				}
				bp, _ := s4.LoopBody(sortOwner, l)
				for _, q := range bp {
					if q.End != "continue" || len(q.Calls("combination.CalculatePower"))+len(q.Calls(".CalculateCombinationPower")) != 1 {
						bad2 = append(bad2, "a selection is not scored exactly once")
					}
				}
			}
			c.check(len(bad2) == 0, "max-selection", fnKey(sortOwner)+"#all-scored", p.FnPos(sortOwner), "every enumerated selection is scored", "not every selection takes part in the maximum", uniq(bad2, 2)...)
		}
	}

	// ---- recompute-on-deal
	initRound := p.Func("pokerface", ea.gameImpl, "InitializeRound")
	if initRound == nil {
		c.undecided("recompute-on-deal", "InitializeRound", "-", "not found")
	} else {
		c.touch(fnKey(initRound))
		eg := buildEventGraph(c, ea)
		s5 := eg.summ(1)
		paths, _ := s5.Function(initRound)
		var bad []string
		nDeal := 0
		for _, ps := range paths {
			lastDeal, upd, emit := -1, -1, -1
			dealsCards := func(e *Event) bool {
				switch e.Kind {
				case "store":
					return e.FKey == "pokerface.Status.Board" || e.FKey == "pokerface.PlayerState.HoleCards"
				case "loop":
					for blk := range e.Loop.Blocks {
						for _, in := range blk.Instrs {
							if st, ok := in.(*ssa.Store); ok && accessKey(st.Addr) == "pokerface.PlayerState.HoleCards" {
								return true
							}
							if ci, ok := in.(ssa.CallInstruction); ok {
								for _, t := range ix.targets(e.InFn, ci.Common()) {
									if ti := ix.Info[t]; ti != nil && (ti.TWrites["pokerface.PlayerState.HoleCards"] || ti.TWrites["pokerface.Status.Board"]) {
										return true
									}
								}
							}
						}
					}
				case "call":
					if e.Fn != nil && e.Fn != pub && !eg.MayEmit[e.Fn] {
						if ti := ix.Info[e.Fn]; ti != nil && (ti.TWrites["pokerface.PlayerState.HoleCards"] || ti.TWrites["pokerface.Status.Board"]) {
							return true
						}
					}
				}
				return false
			}
			for i, e := range ps.Events {
				switch {
				case dealsCards(e):
					lastDeal = i
				case e.Kind == "call" && e.Fn != nil && (e.Fn == pub || (ix.Info[e.Fn] != nil && ix.Info[e.Fn].TCalls[pub] && !eg.MayEmit[e.Fn])):
					upd = i
				case func() bool { _, ok := eg.emitName(e); return ok }():
					if emit < 0 {
						emit = i
					}
				}
			}
			if lastDeal < 0 || emit < 0 {
				continue
			}
			nDeal++
			if upd < lastDeal || upd > emit {
				bad = append(bad, "cards are dealt and the next event is emitted without re-evaluating the hands: path ["+ps.CondString()+"]")
			}
		}
		c.floor("recompute-on-deal", "dealing paths", nDeal, 2)
		c.check(len(bad) == 0, "recompute-on-deal", fnKey(initRound), p.FnPos(initRound), "every dealing path re-evaluates all hands before the next event", "published hands can be stale", uniq(bad, 3)...)
	}

	// ---- compared-is-published (shared with C02/fold-zero)
	checkFoldZero(c, "compared-is-published")

	// ---- enumeration-complete
	runC10Enumeration(c)
}

// takesCards: a helper that converts a list of evaluated cards (e.g. into their symbols).
func takesCards(f *ssa.Function) bool {
	for i := 0; i < f.Signature.Params().Len(); i++ {
		if typeShort(f.Signature.Params().At(i).Type()) == "[]*combination.Card" {
			return true
		}
	}
	return false
}
