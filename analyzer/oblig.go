package main

import (
	"bufio"
	"crypto/sha1"
	"encoding/hex"
	"encoding/json"
	"fmt"
	"os"
	"path/filepath"
	"sort"
	"strings"
)

type Status string

const (
	Discharged Status = "discharged"
	Violated   Status = "violated"
	Undecided  Status = "undecided"
)

// Obligation is one rule instance. Key is <property>/<rule>/<construct>, where construct is
// a resolved symbol path, never a line number.
type Obligation struct {
	Key     string   `json:"key"`
	Rule    string   `json:"rule"`
	Status  Status   `json:"status"`
	Pos     string   `json:"pos"`
	Reason  string   `json:"reason"`
	Detail  []string `json:"detail,omitempty"`
	Known   bool     `json:"known_finding,omitempty"`
	nontriv bool
}

// Ctx collects the obligations of one property run.
type Ctx struct {
	P        *Prog
	Prop     string
	Tier     string
	Obs      []*Obligation
	Analysed map[string]bool // functions inspected
	Sites    int             // call sites / instructions inspected
	Floors   []string
	Notes    []string
	Resolved map[string]string // role -> resolved symbol
}

func newCtx(p *Prog, prop, tier string) *Ctx {
	return &Ctx{P: p, Prop: prop, Tier: tier, Analysed: map[string]bool{}, Resolved: map[string]string{}}
}

func (c *Ctx) key(rule, construct string) string {
	return c.Prop + "/" + rule + "/" + construct
}

func (c *Ctx) add(rule, construct string, st Status, pos, reason string, detail ...string) *Obligation {
	o := &Obligation{Key: c.key(rule, construct), Rule: rule, Status: st, Pos: pos, Reason: reason, Detail: detail, nontriv: true}
	c.Obs = append(c.Obs, o)
	return o
}

func (c *Ctx) ok(rule, construct, pos, reason string, detail ...string) {
	c.add(rule, construct, Discharged, pos, reason, detail...)
}
func (c *Ctx) bad(rule, construct, pos, reason string, detail ...string) {
	c.add(rule, construct, Violated, pos, reason, detail...)
}
func (c *Ctx) undecided(rule, construct, pos, reason string, detail ...string) {
	c.add(rule, construct, Undecided, pos, reason, detail...)
}

// check is a convenience: discharged when cond holds, else violated.
func (c *Ctx) check(cond bool, rule, construct, pos, okReason, badReason string, detail ...string) bool {
	if cond {
		c.ok(rule, construct, pos, okReason, detail...)
	} else {
		c.bad(rule, construct, pos, badReason, detail...)
	}
	return cond
}

// floor asserts that a rule matched at least n instances; a rule that matches nothing must
// not pass vacuously.
func (c *Ctx) floor(rule, what string, got, want int) {
	c.Floors = append(c.Floors, fmt.Sprintf("%s: %s = %d (floor %d)", rule, what, got, want))
	if got < want {
		c.add(rule, "floor:"+what, Undecided, "-", fmt.Sprintf("only %d instance(s) of %s found, at least %d were confirmed by hand on the pinned tree; the rule would pass vacuously", got, what, want))
	} else {
		c.add(rule, "floor:"+what, Discharged, "-", fmt.Sprintf("%d instance(s) of %s found (floor %d)", got, what, want))
	}
}

func (c *Ctx) touch(fns ...string) {
	for _, f := range fns {
		c.Analysed[f] = true
	}
}

func (c *Ctx) role(role, sym string) { c.Resolved[role] = sym }

// borrow runs the rules of another property and keeps, under this property's id, the obligations
// that keep selects: a structural condition that is necessary for two properties is decided once
// and reported under each of them. The selection is by rule name and resolved role, never by line.
func (c *Ctx) borrow(from string, run func(*Ctx), keep func(sub *Ctx, o *Obligation) bool) {
	sub := newCtx(c.P, c.Prop, c.Tier)
	func() {
		defer func() {
			if r := recover(); r != nil {
				sub.undecided("meta", "internal-error:"+from, "-", fmt.Sprint("panic while running the shared rules of ", from, ": ", r))
				for _, o := range sub.Obs {
					if o.Rule == "meta" {
						c.Obs = append(c.Obs, o)
					}
				}
			}
		}()
		run(sub)
	}()
	n := 0
	for _, o := range sub.Obs {
		if keep(sub, o) {
			o.Reason = o.Reason + " [rule shared with " + from + "]"
			c.Obs = append(c.Obs, o)
			n++
		}
	}
	for f := range sub.Analysed {
		c.Analysed[f] = true
	}
	c.floor("shared:"+from, "obligations shared with "+from, n, 1)
}

func ruleIs(rules ...string) func(*Ctx, *Obligation) bool {
	return func(_ *Ctx, o *Obligation) bool {
		for _, r := range rules {
			if o.Rule == r {
				return true
			}
		}
		return false
	}
}

// ---------------------------------------------------------------------------------------
// known findings

type knownFinding struct {
	Prop string
	Key  string
	Text string
}

func loadKnown(path string) ([]knownFinding, error) {
	f, err := os.Open(path)
	if err != nil {
		if os.IsNotExist(err) {
			return nil, nil
		}
		return nil, err
	}
	defer f.Close()
	var out []knownFinding
	sc := bufio.NewScanner(f)
	for sc.Scan() {
		line := strings.TrimSpace(sc.Text())
		if line == "" || strings.HasPrefix(line, "#") {
			continue
		}
		if !strings.HasPrefix(line, "finding:") {
			continue // "fixed:" lines suppress nothing
		}
		rest := strings.TrimSpace(strings.TrimPrefix(line, "finding:"))
		kf := knownFinding{}
		fields := strings.Fields(rest)
		var text []string
		for _, fl := range fields {
			switch {
			case strings.HasPrefix(fl, "property=") && kf.Prop == "":
				kf.Prop = strings.TrimPrefix(fl, "property=")
			case strings.HasPrefix(fl, "key=") && kf.Key == "":
				kf.Key = strings.TrimPrefix(fl, "key=")
			default:
				text = append(text, fl)
			}
		}
		kf.Text = strings.Join(text, " ")
		if kf.Prop != "" && kf.Key != "" {
			out = append(out, kf)
		}
	}
	return out, sc.Err()
}

// ---------------------------------------------------------------------------------------
// reports and evidence

type report struct {
	Property   string        `json:"property"`
	Tier       string        `json:"tier"`
	Obligation *Obligation   `json:"obligation"`
	Contrast   []*Obligation `json:"discharged_for_contrast,omitempty"`
	Replay     string        `json:"replay"`
}

func keyHash(k string) string {
	h := sha1.Sum([]byte(k))
	return hex.EncodeToString(h[:])[:10]
}

type evidence struct {
	PropertyID  string                 `json:"property_id"`
	Tier        string                 `json:"tier"`
	Seed        int64                  `json:"seed"`
	Level       string                 `json:"level"`
	Coverage    map[string]interface{} `json:"coverage"`
	Assumptions []string               `json:"assumptions"`
	WallS       float64                `json:"wall_s"`
	Violations  int                    `json:"violations"`
}

// finish applies the known-findings file, writes reports and evidence, prints the verdict
// lines and returns the process exit code.
func (c *Ctx) finish(verifDir string, level string, seed int64, wall float64, pd *propDef, extra map[string]interface{}) int {
	known, err := loadKnown(filepath.Join(verifDir, "known_findings.txt"))
	if err != nil {
		fmt.Fprintf(os.Stderr, "cannot read known_findings.txt: %v\n", err)
		return 2
	}
	sort.SliceStable(c.Obs, func(i, j int) bool { return c.Obs[i].Key < c.Obs[j].Key })
	// duplicate keys would make known-finding matching ambiguous: make them unique
	seen := map[string]int{}
	for _, o := range c.Obs {
		seen[o.Key]++
		if seen[o.Key] > 1 {
			o.Key = fmt.Sprintf("%s~%d", o.Key, seen[o.Key])
		}
	}
	repDir := filepath.Join(verifDir, "reports")
	os.MkdirAll(repDir, 0o755)
	// remove stale reports of this property
	if old, _ := filepath.Glob(filepath.Join(repDir, c.Prop+"-*.json")); old != nil {
		for _, f := range old {
			os.Remove(f)
		}
	}
	var discharged []*Obligation
	for _, o := range c.Obs {
		if o.Status == Discharged {
			discharged = append(discharged, o)
		}
	}
	violations := 0
	nKnown := 0
	var lines []string
	for _, o := range c.Obs {
		if o.Status == Discharged {
			continue
		}
		isKnown := false
		for _, k := range known {
			if k.Prop == c.Prop && k.Key == o.Key {
				isKnown = true
				o.Known = true
				lines = append(lines, fmt.Sprintf("KNOWN-FINDING: property=%s %s (%s at %s)", c.Prop, k.Text, o.Key, o.Pos))
				nKnown++
				break
			}
		}
		if isKnown {
			continue
		}
		violations++
		rp := filepath.Join(repDir, fmt.Sprintf("%s-%s.json", c.Prop, keyHash(o.Key)))
		var contrast []*Obligation
		for _, d := range discharged {
			if d.Rule == o.Rule && len(contrast) < 8 {
				contrast = append(contrast, d)
			}
		}
		r := report{Property: c.Prop, Tier: c.Tier, Obligation: o, Contrast: contrast,
			Replay: fmt.Sprintf("bin/pfverify -explain %s", rp)}
		b, _ := json.MarshalIndent(r, "", "  ")
		os.WriteFile(rp, b, 0o644)
		lines = append(lines, fmt.Sprintf("VIOLATION property=%s replay=%s", c.Prop, rp))
		lines = append(lines, fmt.Sprintf("  [%s] %s at %s: %s", o.Status, o.Key, o.Pos, o.Reason))
		for _, d := range o.Detail {
			lines = append(lines, "      "+d)
		}
	}

	// evidence
	nDis := len(discharged)
	distinct := map[string]bool{}
	for _, o := range c.Obs {
		if o.nontriv && !strings.Contains(o.Key, "/floor:") {
			distinct[o.Key] = true
		}
	}
	var samples []interface{}
	for _, o := range c.Obs {
		samples = append(samples, map[string]interface{}{
			"key": o.Key, "pos": o.Pos, "verdict": string(o.Status), "reason": o.Reason, "known_finding": o.Known,
		})
	}
	var fns []string
	for f := range c.Analysed {
		fns = append(fns, f)
	}
	sort.Strings(fns)
	cov := map[string]interface{}{
		"obligations":         len(c.Obs),
		"discharged":          nDis,
		"known_findings":      nKnown,
		"checker_cmd":         fmt.Sprintf("bin/pfverify -prop %s -tier %s", c.Prop, c.Tier),
		"trusted_base":        pd.Trusted,
		"explanation":         pd.Explanation,
		"evaluations":         len(c.Obs),
		"distinct_nontrivial": len(distinct),
		"rule":                "one obligation per rule instance found in the loaded program (key = property/rule/resolved construct); non-trivial = the rule inspected at least one instruction of /repo for it (floor obligations are not counted as distinct); every instance present in the loaded program is examined",
		"samples":             samples,
		"functions_analysed":  fns,
		"n_functions":         len(fns),
		"call_sites":          c.Sites,
		"floors":              c.Floors,
		"resolved_anchors":    c.Resolved,
		"notes":               c.Notes,
		"exhaustive":          true,
		"packages_loaded":     progPkgs(c.P),
		"source_functions":    progFuncs(c.P),
		"not_covered":         pd.NotCovered,
	}
	for k, v := range extra {
		cov[k] = v
	}
	ev := evidence{PropertyID: c.Prop, Tier: c.Tier, Seed: seed, Level: level, Coverage: cov,
		Assumptions: pd.Assumptions, WallS: wall, Violations: violations}
	evDir := filepath.Join(verifDir, "evidence")
	os.MkdirAll(evDir, 0o755)
	b, _ := json.MarshalIndent(ev, "", " ")
	if err := os.WriteFile(filepath.Join(evDir, c.Prop+".json"), append(b, '\n'), 0o644); err != nil {
		fmt.Fprintf(os.Stderr, "cannot write evidence: %v\n", err)
		return 2
	}

	fmt.Printf("pfverify %s tier=%s: %d obligations, %d discharged, %d known finding(s), %d violation(s); %d functions, %d sites analysed\n",
		c.Prop, c.Tier, len(c.Obs), nDis, nKnown, violations, len(fns), c.Sites)
	for _, fl := range c.Floors {
		fmt.Println("  floor", fl)
	}
	for _, l := range lines {
		fmt.Println(l)
	}
	if violations > 0 {
		return 1
	}
	return 0
}

func progPkgs(p *Prog) int {
	if p == nil {
		return 0
	}
	return len(p.Pkgs)
}

func progFuncs(p *Prog) int {
	if p == nil {
		return 0
	}
	return len(p.Funcs)
}
