package main

import (
	"fmt"
	"go/constant"
	"go/token"
	"go/types"
	"math/bits"
	"sort"
	"strings"

	"golang.org/x/tools/go/ssa"
)

// C10/enumeration-complete: the structural half of "no other admissible selection beats the
// reported one" that lives in the enumerator. The maximum is only a maximum if every admissible
// selection takes part in it, so:
//
//	E1  the entry enumerates (hole, required) x (board, 5-required) as a full nested product, or
//	    (hole+board, 5) when no count is required;
//	E2  the k-of-n enumerator visits every mask its generator yields and maps every set bit of the
//	    mask to the card at that position;
//	E3  the mask generator starts at the lowest k-subset, its loop bound lets the highest k-subset
//	    through and nothing with a bit at or above n, it records every value it visits, and its step
//	    is "next integer with the same number of one bits";
//	E4  the bit scanner looks at every position below n and reports exactly the set ones.
//
// E3 and E4 evaluate closed-form integer expressions of the SSA form (no loop is executed, no
// function is called) on the finite grid 1 <= k <= n <= maxEnumN: the expressions are the loop's
// initial value, its bound, its step and its bit test.

const maxEnumN = 9

// evalSSA evaluates a loop-free integer expression DAG.
func evalSSA(v ssa.Value, env map[ssa.Value]int64) (int64, bool) {
	if x, ok := env[v]; ok {
		return x, true
	}
	switch x := v.(type) {
	case *ssa.Const:
		if x.Value == nil {
			return 0, false
		}
		switch x.Value.Kind() {
		case constant.Int:
			i, ok := constant.Int64Val(x.Value)
			return i, ok
		case constant.Bool:
			if constant.BoolVal(x.Value) {
				return 1, true
			}
			return 0, true
		}
		return 0, false
	case *ssa.Convert:
		if b, ok := x.Type().Underlying().(*types.Basic); ok && b.Info()&types.IsInteger != 0 {
			return evalSSA(x.X, env)
		}
		return 0, false
	case *ssa.ChangeType:
		return evalSSA(x.X, env)
	case *ssa.UnOp:
		a, ok := evalSSA(x.X, env)
		if !ok {
			return 0, false
		}
		switch x.Op {
		case token.SUB:
			return -a, true
		case token.XOR:
			return ^a, true
		case token.NOT:
			return 1 - a, true
		}
		return 0, false
	case *ssa.Call:
		// a call to a straight-line integer helper of the module is evaluated through its body
		f := x.Call.StaticCallee()
		if f == nil || len(f.Blocks) != 1 || len(f.Params) != len(x.Call.Args) || !inModule(f) {
			return 0, false
		}
		ret, ok := f.Blocks[0].Instrs[len(f.Blocks[0].Instrs)-1].(*ssa.Return)
		if !ok || len(ret.Results) != 1 {
			return 0, false
		}
		env2 := map[ssa.Value]int64{}
		for i, a := range x.Call.Args {
			v, ok := evalSSA(a, env)
			if !ok {
				return 0, false
			}
			env2[f.Params[i]] = v
		}
		return evalSSA(ret.Results[0], env2)
	case *ssa.BinOp:
		a, ok1 := evalSSA(x.X, env)
		b, ok2 := evalSSA(x.Y, env)
		if !ok1 || !ok2 {
			return 0, false
		}
		bo := func(c bool) (int64, bool) {
			if c {
				return 1, true
			}
			return 0, true
		}
		switch x.Op {
		case token.ADD:
			return a + b, true
		case token.SUB:
			return a - b, true
		case token.MUL:
			return a * b, true
		case token.QUO:
			if b == 0 {
				return 0, false
			}
			return a / b, true
		case token.REM:
			if b == 0 {
				return 0, false
			}
			return a % b, true
		case token.AND:
			return a & b, true
		case token.OR:
			return a | b, true
		case token.XOR:
			return a ^ b, true
		case token.AND_NOT:
			return a &^ b, true
		case token.SHL:
			if b < 0 || b > 62 {
				return 0, false
			}
			return a << uint(b), true
		case token.SHR:
			if b < 0 || b > 62 {
				return 0, false
			}
			return a >> uint(b), true
		case token.LSS:
			return bo(a < b)
		case token.LEQ:
			return bo(a <= b)
		case token.GTR:
			return bo(a > b)
		case token.GEQ:
			return bo(a >= b)
		case token.EQL:
			return bo(a == b)
		case token.NEQ:
			return bo(a != b)
		}
	}
	return 0, false
}

func isIntSliceFn(fn *ssa.Function, nparams int) bool {
	sig := fn.Signature
	if sig.Params().Len() != nparams || sig.Results().Len() != 1 {
		return false
	}
	for i := 0; i < nparams; i++ {
		if b, ok := sig.Params().At(i).Type().Underlying().(*types.Basic); !ok || b.Info()&types.IsInteger == 0 {
			return false
		}
	}
	sl, ok := sig.Results().At(0).Type().Underlying().(*types.Slice)
	if !ok {
		return false
	}
	b, ok := sl.Elem().Underlying().(*types.Basic)
	return ok && b.Info()&types.IsInteger != 0
}

// loopHead returns the header phi compared by the loop test, the other operand, and a function
// telling whether the loop continues for given values of (phi, other).
func loopHead(l *Loop) (*ssa.Phi, ssa.Value, *ssa.BinOp) {
	ifi, ok := l.Header.Instrs[len(l.Header.Instrs)-1].(*ssa.If)
	if !ok {
		return nil, nil, nil
	}
	cmp, ok := ifi.Cond.(*ssa.BinOp)
	if !ok {
		return nil, nil, nil
	}
	if ph, ok := cmp.X.(*ssa.Phi); ok && ph.Block() == l.Header {
		return ph, cmp.Y, cmp
	}
	if ph, ok := cmp.Y.(*ssa.Phi); ok && ph.Block() == l.Header {
		return ph, cmp.X, cmp
	}
	return nil, nil, nil
}

func phiInitStep(l *Loop, ph *ssa.Phi) (init, step ssa.Value) {
	for i, e := range ph.Edges {
		if l.Blocks[l.Header.Preds[i]] {
			step = e
		} else {
			init = e
		}
	}
	return
}

func runC10Enumeration(c *Ctx) {
	p := c.P
	const rule = "enumeration-complete"
	entry := p.Func("combination", "", "GetAllPossibleCombinations")
	if entry == nil {
		c.undecided(rule, "entry", "-", "combination.GetAllPossibleCombinations not found")
		return
	}
	c.touch(fnKey(entry))
	s := newSumm(p, 0)
	samePkg := func(f *ssa.Function) bool { return f != nil && f.Pkg == entry.Pkg }
	// package-private helpers are analysed where they are used (joining two selections, picking the
	// cards of one mask); the two integer generators stay visible as calls
	s.HelperInline = func(f *ssa.Function) bool { return privateHelper(entry, f) && !isIntSliceFn(f, 2) }
	isKofN := func(f *ssa.Function) bool {
		if !samePkg(f) || f.Signature.Params().Len() != 2 || f.Signature.Results().Len() != 1 {
			return false
		}
		b, ok := f.Signature.Params().At(1).Type().Underlying().(*types.Basic)
		_, sl := f.Signature.Params().At(0).Type().Underlying().(*types.Slice)
		return ok && sl && b.Info()&types.IsInteger != 0
	}

	// ---- E1: the entry
	var sub *ssa.Function
	{
		paths, _ := s.Function(entry)
		hole, board, cnt := "param:"+entry.Params[1].Name(), "param:"+entry.Params[0].Name(), "param:"+entry.Params[2].Name()
		var bad []string
		nZero, nProd := 0, 0
		for _, ps := range paths {
			var calls []*Event
			for _, e := range ps.Events {
				if e.Kind == "call" && isKofN(e.Fn) && len(e.Args) == 2 {
					calls = append(calls, e)
					if sub == nil {
						sub = e.Fn
					} else if sub != e.Fn {
						bad = append(bad, "selections are drawn by different enumerators")
					}
				}
			}
			// which branch: the unrestricted enumeration is taken exactly when no count is required
			isZero := hasCond(ps, func(v *Val) bool {
				return v.K == KAtom && v.At.Op == "eq" && !v.Neg && v.At.A.String() == cnt
			})
			isNonZero := hasCond(ps, func(v *Val) bool {
				return v.K == KAtom && v.At.Op == "eq" && v.Neg && v.At.A.String() == cnt
			})
			if len(calls) == 1 && !isZero {
				bad = append(bad, "any five of hole cards and board are admitted although a hole-card count is required: path ["+ps.CondString()+"]")
			}
			if len(calls) == 2 && !isNonZero {
				bad = append(bad, "the (hole, board) product is taken without testing the required count")
			}
			switch len(calls) {
			case 1:
				nZero++
				a := calls[0].Args
				if v, ok := a[1].isConstInt(); !ok || v != 5 {
					bad = append(bad, "without a required count the selection size is "+a[1].String()+", not 5")
				}
				if !a[0].mentions(hole) || !a[0].mentions(board) {
					bad = append(bad, "without a required count the selection is not drawn from hole cards and board together: "+a[0].String())
				}
				if len(ps.Ret) != 1 || ps.Ret[0].String() != calls[0].Res.String() {
					bad = append(bad, "the enumerated selections are not what is returned")
				}
			case 2:
				nProd++
				var hc, bc *Event
				for _, e := range calls {
					if e.Args[0].String() == hole {
						hc = e
					}
					if e.Args[0].String() == board {
						bc = e
					}
				}
				if hc == nil || bc == nil {
					bad = append(bad, "with a required count the two enumerations are not (hole cards) and (board)")
					break
				}
				if hc.Args[1].String() != cnt {
					bad = append(bad, "hole cards are selected "+hc.Args[1].String()+" at a time, not the required count")
				}
				if !bc.Args[1].asAff().equal(affConst(5).add(affTerm(cnt), -1)) {
					bad = append(bad, "board cards are selected "+bc.Args[1].String()+" at a time, not 5 minus the required count")
				}
				// nested full product
				var loops []*Event
				for _, e := range ps.Events {
					if e.Kind == "loop" {
						loops = append(loops, e)
					}
				}
				if len(loops) != 1 {
					bad = append(bad, "the product of the two enumerations is not one nested loop")
					break
				}
				outer := loops[0].Loop
				ro := analyseRange(outer)
				if !ro.Full || len(outer.Exits) != 1 {
					bad = append(bad, "the outer product loop does not cover its whole enumeration")
				}
				ob, _ := s.LoopBody(loops[0].InFn, outer)
				nInner := 0
				var innerColl ssa.Value
				for _, q := range ob {
					if q.End != "continue" {
						bad = append(bad, "the outer product loop can stop early")
					}
					for _, e := range q.Events {
						if e.Kind != "loop" {
							continue
						}
						nInner++
						ri := analyseRange(e.Loop)
						innerColl = ri.Coll
						if !ri.Full || len(e.Loop.Exits) != 1 {
							bad = append(bad, "the inner product loop does not cover its whole enumeration")
						}
						ib, _ := s.LoopBody(e.InFn, e.Loop)
						for _, r := range ib {
							st := 0
							for _, e2 := range r.Events {
								if e2.Kind == "store" && strings.HasPrefix(e2.Val.String(), "append(") {
									st++
									if strings.Count(e2.Val.String(), "loopval:")+strings.Count(e2.Val.String(), "iter:") < 2 {
										bad = append(bad, "a product element is not the concatenation of one selection of each enumeration: "+e2.Val.String())
									}
									// ... built on a slice of its own: appending to a slice that was made outside
									// this iteration (with spare capacity) makes all elements share one array
									base := e2.Val
									for base.Op == "append" && len(base.Args) >= 1 {
										base = base.Args[0]
									}
									if !(isEmptyVal(base) || base.Op == "list" || base.Op == "makeslice") {
										bad = append(bad, "a product element is appended onto "+base.String()+", which other elements are appended onto too")
									}
								}
							}
							if r.End != "continue" || st != 1 {
								bad = append(bad, "a pair of selections is skipped or recorded more than once")
							}
						}
					}
				}
				if nInner != 1 {
					bad = append(bad, "the product is not a doubly nested loop")
				}
				// the two ranged collections are the two enumerations, one each
				hv, bv := ssa.Value(hc.Instr.(ssa.Value)), ssa.Value(bc.Instr.(ssa.Value))
				if !((ro.Coll == hv && innerColl == bv) || (ro.Coll == bv && innerColl == hv)) {
					bad = append(bad, "the two product loops do not range over the two whole enumeration results")
				}
			default:
				if len(calls) != 0 {
					bad = append(bad, fmt.Sprintf("%d enumerator calls on one path", len(calls)))
				}
			}
		}
		c.check(len(bad) == 0 && nZero >= 1 && nProd >= 1, rule, fnKey(entry)+"#product", p.FnPos(entry), "every (hole selection, board selection) pair, or every 5 of hole+board, is produced", "admissible selections are missing from the enumeration", uniq(bad, 4)...)
	}
	if sub == nil {
		c.undecided(rule, "k-of-n", "-", "the k-of-n enumerator was not resolved")
		return
	}
	c.touch(fnKey(sub))

	// ---- E2: k-of-n enumerator
	var gen, scan *ssa.Function
	fused := false
	{
		paths, _ := s.Function(sub)
		cards, k := "param:"+sub.Params[0].Name(), "param:"+sub.Params[1].Name()
		total := "len(" + cards + ")"
		var bad []string
		nEnum := 0
		for _, ps := range paths {
			var gc *Event
			for _, e := range ps.Events {
				if e.Kind == "call" && samePkg(e.Fn) && isIntSliceFn(e.Fn, 2) {
					gc = e
				}
			}
			if gc == nil {
				// the short-cut: fewer cards than asked for (or exactly as many) yields the cards themselves
				if len(ps.Ret) == 1 && !ps.Ret[0].mentions(cards) {
					bad = append(bad, "a path returns selections that do not come from the cards")
				}
				continue
			}
			nEnum++
			gen = gc.Fn
			if gc.Args[0].String() != k || gc.Args[1].String() != total {
				bad = append(bad, fmt.Sprintf("masks are generated for (%s, %s), expected (%s, %s)", gc.Args[0], gc.Args[1], k, total))
			}
			var loops []*Event
			for _, e := range ps.Events {
				if e.Kind == "loop" {
					loops = append(loops, e)
				}
			}
			if len(loops) != 1 {
				bad = append(bad, "the masks are not consumed by exactly one loop")
				continue
			}
			outer := loops[0].Loop
			ro := analyseRange(outer)
			if !ro.Full || len(outer.Exits) != 1 || ro.Coll != ssa.Value(gc.Instr.(ssa.Value)) {
				bad = append(bad, "the loop over the masks does not visit every generated mask")
			}
			ob, _ := s.LoopBody(loops[0].InFn, outer)
			for _, q := range ob {
				if q.End != "continue" {
					bad = append(bad, "the loop over the masks can stop early")
				}
				var sc *Event
				nIn, nSt := 0, 0
				for _, e := range q.Events {
					switch {
					case e.Kind == "call" && samePkg(e.Fn) && isIntSliceFn(e.Fn, 2):
						sc = e
					case e.Kind == "loop":
						nIn++
						ri := analyseRange(e.Loop)
						if sc == nil {
							continue // fused form, decided below
						}
						if !ri.Full || len(e.Loop.Exits) != 1 || (e.InFn == sub && ri.Coll != ssa.Value(sc.Instr.(ssa.Value))) {
							bad = append(bad, "the loop over the bit positions does not visit every position")
						}
						ib, _ := s.LoopBody(e.InFn, e.Loop)
						for _, r := range ib {
							ok := false
							for _, e2 := range r.Events {
								if e2.Kind != "store" || sc == nil || !strings.Contains(e2.Val.String(), "[iter:") {
									continue
								}
								v := e2.Val.String()
								if e.InFn != sub {
									// the loop lives in a helper analysed in place: read its parameters as the
									// arguments it was entered with
									for _, en := range q.Events {
										if en.Kind == "enter" && en.Fn == e.InFn {
											v = substParams(v, en.Fn, en.Args)
										}
									}
								}
								// same function: the ranged collection is the scanner's result (checked above on
								// the SSA value); inlined helper: the index is drawn from the scanner's result
								if (e.InFn == sub && strings.HasPrefix(v, cards+"[")) || strings.HasPrefix(v, cards+"["+fnKey(sc.Fn)+"(") {
									ok = true
								}
							}
							if r.End != "continue" || !ok {
								bad = append(bad, "a set position does not contribute the card at that position")
							}
						}
					case e.Kind == "store" && strings.HasPrefix(e.Val.String(), "loopval:"):
						nSt++
					}
				}
				if sc == nil {
					// fused form: one pass over the card positions that tests the position's bit
					// of the mask and takes the card at that position (no list of positions)
					if msg, cells, ok := fusedDecode(s, sub, q, ro, cards, fnKey(gen)); ok {
						fused = true
						c.Sites += cells
						if msg != "" {
							bad = append(bad, msg)
						}
						if nSt != 1 {
							bad = append(bad, "a mask does not yield exactly one recorded selection")
						}
						continue
					}
					bad = append(bad, "a mask is not decoded into positions")
					continue
				}
				scan = sc.Fn
				if !strings.Contains(sc.Args[0].String(), "[iter:") || !strings.HasPrefix(sc.Args[0].String(), fnKey(gen)+"(") {
					bad = append(bad, "the decoded value is not the visited mask: "+sc.Args[0].String())
				}
				if sc.Args[1].String() != total {
					bad = append(bad, "positions are scanned below "+sc.Args[1].String()+", not below the number of cards")
				}
				if nIn != 1 || nSt != 1 {
					bad = append(bad, "a mask does not yield exactly one recorded selection")
				}
			}
		}
		c.check(len(bad) == 0 && nEnum >= 1, rule, fnKey(sub)+"#masks-to-cards", p.FnPos(sub), "every generated mask is decoded over all card positions and recorded once", "a selection is dropped or malformed", uniq(bad, 4)...)
	}

	// ---- E3: mask generator
	if gen == nil {
		c.undecided(rule, "mask-generator", "-", "not resolved")
	} else {
		c.touch(fnKey(gen))
		var bad []string
		loops := s.loops(gen)
		if len(loops) != 1 {
			c.undecided(rule, fnKey(gen)+"#bounds", p.FnPos(gen), fmt.Sprintf("%d loops in the mask generator; the single-loop successor form was confirmed on the pinned tree", len(loops)))
		} else {
			l := loops[0]
			ph, _, cmp := loopHead(l)
			if ph == nil {
				c.undecided(rule, fnKey(gen)+"#bounds", p.FnPos(gen), "loop test does not compare the running mask")
			} else {
				init, step := phiInitStep(l, ph)
				contOnTrue := l.Blocks[l.Header.Succs[0]]
				kP, nP := ssa.Value(gen.Params[0]), ssa.Value(gen.Params[1])
				cells := 0
				for n := int64(1); n <= maxEnumN && len(bad) < 3; n++ {
					for k := int64(1); k <= n && len(bad) < 3; k++ {
						env := map[ssa.Value]int64{kP: k, nP: n}
						lo := int64(1)<<uint(k) - 1
						hi := lo << uint(n-k)
						i0, ok := evalSSA(init, env)
						if !ok {
							bad = append(bad, "initial mask is not a closed form of (k, n)")
							break
						}
						if i0 != lo {
							bad = append(bad, fmt.Sprintf("k=%d n=%d: enumeration starts at %b, the lowest selection is %b", k, n, i0, lo))
						}
						// walk the k-subsets in increasing order with the reference successor and ask the
						// loop's own test and step about each
						cur := lo
						for {
							env[ph] = cur
							t, ok := evalSSA(cmp, env)
							if !ok {
								bad = append(bad, "loop test is not a closed form of (mask, k, n)")
								break
							}
							cont := (t == 1) == contOnTrue
							if !cont {
								bad = append(bad, fmt.Sprintf("k=%d n=%d: the loop stops before the selection %0*b", k, n, int(n), cur))
								break
							}
							nx, ok := evalSSA(step, env)
							if !ok {
								bad = append(bad, "step is not a closed form of the mask")
								break
							}
							// reference: next integer with the same popcount
							ref := cur + 1
							for bits.OnesCount64(uint64(ref)) != int(k) {
								ref++
							}
							if nx != ref {
								bad = append(bad, fmt.Sprintf("k=%d n=%d: after %0*b comes %b, expected %b", k, n, int(n), cur, nx, ref))
								break
							}
							cells++
							if cur == hi {
								// the successor of the highest selection must fail the test
								env[ph] = nx
								t, ok := evalSSA(cmp, env)
								if ok && (t == 1) == contOnTrue {
									bad = append(bad, fmt.Sprintf("k=%d n=%d: the loop continues past the highest selection to %b, which has a bit at or above n", k, n, nx))
								}
								break
							}
							cur = nx
						}
					}
				}
				// every visited mask is recorded
				bp, _ := s.LoopBody(gen, l)
				for _, q := range bp {
					ok := false
					for _, e := range q.Events {
						if e.Kind == "store" && e.Val.String() == "iter:"+gen.Name()+"."+ph.Name() {
							ok = true
						}
					}
					if q.End != "continue" || !ok {
						bad = append(bad, "a visited mask is not recorded")
					}
				}
				c.Sites += cells
				c.check(len(bad) == 0 && cells > 0, rule, fnKey(gen)+"#bounds", p.FnPos(gen), fmt.Sprintf("start, bound and step agree with the increasing enumeration of k-subsets on %d (mask,k,n) cells with n <= %d; every visited mask is recorded", cells, maxEnumN), "the mask generator drops or invents selections", uniq(bad, 3)...)
			}
		}
	}

	// ---- E4: bit scanner
	if scan == nil && fused {
		c.ok(rule, "bit-scanner", "-", "fused into the pass over the card positions (decided with masks-to-cards)")
	} else if scan == nil {
		c.undecided(rule, "bit-scanner", "-", "not resolved")
	} else {
		c.touch(fnKey(scan))
		var bad []string
		loops := s.loops(scan)
		if len(loops) != 1 {
			c.undecided(rule, fnKey(scan)+"#bits", p.FnPos(scan), fmt.Sprintf("%d loops in the bit scanner", len(loops)))
			return
		}
		l := loops[0]
		ph, _, cmp := loopHead(l)
		if ph == nil {
			c.undecided(rule, fnKey(scan)+"#bits", p.FnPos(scan), "loop test does not compare the position")
			return
		}
		init, step := phiInitStep(l, ph)
		contOnTrue := l.Blocks[l.Header.Succs[0]]
		vP, nP := ssa.Value(scan.Params[0]), ssa.Value(scan.Params[1])
		// positions visited: 0 .. n-1, one by one
		for n := int64(1); n <= maxEnumN && len(bad) < 3; n++ {
			env := map[ssa.Value]int64{vP: 0, nP: n}
			i0, ok := evalSSA(init, env)
			if !ok || i0 != 0 {
				bad = append(bad, "the scan does not start at position 0")
				break
			}
			for i := int64(0); i <= n; i++ {
				env[ph] = i
				t, ok1 := evalSSA(cmp, env)
				nx, ok2 := evalSSA(step, env)
				if !ok1 || !ok2 {
					bad = append(bad, "scan test or step is not a closed form")
					break
				}
				if cont := (t == 1) == contOnTrue; cont != (i < n) {
					bad = append(bad, fmt.Sprintf("n=%d: position %d is %s", n, i, map[bool]string{true: "scanned although it is not a card position", false: "not scanned"}[cont]))
					break
				}
				if nx != i+1 {
					bad = append(bad, fmt.Sprintf("the scan steps from %d to %d", i, nx))
					break
				}
			}
		}
		// the bit test inside the loop: position i is reported iff bit i of the value is set
		bp, _ := s.LoopBody(scan, l)
		iter := "iter:" + scan.Name() + "." + ph.Name()
		nRec := 0
		for _, q := range bp {
			rec := false
			for _, e := range q.Events {
				if e.Kind == "store" {
					if e.Val.String() == iter {
						rec = true
					} else if strings.Contains(e.Loc, "varargs") {
						bad = append(bad, "a reported position is "+e.Val.String()+", not the scanned position")
					}
				}
			}
			if rec {
				nRec++
			}
			if q.End != "continue" {
				bad = append(bad, "the scan can stop early")
			}
		}
		if nRec != 1 {
			bad = append(bad, fmt.Sprintf("%d paths of the scan body report a position, expected exactly one", nRec))
		}
		// find the If inside the loop (other than the header's) and evaluate it
		var bitIf *ssa.If
		for b := range l.Blocks {
			if b == l.Header {
				continue
			}
			if ifi, ok := b.Instrs[len(b.Instrs)-1].(*ssa.If); ok {
				if bitIf != nil {
					bitIf = nil
					bad = append(bad, "more than one test inside the scan body")
					break
				}
				bitIf = ifi
			}
		}
		cells := 0
		if bitIf != nil {
			// which successor records?
			recOnTrue := false
			for _, in := range bitIf.Block().Succs[0].Instrs {
				if st, ok := in.(*ssa.Store); ok && st.Val == ssa.Value(ph) {
					recOnTrue = true
				}
			}
			for v := int64(0); v < 1<<6 && len(bad) < 3; v++ {
				for i := int64(0); i < 6; i++ {
					env := map[ssa.Value]int64{vP: v, nP: 6, ph: i}
					t, ok := evalSSA(bitIf.Cond, env)
					if !ok {
						bad = append(bad, "the bit test is not a closed form of (value, position)")
						break
					}
					cells++
					if ((t == 1) == recOnTrue) != ((v>>uint(i))&1 == 1) {
						bad = append(bad, fmt.Sprintf("value %06b position %d: reported=%v", v, i, (t == 1) == recOnTrue))
						break
					}
				}
			}
		} else if len(bad) == 0 {
			bad = append(bad, "no bit test found in the scan body")
		}
		c.Sites += cells
		c.check(len(bad) == 0, rule, fnKey(scan)+"#bits", p.FnPos(scan), fmt.Sprintf("positions 0..n-1 are all scanned and position i is reported exactly when bit i is set (%d cells)", cells), "the bit scanner misses or misreports positions", uniq(bad, 3)...)
	}
}

// substParams rewrites "param:<name>" of fn's parameters in a rendered value to the rendered
// arguments (simultaneously).
func substParams(v string, fn *ssa.Function, args []*Val) string {
	var pairs []string
	// longer names first: "param:t" must not eat the head of "param:target"
	order := make([]int, 0, len(fn.Params))
	for i := range fn.Params {
		order = append(order, i)
	}
	sort.SliceStable(order, func(a, b int) bool { return len(fn.Params[order[a]].Name()) > len(fn.Params[order[b]].Name()) })
	for _, i := range order {
		if i < len(args) {
			pairs = append(pairs, "param:"+fn.Params[i].Name(), "\x00"+fmt.Sprint(i)+"\x00")
		}
	}
	v = replaceWholeNames(v, pairs)
	pairs = pairs[:0]
	for i := range fn.Params {
		if i < len(args) {
			pairs = append(pairs, "\x00"+fmt.Sprint(i)+"\x00", args[i].String())
		}
	}
	return strings.NewReplacer(pairs...).Replace(v)
}

// fusedDecode decides the fused form of E2/E4 for one body path q of the loop over the masks:
// exactly one inner loop, a counting loop i = 0 .. len(cards)-1 (in the enumerator or in a helper
// given the cards and the visited mask), whose only test is a closed form of (mask, i) that is
// true exactly when bit i of the mask is set, the taking branch appending cards[i]. ok is false
// when q does not have that form at all.
func fusedDecode(s *Summ, sub *ssa.Function, q *PathSum, ro rangeInfo, cards string, genKey string) (msg string, cells int, ok bool) {
	var le *Event
	n := 0
	for _, e := range q.Events {
		if e.Kind == "loop" {
			le = e
			n++
		}
	}
	if n != 1 {
		return "", 0, false
	}
	l, host := le.Loop, le.InFn
	ph, bound, cmp := loopHead(l)
	if ph == nil || cmp == nil {
		return "", 0, false
	}
	// the cards and the mask as values of the host function
	var cardsV, maskV ssa.Value
	if host == sub {
		cardsV = sub.Params[0]
		maskV = ro.ElemLoad
	} else {
		var en *Event
		for _, x := range q.Events {
			if x.Kind == "enter" && x.Fn == host {
				en = x
			}
		}
		if en == nil {
			return "", 0, false
		}
		for i, prm := range host.Params {
			if i >= len(en.Args) || en.Args[i] == nil {
				continue
			}
			a := en.Args[i].String()
			if a == cards {
				cardsV = prm
			}
			if strings.Contains(a, "[iter:") && strings.HasPrefix(a, genKey+"(") {
				maskV = prm
			}
		}
	}
	if cardsV == nil || maskV == nil {
		return "", 0, false
	}
	// i = 0 .. len(cards)-1, one by one
	init, step := phiInitStep(l, ph)
	if k, isC := constInt(init); !isC || k != 0 {
		return "the pass over the card positions does not start at position 0", 0, true
	}
	if !isPlusOne(step, ph) {
		return "the pass over the card positions does not step by one", 0, true
	}
	if cmp.Op != token.LSS || cmp.X != ssa.Value(ph) {
		return "the pass over the card positions is not bounded by i < len(cards)", 0, true
	}
	if call, isCall := bound.(*ssa.Call); !isCall || len(call.Call.Args) != 1 || call.Call.Args[0] != cardsV {
		return "the pass over the card positions is not bounded by the number of cards", 0, true
	} else if bi, isB := call.Call.Value.(*ssa.Builtin); !isB || bi.Name() != "len" {
		return "the pass over the card positions is not bounded by the number of cards", 0, true
	}
	if len(l.Exits) != 1 {
		return "the pass over the card positions can stop early", 0, true
	}
	// the single test inside the loop
	var bitIf *ssa.If
	for b := range l.Blocks {
		if b == l.Header {
			continue
		}
		if ifi, isIf := b.Instrs[len(b.Instrs)-1].(*ssa.If); isIf {
			if bitIf != nil {
				return "more than one test inside the pass over the card positions", 0, true
			}
			bitIf = ifi
		}
	}
	if bitIf == nil {
		return "no bit test in the pass over the card positions", 0, true
	}
	takes := func(b *ssa.BasicBlock) bool {
		for _, in := range b.Instrs {
			if ia, isIA := in.(*ssa.IndexAddr); isIA && ia.X == cardsV && ia.Index == ssa.Value(ph) {
				return true
			}
		}
		return false
	}
	recOnTrue := takes(bitIf.Block().Succs[0])
	if !recOnTrue && !takes(bitIf.Block().Succs[1]) {
		return "the card taken is not the one at the tested position", 0, true
	}
	for v := int64(0); v < 1<<6; v++ {
		for i := int64(0); i < 6; i++ {
			env := map[ssa.Value]int64{maskV: v, ph: i}
			t, okE := evalSSA(bitIf.Cond, env)
			if !okE {
				return "the bit test is not a closed form of (mask, position)", cells, true
			}
			cells++
			if ((t == 1) == recOnTrue) != ((v>>uint(i))&1 == 1) {
				return fmt.Sprintf("mask %06b position %d: taken=%v", v, i, (t == 1) == recOnTrue), cells, true
			}
		}
	}
	return "", cells, true
}

// replaceWholeNames replaces each name (pairs[0], pairs[2], ...) by its partner where the name is
// not the head of a longer identifier (the next character is not a letter, digit or underscore).
func replaceWholeNames(v string, pairs []string) string {
	var sb strings.Builder
	for i := 0; i < len(v); {
		done := false
		for k := 0; k+1 < len(pairs); k += 2 {
			name := pairs[k]
			if strings.HasPrefix(v[i:], name) {
				j := i + len(name)
				if j < len(v) {
					ch := v[j]
					if ch == '_' || (ch >= '0' && ch <= '9') || (ch >= 'a' && ch <= 'z') || (ch >= 'A' && ch <= 'Z') {
						continue
					}
				}
				sb.WriteString(pairs[k+1])
				i = j
				done = true
				break
			}
		}
		if !done {
			sb.WriteByte(v[i])
			i++
		}
	}
	return sb.String()
}
