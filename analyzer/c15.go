package main

import (
	"fmt"
	"go/types"
	"sort"
	"strings"

	"golang.org/x/tools/go/ssa"
)

func init() {
	register(&propDef{
		ID: "C15", Level: "proof", Run: withShared(runC15, share{"C14", runC14, ruleIs("cursor-lockstep")}, share{"C10", runC10, ruleIs("one-hand")}),
		Explanation: "Complete static argument over the two view functions, for every input state (reachable or not). (1) The secret set is derived, not listed: card-identity taint flows from element loads of Meta.Deck through the whole module (explicit flows: copies, slicing, append, calls, conversions, stores into fields); every field in GameState's type closure that receives a tainted value is card-bearing, the board is public by the property, everything else card-bearing is secret, and a pointer field whose target holds card-bearing fields is secret as a whole. (2) On every path of AsPlayer and AsObserver each table-level secret is overwritten with a fresh empty value; the per-player secrets are handled by a full-range loop over the players without early exit, on every path of whose body every per-player secret is overwritten with an empty value unless the path condition contains the viewer test (AsPlayer only) or the function path contains CurrentEvent == <terminal symbol> and the body path contains not-folded. (3) The write set of both functions is contained in the secret set and nothing is written on the viewer's own path. (4) The compared string is the symbol of the terminal event. A seat's secrets are wiped only on paths that carry seat != viewer, in every phase.",
		Trusted:     append([]string{"encoding/json field rules (only exported fields of the state type are serialised)"}, commonTrusted...),
		Assumptions: []string{"views are produced by these two functions (true for package actor)", "only explicit information flows matter (the hand category name is derived under control dependence and is covered as part of the Combination object)"},
		NotCovered:  "-",
	})
}

// cardTaint computes the set of struct fields (typed keys) that may hold card identities.
func cardTaint(p *Prog) (fields map[string]bool, iterations int) {
	fields = map[string]bool{"pokerface.Meta.Deck": true}
	tainted := map[ssa.Value]bool{}
	paramT := map[*ssa.Parameter]bool{}
	retT := map[*ssa.Function]bool{}
	freeT := map[*ssa.FreeVar]bool{}
	ix := p.Index()
	isT := func(v ssa.Value) bool {
		if tainted[v] {
			return true
		}
		switch x := v.(type) {
		case *ssa.Parameter:
			return paramT[x]
		case *ssa.FreeVar:
			return freeT[x]
		}
		return false
	}
	changed := true
	mark := func(v ssa.Value) {
		if !tainted[v] {
			tainted[v] = true
			changed = true
		}
	}
	for changed {
		changed = false
		iterations++
		for _, fn := range p.Funcs {
			for _, b := range fn.Blocks {
				for _, in := range b.Instrs {
					switch x := in.(type) {
					case *ssa.UnOp:
						if x.Op.String() == "*" {
							// load of a card-bearing field, or through a tainted address
							if fa, ok := x.X.(*ssa.FieldAddr); ok && fields[fieldKeyOf(fa.X, fa.Field)] {
								mark(x)
							}
							if isT(x.X) {
								mark(x)
							}
						} else if isT(x.X) {
							mark(x)
						}
					case *ssa.Field:
						if fields[fieldKeyOf(x.X, x.Field)] || isT(x.X) {
							mark(x)
						}
					case *ssa.FieldAddr:
						// address of a card-bearing field: loads handled above; the address of a field of
						// a tainted struct pointer is not itself tainted
					case *ssa.IndexAddr:
						if isT(x.X) {
							mark(x)
						}
					case *ssa.Index:
						if isT(x.X) {
							mark(x)
						}
					case *ssa.Lookup:
						if isT(x.X) || isT(x.Index) {
							mark(x)
						}
					case *ssa.Slice:
						if isT(x.X) {
							mark(x)
						}
					case *ssa.BinOp:
						if isT(x.X) || isT(x.Y) {
							// comparisons produce booleans: control, not data
							if _, isBool := x.Type().Underlying().(*types.Basic); isBool && x.Type().Underlying().(*types.Basic).Info()&types.IsBoolean != 0 {
								break
							}
							mark(x)
						}
					case *ssa.Convert:
						if isT(x.X) {
							mark(x)
						}
					case *ssa.ChangeType:
						if isT(x.X) {
							mark(x)
						}
					case *ssa.MakeInterface:
						if isT(x.X) {
							mark(x)
						}
					case *ssa.ChangeInterface:
						if isT(x.X) {
							mark(x)
						}
					case *ssa.TypeAssert:
						if isT(x.X) {
							mark(x)
						}
					case *ssa.Extract:
						if isT(x.Tuple) {
							mark(x)
						}
					case *ssa.Phi:
						for _, e := range x.Edges {
							if isT(e) {
								mark(x)
							}
						}
					case *ssa.Range:
						if isT(x.X) {
							mark(x)
						}
					case *ssa.Next:
						if isT(x.Iter) {
							mark(x)
						}
					case *ssa.MakeClosure:
						if f, ok := x.Fn.(*ssa.Function); ok {
							for i, bnd := range x.Bindings {
								if isT(bnd) && i < len(f.FreeVars) && !freeT[f.FreeVars[i]] {
									freeT[f.FreeVars[i]] = true
									changed = true
								}
							}
						}
					case *ssa.Store:
						if !isT(x.Val) {
							break
						}
						switch a := x.Addr.(type) {
						case *ssa.FieldAddr:
							k := fieldKeyOf(a.X, a.Field)
							if !fields[k] {
								fields[k] = true
								changed = true
							}
						case *ssa.IndexAddr:
							// element store: the container becomes tainted
							mark(a.X)
							if l, ok := a.X.(*ssa.UnOp); ok {
								if fa, ok := l.X.(*ssa.FieldAddr); ok {
									k := fieldKeyOf(fa.X, fa.Field)
									if !fields[k] {
										fields[k] = true
										changed = true
									}
								}
							}
						case *ssa.Alloc:
							mark(a)
						default:
							mark(x.Addr)
						}
					case *ssa.MapUpdate:
						if isT(x.Value) || isT(x.Key) {
							mark(x.Map)
						}
					case *ssa.Return:
						for _, r := range x.Results {
							if isT(r) && !retT[fn] {
								retT[fn] = true
								changed = true
							}
						}
					case *ssa.Call:
						cc := x.Common()
						if bi, ok := cc.Value.(*ssa.Builtin); ok {
							if bi.Name() == "append" || bi.Name() == "copy" {
								for _, a := range cc.Args {
									if isT(a) {
										mark(x)
										if bi.Name() == "copy" {
											mark(cc.Args[0])
										}
									}
								}
							}
							break
						}
						ts := ix.targets(fn, cc)
						var args []ssa.Value
						if cc.IsInvoke() {
							args = append(args, cc.Value)
						}
						args = append(args, cc.Args...)
						if len(ts) == 0 || (cc.StaticCallee() != nil && !inModule(cc.StaticCallee())) {
							// external: result tainted if any argument is
							for _, a := range args {
								if isT(a) {
									mark(x)
								}
							}
						}
						for _, t := range ts {
							if t.Blocks == nil {
								continue
							}
							if t == cc.StaticCallee() || cc.IsInvoke() {
								for i, a := range args {
									if isT(a) && i < len(t.Params) && !paramT[t.Params[i]] {
										paramT[t.Params[i]] = true
										changed = true
									}
								}
								if retT[t] {
									mark(x)
								}
							}
						}
					}
				}
			}
		}
	}
	return fields, iterations
}

// stateClosure walks the type graph from pokerface.GameState and returns the typed field
// keys reachable, with the key of the field's element struct type (if any).
type closureField struct {
	Key    string
	Target string // named struct type reached through this field (pointer/slice/map element), "" if scalar
	Owner  string
}

func stateClosure(p *Prog) []closureField {
	root := namedType(p, "pokerface", "GameState")
	if root == nil {
		return nil
	}
	var out []closureField
	seen := map[string]bool{}
	var walk func(t types.Type)
	elemStruct := func(t types.Type) (string, types.Type) {
		for i := 0; i < 6; i++ {
			switch x := t.(type) {
			case *types.Pointer:
				t = x.Elem()
				continue
			case *types.Slice:
				t = x.Elem()
				continue
			case *types.Array:
				t = x.Elem()
				continue
			case *types.Map:
				t = x.Elem()
				continue
			}
			break
		}
		if n, ok := t.(*types.Named); ok {
			if _, ok := n.Underlying().(*types.Struct); ok && n.Obj().Pkg() != nil && strings.HasPrefix(n.Obj().Pkg().Path(), modPath) {
				return shortPkg(n.Obj().Pkg().Path()) + "." + n.Obj().Name(), n
			}
		}
		return "", nil
	}
	walk = func(t types.Type) {
		name, nt := elemStruct(t)
		if nt == nil || seen[name] {
			return
		}
		seen[name] = true
		st := nt.Underlying().(*types.Struct)
		for i := 0; i < st.NumFields(); i++ {
			f := st.Field(i)
			// only what encoding/json serialises is part of a view
			if !f.Exported() || jsonName(st.Tag(i)) == "-" {
				continue
			}
			tn, tt := elemStruct(f.Type())
			out = append(out, closureField{Key: name + "." + f.Name(), Target: tn, Owner: name})
			if tt != nil {
				walk(tt)
			}
		}
	}
	walk(root)
	return out
}

func jsonName(tag string) string {
	i := strings.Index(tag, `json:"`)
	if i < 0 {
		return ""
	}
	rest := tag[i+6:]
	j := strings.Index(rest, `"`)
	if j < 0 {
		return ""
	}
	name := rest[:j]
	if k := strings.Index(name, ","); k >= 0 {
		name = name[:k]
	}
	return name
}

func runC15(c *Ctx) {
	p := c.P
	// ---- secret-set
	taint, iters := cardTaint(p)
	closure := stateClosure(p)
	inClosure := map[string]closureField{}
	for _, cf := range closure {
		inClosure[cf.Key] = cf
	}
	c.floor("secret-set", "serialised fields in GameState's type closure", len(closure), 30)
	cardBearing := map[string]bool{}
	for k := range taint {
		if _, ok := inClosure[k]; ok {
			cardBearing[k] = true
		}
	}
	// struct types holding a card-bearing field
	holds := map[string]bool{}
	for k := range cardBearing {
		holds[inClosure[k].Owner] = true
	}
	// secrets: card-bearing fields of Meta/Status/PlayerState level, and fields pointing to a type that holds card-bearing fields,
	// excluding the plumbing from GameState itself (Meta, Status, Players are containers that stay) and the public board.
	public := map[string]bool{"pokerface.Status.Board": true}
	containers := map[string]bool{"pokerface.GameState.Meta": true, "pokerface.GameState.Status": true, "pokerface.GameState.Players": true}
	tableSecrets := map[string]bool{}
	playerSecrets := map[string]bool{}
	for _, cf := range closure {
		if public[cf.Key] || containers[cf.Key] {
			continue
		}
		isSecret := cardBearing[cf.Key] || (cf.Target != "" && holds[cf.Target])
		if !isSecret {
			continue
		}
		switch cf.Owner {
		case "pokerface.Meta", "pokerface.Status":
			tableSecrets[cf.Key] = true
		case "pokerface.PlayerState":
			playerSecrets[cf.Key] = true
		case "pokerface.GameState":
			tableSecrets[cf.Key] = true
		default:
			// nested inside a secret object (CombinationInfo.*): covered by redacting the owner
		}
	}
	c.role("card-bearing fields (taint)", strings.Join(sortedSet(cardBearing), ","))
	c.role("table-level secrets", strings.Join(sortedSet(tableSecrets), ","))
	c.role("per-player secrets", strings.Join(sortedSet(playerSecrets), ","))
	c.Notes = append(c.Notes, fmt.Sprintf("taint fixpoint: %d iterations, %d tainted fields module-wide", iters, len(taint)))
	c.check(tableSecrets["pokerface.Meta.Deck"] && tableSecrets["pokerface.Status.Burned"] && playerSecrets["pokerface.PlayerState.HoleCards"] && playerSecrets["pokerface.PlayerState.Combination"] && cardBearing["pokerface.Status.Board"],
		"secret-set", "derivation", "-", "taint from Meta.Deck reaches deck, burned cards, board, hole cards and the hand evaluation",
		"the taint analysis no longer reaches the fields the property names: secret set "+strings.Join(sortedSet(tableSecrets), ",")+" / "+strings.Join(sortedSet(playerSecrets), ","))

	// terminal symbol
	ea := c.engine()
	eg := buildEventGraph(c, ea)
	terminalSym := ""
	if len(eg.EventTyp) > 0 {
		symT := p.ConstTable("pokerface", "GameEventSymbols")
		last := eg.EventTyp[len(eg.EventTyp)-1]
		for _, e := range symT.Entries {
			if e.Key != nil && e.Key.ExactString() == last.Val.ExactString() {
				terminalSym = cstr(e.Val)
			}
		}
	}

	for _, name := range []string{"AsPlayer", "AsObserver"} {
		fn := p.Func("pokerface", "GameState", name)
		if fn == nil {
			c.undecided("redaction", name, "-", "view function not found")
			continue
		}
		c.touch(fnKey(fn))
		viewer := ""
		if len(fn.Params) > 1 {
			viewer = "param:" + fn.Params[1].Name()
		}
		s := newSumm(p, 1)
		viewFn := fn
		// helpers are read where they are called, the ones that hold the loop over the players too
		// (their parameters stand for the arguments of the call: a seat to skip, a flag)
		s.HelperInline = func(f *ssa.Function) bool { return privateHelper(viewFn, f) }
		paths, cut := s.Function(fn)
		if cut != "" {
			c.undecided("redaction", fnKey(fn), p.FnPos(fn), "summary cut: "+cut)
			continue
		}
		// (4) closed-constant
		closedAtoms := map[string]bool{}
		for _, ps := range paths {
			for _, cd := range ps.Conds {
				if sym, ok := phaseGuardAtom(cd.V); ok {
					closedAtoms[sym] = true
				}
			}
		}
		for sym := range closedAtoms {
			c.check(sym == terminalSym && terminalSym != "", "closed-constant", fnKey(fn)+":"+sym, p.FnPos(fn), "the string compared with CurrentEvent is the terminal event's symbol", fmt.Sprintf("%q is compared with CurrentEvent, the terminal event's symbol is %q: cards would be revealed at the wrong time (or never)", sym, terminalSym))
		}
		// (2) table-level secrets on every path
		for sec := range tableSecrets {
			_, f := splitLoc(sec)
			var bad []string
			for _, ps := range paths {
				if ps.End != "return" {
					bad = append(bad, "path ends with "+ps.End)
					continue
				}
				okp := false
				for _, e := range ps.Events {
					if e.Kind == "store" && e.FKey == sec && strings.HasPrefix(e.Loc, "GS.") && isEmptyVal(e.Val) {
						okp = true
					}
				}
				if !okp {
					bad = append(bad, "path ["+ps.CondString()+"] returns without emptying "+f)
				}
			}
			c.check(len(bad) == 0, "redaction", fnKey(fn)+"#table:"+f, p.FnPos(fn), fmt.Sprintf("overwritten with a fresh empty value on all %d paths", len(paths)), "a table-level secret survives", uniq(bad, 3)...)
		}
		// per-player secrets
		// the body of a loop met on a path: for a loop of a helper, re-read with the arguments the
		// helper was entered with, infeasible rows (a flag parameter that is a constant) dropped
		var allBodies [][]*PathSum
		bodyOn := func(ps *PathSum, idx int) []*PathSum {
			e := ps.Events[idx]
			raw, _ := s.LoopBody(e.InFn, e.Loop)
			if e.InFn == fn {
				return raw
			}
			var en *Event
			for _, x := range ps.Events[:idx] {
				if x.Kind == "enter" && x.Fn == e.InFn {
					en = x
				}
			}
			if en == nil {
				return raw
			}
			m := map[string]*Val{}
			for i, prm := range e.InFn.Params {
				if i < len(en.Args) && en.Args[i] != nil && en.Args[i].String() != "param:"+prm.Name() {
					m["param:"+prm.Name()] = en.Args[i]
				}
			}
			var out []*PathSum
			for _, bp := range raw {
				np := instPath(bp, m)
				np = resolvePredicateParams(p, s, np, e.InFn, en, fn)
				feasible := true
				for _, cd := range np.Conds {
					if cd.V.K == KAtom && cd.V.At.Op == "b" {
						if (cd.V.At.L == "true" && cd.V.Neg) || (cd.V.At.L == "false" && !cd.V.Neg) {
							feasible = false
						}
					}
					if cd.V.K == KConst && ((cd.V.S == "true" && cd.V.Neg) || (cd.V.S == "false" && !cd.V.Neg)) {
						feasible = false
					}
				}
				if feasible {
					out = append(out, np)
				}
			}
			return out
		}
		seenBody := map[string]bool{}
		for _, ps := range paths {
			for i, e := range ps.Events {
				if e.Kind == "loop" {
					b := bodyOn(ps, i)
					key := fmt.Sprint(e.Loop.Header.Index, "@", fnKey(e.InFn), "/", len(b))
					for _, q := range b {
						key += "|" + q.CondString()
					}
					if !seenBody[key] {
						seenBody[key] = true
						allBodies = append(allBodies, b)
					}
				}
			}
		}
		for sec := range playerSecrets {
			_, f := splitLoc(sec)
			{
				var bad []string
				nPaths := 0
				isClosed := func(v *Val) bool { s2, ok := phaseGuardAtom(v); return ok && s2 == terminalSym && !v.Neg }
				for _, ps := range paths {
					nPaths++
					fnClosed := hasCond(ps, isClosed)
					// the player loops on this path
					var pl [][]*PathSum
					for i, e := range ps.Events {
						if e.Kind == "loop" {
							ri := analyseRange(e.Loop)
							if loadsField(ri.Coll, "pokerface.GameState.Players") {
								if !ri.Full || len(e.Loop.Exits) != 1 {
									bad = append(bad, "the loop over the players can stop early or skips elements")
								}
								pl = append(pl, bodyOn(ps, i))
							}
						}
					}
					if len(pl) == 0 {
						bad = append(bad, "path ["+ps.CondString()+"] does not visit the players at all")
						continue
					}
					// some loop on the path must redact on every body path (or be exempt)
					okLoop := false
					var why []string
					for _, lb := range pl {
						allBody := len(lb) > 0
						for _, bp := range lb {
							if bp.End != "continue" {
								allBody = false
								why = append(why, "body path ends with "+bp.End)
								continue
							}
							red := false
							for _, e := range bp.Events {
								if e.Kind == "store" && e.FKey == sec && isEmptyVal(e.Val) && strings.Contains(e.Loc, "GS.Players[") {
									red = true
								}
							}
							if red {
								continue
							}
							isViewer := viewer != "" && hasCond(bp, func(v *Val) bool {
								return v.K == KAtom && v.At.Op == "eq" && !v.Neg && strings.Contains(v.At.A.String(), ".Idx") && strings.Contains(v.At.A.String(), viewer)
							})
							notFolded := hasCond(bp, func(v *Val) bool {
								return v.K == KAtom && v.At.Op == "b" && v.Neg && strings.HasSuffix(v.At.L, ".Fold")
							})
							closed := fnClosed || hasCond(bp, isClosed)
							if isViewer || (closed && notFolded) {
								continue
							}
							allBody = false
							why = append(why, "body path ["+bp.CondString()+"] keeps "+f+" (function path ["+ps.CondString()+"])")
						}
						if allBody {
							okLoop = true
						}
					}
					if !okLoop {
						bad = append(bad, uniq(why, 2)...)
					}
				}
				c.check(len(bad) == 0 && nPaths > 0, "redaction", fnKey(fn)+"#player:"+f, p.FnPos(fn), fmt.Sprintf("emptied for every player except the viewer and, once the hand is closed, players who did not fold (%d function paths)", nPaths), "a per-player secret survives", uniq(bad, 3)...)
			}
		}
		// (3) write set ⊆ secret set; nothing written on the viewer's own path
		var badW []string
		fi := p.Index().Info[fn]
		for k := range fi.TWrites {
			if !tableSecrets[k] && !playerSecrets[k] {
				badW = append(badW, "writes "+k+" which is not a secret")
			}
		}
		for _, lb := range allBodies {
			for _, bp := range lb {
				isViewer := viewer != "" && hasCond(bp, func(v *Val) bool {
					return v.K == KAtom && v.At.Op == "eq" && !v.Neg && strings.Contains(v.At.A.String(), ".Idx") && strings.Contains(v.At.A.String(), viewer)
				})
				if isViewer {
					for _, e := range bp.Events {
						if e.Kind == "store" && !e.Fresh {
							badW = append(badW, "the viewer's own "+e.Loc+" is overwritten")
						}
					}
				}
				// and the other way round: a seat's secrets are wiped only once the seat is known not
				// to be the viewer's (in every phase, the closed one included)
				if viewer != "" {
					notViewer := hasCond(bp, func(v *Val) bool {
						return v.K == KAtom && v.At.Op == "eq" && v.Neg && strings.Contains(v.At.A.String(), ".Idx") && strings.Contains(v.At.A.String(), viewer)
					})
					if !notViewer && !isViewer {
						for _, e := range bp.Events {
							if e.Kind == "store" && !e.Fresh && playerSecrets[e.FKey] {
								badW = append(badW, "a seat's "+e.FKey+" is wiped without testing that it is not the viewer's own seat: ["+bp.CondString()+"]")
							}
						}
					}
				}
			}
		}
		c.check(len(badW) == 0, "public-untouched", fnKey(fn), p.FnPos(fn), "writes only secret fields, never on the viewer's own seat", "public information or the viewer's own cards are changed", uniq(badW, 4)...)
	}
	// obligations count for the floor: 2 functions x (2 table + 2 player x phases) etc.
	n := 0
	for _, o := range c.Obs {
		if o.Rule == "redaction" {
			n++
		}
	}
	c.floor("redaction", "redaction obligations", n, 6)
	_ = sort.Strings
}

// isEmptyVal: a fresh empty slice, or nil.
func isEmptyVal(v *Val) bool {
	if v.Op == "list" && len(v.Args) == 0 {
		return true
	}
	if v.K == KConst && v.S == "nil" {
		return true
	}
	if v.Op == "makeslice" && len(v.Args) == 1 && v.Args[0].String() == "0" {
		return true
	}
	return false
}

// resolvePredicateParams: a body row of helper h may branch on a predicate it was handed as a
// function value (isViewer(p)). When the argument at the call en is a closure of view whose single
// path returns a comparison or a constant, the branch is re-read as that comparison, the closure's
// parameter standing for the predicate's argument and a captured variable of view for view's
// parameter of the same name.
func resolvePredicateParams(p *Prog, s *Summ, row *PathSum, h *ssa.Function, en *Event, view *ssa.Function) *PathSum {
	call, ok := en.Instr.(ssa.CallInstruction)
	if !ok {
		return row
	}
	args := call.Common().Args
	changed := false
	np := *row
	np.Conds = append([]Cond(nil), row.Conds...)
	for ci, cd := range np.Conds {
		if cd.V.K != KAtom || cd.V.At.Op != "b" || !strings.HasPrefix(cd.V.At.L, "dynamic:") {
			continue
		}
		rest := strings.TrimPrefix(cd.V.At.L, "dynamic:")
		open := strings.Index(rest, "(")
		if open < 0 || !strings.HasSuffix(rest, ")") {
			continue
		}
		name, arg := rest[:open], rest[open+1:len(rest)-1]
		var clo *ssa.MakeClosure
		var plain *ssa.Function
		for i, prm := range h.Params {
			if prm.Name() == name && i < len(args) {
				switch x := args[i].(type) {
				case *ssa.MakeClosure:
					clo = x
				case *ssa.Function:
					plain = x
				}
			}
		}
		var cf *ssa.Function
		if clo != nil {
			cf, _ = clo.Fn.(*ssa.Function)
		} else {
			cf = plain
		}
		if cf == nil || len(cf.Params) != 1 || len(cf.Blocks) == 0 {
			continue
		}
		cs := newSumm(p, 0)
		cp, cut := cs.Function(cf)
		if cut != "" || len(cp) != 1 || len(cp[0].Ret) != 1 || len(cp[0].Events) != 0 {
			continue
		}
		rv := cp[0].Ret[0]
		m := map[string]*Val{"param:" + cf.Params[0].Name(): vAff(affTerm(arg))}
		for _, fv := range cf.FreeVars {
			for _, vp := range view.Params {
				if vp.Name() == fv.Name() {
					m["free:"+fv.Name()] = vAff(affTerm("param:" + vp.Name()))
				}
			}
		}
		var nv *Val
		switch {
		case rv.K == KConst && (rv.S == "true" || rv.S == "false"):
			c2 := *rv
			nv = &c2
		case rv.K == KAtom:
			nv = substVal(rv, m)
			c2 := *nv
			nv = &c2
		default:
			continue
		}
		if cd.V.Neg {
			nv.Neg = !nv.Neg
		}
		np.Conds[ci].V = nv
		changed = true
	}
	if !changed {
		return row
	}
	return &np
}
