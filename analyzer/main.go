package main

import (
	"bytes"
	"encoding/json"
	"flag"
	"fmt"
	"os"
	"os/exec"
	"path/filepath"
	"runtime/debug"
	"sort"
	"strconv"
	"strings"
	"time"
)

type propDef struct {
	ID          string
	Level       string
	Run         func(c *Ctx)
	Explanation string
	Trusted     []string
	Assumptions []string
	NotCovered  string
}

var props = map[string]*propDef{}

func register(pd *propDef) { props[pd.ID] = pd }

var commonTrusted = []string{
	"Go type checker and go/ssa construction (golang.org/x/tools v0.29.0)",
	"the analyzer's transfer functions and rule tables (/verif/analyzer)",
	"heap abstraction by (named struct type, field); no unsafe/reflect in engine packages (checked)",
}

func main() {
	prop := flag.String("prop", "", "property id (C01..C20)")
	tier := flag.String("tier", os.Getenv("VERIF_TIER"), "quick|thorough")
	repo := flag.String("repo", "/repo", "repository to analyse")
	verif := flag.String("verif", "", "verif dir (default: parent of the binary's dir, or /verif)")
	explain := flag.String("explain", "", "report file: re-run that obligation and print the diagnosis")
	dump := flag.String("dump", "", "debug: dump path summaries of pkg.(Recv).Name")
	dumpDepth := flag.Int("depth", 2, "inlining depth for -dump")
	list := flag.Bool("list", false, "list properties")
	flag.Parse()
	debug.SetGCPercent(800)

	if *tier == "" {
		*tier = "quick"
	}
	vdir := *verif
	if vdir == "" {
		if exe, err := os.Executable(); err == nil {
			d := filepath.Dir(filepath.Dir(exe))
			if _, err := os.Stat(filepath.Join(d, "properties.jsonl")); err == nil {
				vdir = d
			}
		}
		if vdir == "" {
			vdir = "/verif"
		}
	}
	if *list {
		var ids []string
		for id := range props {
			ids = append(ids, id)
		}
		sort.Strings(ids)
		for _, id := range ids {
			fmt.Println(id, props[id].Level)
		}
		return
	}
	if *explain != "" {
		os.Exit(doExplain(*explain, *repo, vdir))
	}
	if *dump != "" {
		p, err := loadProg(loadOpts{dir: *repo})
		if err != nil {
			fmt.Fprintln(os.Stderr, err)
			os.Exit(2)
		}
		doDump(p, *dump, *dumpDepth)
		return
	}
	pd := props[*prop]
	if pd == nil {
		fmt.Fprintf(os.Stderr, "unknown property %q\n", *prop)
		os.Exit(2)
	}
	// The verdict is produced by a child process: a fatal runtime error (stack exhaustion, out of
	// memory) or a tree that does not load cannot be recovered from inside, and must still end in
	// a verdict (undecided = the property is not shown to hold), never in a silent crash.
	if os.Getenv("PFVERIFY_CHILD") == "" {
		os.Exit(supervise(pd, *tier, vdir))
	}
	os.Exit(runProp(pd, *tier, *repo, vdir))
}

func supervise(pd *propDef, tier, vdir string) int {
	start := time.Now()
	exe, err := os.Executable()
	if err != nil {
		exe = os.Args[0]
	}
	cmd := exec.Command(exe, os.Args[1:]...)
	cmd.Env = append(os.Environ(), "PFVERIFY_CHILD=1")
	cmd.Stdout = os.Stdout
	var errBuf bytes.Buffer
	cmd.Stderr = &errBuf
	runErr := cmd.Run()
	code := 0
	if runErr != nil {
		code = -1
		if ee, ok := runErr.(*exec.ExitError); ok {
			code = ee.ExitCode()
		}
	}
	tail := errBuf.String()
	if code == 0 || code == 1 {
		os.Stderr.WriteString(tail)
		return code
	}
	// keep the head of the diagnostics (a Go crash dump is long)
	lines := strings.Split(tail, "\n")
	if len(lines) > 12 {
		lines = lines[:12]
	}
	for _, l := range lines {
		fmt.Fprintln(os.Stderr, l)
	}
	c := newCtx(nil, pd.ID, tier)
	c.undecided("meta", "analysis-did-not-complete", "-", fmt.Sprintf("the analysis process ended with status %d without a verdict (the tree does not load, or the analyzer crashed); the property is undecided on this tree", code), lines...)
	return c.finish(vdir, pd.Level, seedFromEnv(), time.Since(start).Seconds(), pd, map[string]interface{}{})
}

func seedFromEnv() int64 {
	if s := os.Getenv("VERIF_SEED"); s != "" {
		if v, err := strconv.ParseInt(s, 10, 64); err == nil {
			return v
		}
	}
	return 0
}

func runProp(pd *propDef, tier, repo, vdir string) (code int) {
	start := time.Now()
	defer func() {
		if r := recover(); r != nil {
			fmt.Fprintf(os.Stderr, "pfverify: internal error while checking %s: %v\n%s\n", pd.ID, r, debug.Stack())
			code = 2
		}
	}()
	p, err := loadProg(loadOpts{dir: repo})
	if err != nil {
		fmt.Fprintf(os.Stderr, "pfverify: cannot analyse %s: %v\n", repo, err)
		return 2
	}
	c := newCtx(p, pd.ID, tier)
	func() {
		// an analysis that trips over an unexpected code shape must fail the property (undecided),
		// with a report, rather than crash without a verdict
		defer func() {
			if r := recover(); r != nil {
				st := strings.Split(string(debug.Stack()), "\n")
				var where []string
				for _, l := range st {
					if strings.Contains(l, "/analyzer/") && !strings.Contains(l, "main.go") {
						where = append(where, strings.TrimSpace(l))
					}
				}
				if len(where) > 4 {
					where = where[:4]
				}
				c.undecided("meta", "internal-error", "-", fmt.Sprintf("the analysis met a code shape it cannot follow (%v); the property is undecided on this tree", r), where...)
			}
		}()
		pd.Run(c)
	}()
	extra := map[string]interface{}{}
	if tier == "thorough" {
		runThorough(pd, c, repo, vdir, extra)
	}
	if len(c.Obs) == 0 {
		c.undecided("meta", "no-obligations", "-", "no rule produced an obligation")
	}
	return c.finish(vdir, pd.Level, seedFromEnv(), time.Since(start).Seconds(), pd, extra)
}

func doExplain(path, repo, vdir string) int {
	b, err := os.ReadFile(path)
	if err != nil {
		fmt.Fprintln(os.Stderr, err)
		return 2
	}
	var r report
	if err := json.Unmarshal(b, &r); err != nil {
		fmt.Fprintln(os.Stderr, err)
		return 2
	}
	pd := props[r.Property]
	if pd == nil {
		fmt.Fprintf(os.Stderr, "unknown property %q in report\n", r.Property)
		return 2
	}
	p, err := loadProg(loadOpts{dir: repo})
	if err != nil {
		fmt.Fprintln(os.Stderr, err)
		return 2
	}
	c := newCtx(p, pd.ID, r.Tier)
	pd.Run(c)
	found := false
	for _, o := range c.Obs {
		if o.Key == r.Obligation.Key {
			found = true
			fmt.Printf("obligation %s\n  rule:    %s\n  status:  %s (was %s in the report)\n  at:      %s\n  reason:  %s\n", o.Key, o.Rule, o.Status, r.Obligation.Status, o.Pos, o.Reason)
			for _, d := range o.Detail {
				fmt.Println("     ", d)
			}
			if o.Status != Discharged {
				fmt.Printf("VIOLATION property=%s replay=%s\n", pd.ID, path)
				return 1
			}
		}
	}
	if !found {
		fmt.Printf("obligation %s no longer exists on the current tree\n", r.Obligation.Key)
	}
	return 0
}

func doDump(p *Prog, name string, depth int) {
	s := newSumm(p, depth)
	for _, fn := range p.Funcs {
		if fnKey(fn) != name && fn.Name() != name {
			continue
		}
		fmt.Printf("== %s (%s)\n", fnKey(fn), p.FnPos(fn))
		paths, cut := s.Function(fn)
		for _, l := range dumpPaths(paths) {
			fmt.Println(l)
		}
		if cut != "" {
			fmt.Println("CUT:", cut)
		}
		for _, l := range s.loops(fn) {
			ri := analyseRange(l)
			fmt.Printf("-- loop@%d kind=%s full=%v exits=%d\n", l.Header.Index, ri.Kind, ri.Full, len(l.Exits))
			bp, cut := s.LoopBody(fn, l)
			for _, ln := range dumpPaths(bp) {
				fmt.Println("   ", ln)
			}
			if cut != "" {
				fmt.Println("   CUT:", cut)
			}
		}
		fi := p.Index().Info[fn]
		fmt.Println("-- twrites:", strings.Join(sortedSet(fi.TWrites), " "))
	}
}
