package main

import (
	"fmt"
	"go/token"
	"sort"
	"strings"

	"golang.org/x/tools/go/ssa"
)

func init() {
	register(&propDef{
		ID: "C18", Level: "other", Run: withShared(runC18, share{"C08", runC08, func(_ *Ctx, o *Obligation) bool {
			// the heads-up shortcut taken exactly when two can play is what keeps the second blind
			// search from failing (its -1 would index a slice)
			return o.Rule == "positions-from-search" && strings.HasSuffix(o.Key, "#store-sb")
		}}),
		Explanation: "Lock typestate of the seat manager: every exported method whose transitive access set writes Seat.{Player,IsActive,IsReserved} or the seat map acquires mu.Lock() before anything else and releases by defer, readers acquire RLock or Lock, unexported methods touching that state are called only from holders, a holder never calls an exported locking method of the same object (self-deadlock), and nothing outside the package stores the three fields. Join's effects come after the range test; join stores a player only under Player == nil, refuses otherwise without effect, and marks the seat reserved on every path that seats somebody; leave frees exactly the seat it looked up; 'any seat' draws from seats that are empty and not reserved and reports no-seat exactly when both lists are empty. Every result of a sentinel-returning helper (nil / -1) is tested before it reaches a field access, slice bound or index, or one of two re-verified idioms applies (all callers validated the argument; a dominating playable-count test that implies the search succeeds); dereferences of the nil-able dealer/sb/bb fields are dominated by a nil test or by the checked result of the dealer search. Does NOT decide seated = joins - leaves over histories, nor panics via ApplyStates/SetDealer with foreign input.",
		Trusted:     commonTrusted,
		Assumptions: []string{"the seat map holds a seat for every id in [0,max) (established by Reset in the constructor)", "count and search use the same playable predicate (C08/playable-agreement)", "operations on one SeatManager inside one critical section do not interleave (that is what the lock rule establishes)"},
		NotCovered:  "history properties (seated = joins - leaves); panics through ApplyStates/SetDealer/SetSmallBlind/SetBigBlind with foreign input; unlocked reads of the position pointers by getters",
	})
}

const smPkg = "seat_manager"

var guardedSeatFields = map[string]bool{"seat_manager.Seat.Player": true, "seat_manager.Seat.IsActive": true, "seat_manager.Seat.IsReserved": true}

// guardedAccess: direct accesses of fn to guarded state: writes / reads.
func guardedAccess(ix *Index, fn *ssa.Function) (writes, reads bool) {
	fi := ix.Info[fn]
	if fi == nil {
		return
	}
	for _, w := range fi.Writes {
		if guardedSeatFields[w.Key] && !w.Fresh {
			writes = true
		}
		if w.Key == "map:map[int]*seat_manager.Seat" && !w.Fresh {
			writes = true
		}
	}
	for _, r := range fi.Reads {
		if guardedSeatFields[r.Key] {
			reads = true
		}
	}
	return
}

func runC18(c *Ctx) {
	p := c.P
	ix := p.Index()
	methods := p.MethodsOf(smPkg, "SeatManager")
	c.floor("lock-discipline", "SeatManager methods", len(methods), 15)
	isMethod := map[*ssa.Function]bool{}
	for _, m := range methods {
		isMethod[m] = true
	}
	// plain package-level helpers (a predicate over a *Seat, say) count like unexported methods:
	// they touch the guarded fields on behalf of whoever calls them
	units := append([]*ssa.Function{}, methods...)
	inUnits := map[*ssa.Function]bool{}
	for _, m := range methods {
		inUnits[m] = true
	}
	for _, fn := range p.Funcs {
		// (methods of other types of the package - a predicate on *Seat - included)
		if fn.Pkg != nil && shortPkg(fn.Pkg.Pkg.Path()) == smPkg && fn.Parent() == nil && fn.Blocks != nil &&
			!token.IsExported(fn.Name()) && fn.Name() != "init" && ix.Info[fn] != nil && !inUnits[fn] {
			units = append(units, fn)
			inUnits[fn] = true
		}
	}
	sort.Slice(units[len(methods):], func(i, j int) bool { return units[len(methods)+i].Name() < units[len(methods)+j].Name() })
	// transitive (within the package) guarded access
	tw, tr := map[*ssa.Function]bool{}, map[*ssa.Function]bool{}
	for _, m := range units {
		w, r := guardedAccess(ix, m)
		tw[m], tr[m] = w, r
	}
	changed := true
	for changed {
		changed = false
		for _, m := range units {
			for _, cc := range ix.Info[m].Calls {
				if f := cc.StaticCallee(); f != nil && inUnits[f] {
					if tw[f] && !tw[m] {
						tw[m] = true
						changed = true
					}
					if tr[f] && !tr[m] {
						tr[m] = true
						changed = true
					}
				}
			}
		}
	}
	holders := map[*ssa.Function]string{}
	nLocked := 0
	for _, m := range methods {
		c.touch(fnKey(m))
		exported := token.IsExported(m.Name())
		li := lockState(m, "mu")
		if li.Kind != "" {
			holders[m] = li.Kind
		}
		if !exported {
			continue
		}
		switch {
		case tw[m]:
			nLocked++
			ok := li.Kind == "Lock" && li.Deferred && li.First
			why := ""
			switch {
			case li.Kind == "":
				why = "writes seat state without acquiring the mutex: concurrent calls race"
			case li.Kind == "RLock":
				why = "writes seat state under a read lock"
			case !li.Deferred:
				why = "no deferred unlock: a panic or early return leaves the mutex held"
			case !li.First:
				why = "touches state before acquiring the mutex"
			}
			c.check(ok, "lock-discipline", fnKey(m)+"#writer", p.FnPos(m), "mu.Lock() first, released by defer", why)
		case tr[m]:
			nLocked++
			ok := li.Kind != "" && li.Deferred && li.First
			why := "reads seat flags without holding the mutex"
			if li.Kind != "" && !li.Deferred {
				why = "no deferred unlock"
			} else if li.Kind != "" && !li.First {
				why = "touches state before acquiring the mutex"
			}
			c.check(ok, "lock-discipline", fnKey(m)+"#reader", p.FnPos(m), "holds "+li.Kind+" for its whole body", why)
		}
	}
	c.floor("lock-discipline", "exported methods touching guarded state", nLocked, 8)
	// unexported methods touching guarded state: every in-package caller holds or is covered
	covered := map[*ssa.Function]bool{}
	for m := range holders {
		covered[m] = true
	}
	// constructors: functions that create the SeatManager (object not yet published)
	for _, fn := range p.Funcs {
		if fn.Pkg != nil && shortPkg(fn.Pkg.Pkg.Path()) == smPkg && fn.Signature.Recv() == nil && strings.HasPrefix(fn.Name(), "New") {
			covered[fn] = true
		}
	}
	changed = true
	for changed {
		changed = false
		for _, m := range units {
			if covered[m] || token.IsExported(m.Name()) {
				continue
			}
			callers := ix.Callers(m)
			if len(callers) == 0 {
				// an unexported helper nobody calls never runs: it holds no access of its own
				// and taints none of the helpers it would call
				covered[m] = true
				changed = true
				continue
			}
			all := true
			for _, cl := range callers {
				if !covered[cl] {
					all = false
				}
			}
			if all {
				covered[m] = true
				changed = true
			}
		}
	}
	for _, m := range units {
		if token.IsExported(m.Name()) {
			continue
		}
		w, r := guardedAccess(ix, m)
		if !w && !r {
			continue
		}
		callers := ix.Callers(m)
		if len(callers) == 0 {
			c.ok("lock-discipline", fnKey(m)+"#covered", p.FnPos(m), "unused helper")
			continue
		}
		var bad []string
		for _, cl := range callers {
			if !covered[cl] {
				bad = append(bad, fnKey(cl))
			}
		}
		c.check(len(bad) == 0, "lock-discipline", fnKey(m)+"#covered", p.FnPos(m), "called only while the mutex is held", "touches seat flags and is called without the mutex from "+strings.Join(bad, ","))
	}
	// self-deadlock: a holder calls an exported locking method of the same receiver
	{
		var bad []string
		for _, m := range methods {
			if !covered[m] {
				continue
			}
			for _, cc := range ix.Info[m].Calls {
				f := cc.StaticCallee()
				if f == nil || !isMethod[f] || len(cc.Args) == 0 {
					continue
				}
				if _, locks := holders[f]; locks && cc.Args[0] == ssa.Value(m.Params[0]) {
					bad = append(bad, fnKey(m)+" calls "+f.Name()+" while holding the mutex (sync.RWMutex is not re-entrant)")
				}
			}
		}
		c.check(len(bad) == 0, "lock-discipline", "no-reentry", "-", "no holder calls a locking method of the same manager", "self-deadlock", uniq(bad, 3)...)
	}
	// nothing outside the package stores the three fields
	{
		var bad []string
		for k := range guardedSeatFields {
			for _, w := range ix.Writers(k) {
				if w.Pkg == nil || shortPkg(w.Pkg.Pkg.Path()) != smPkg {
					bad = append(bad, fnKey(w)+" stores "+k)
				}
			}
		}
		c.check(len(bad) == 0, "lock-discipline", "fields-private-to-package", "-", "Seat.{Player,IsActive,IsReserved} are stored only inside package seat_manager", "seat flags are written outside the lock's reach", uniq(bad, 3)...)
	}

	runC18JoinGuards(c)
	runC18PlayerCount(c)
	runSentinels(c, "sentinels")
}

func runC18JoinGuards(c *Ctx) {
	p := c.P
	newS := func(d int) *Summ {
		s := newSumm(p, d)
		s.EngineAliases = false
		return s
	}
	// Join: range test first
	if fn := p.Func(smPkg, "SeatManager", "Join"); fn == nil {
		c.undecided("join-guards", "Join", "-", "not found")
	} else {
		c.touch(fnKey(fn))
		s := newS(0)
		s.HelperInline = smHelperFilterLoose(p, fn)
		paths, _ := s.Function(fn)
		id := "param:" + fn.Params[1].Name()
		var viol []string
		n := 0
		// grid: for every path with an effect (a call of join), the id passed is in [0,max) when it is the parameter
		for _, ps := range paths {
			joins := ps.Calls(".join")
			if len(joins) == 0 {
				if eff := c.pathEffects(ps); len(eff) > 0 {
					// lock/unlock are pure externals; anything else here is unexpected
					viol = append(viol, "effect without joining: "+eff[0])
				}
				continue
			}
			n++
			arg := joins[0].Args[1]
			if arg.String() != id {
				// drawn from the available-seat lists
				if !strings.Contains(arg.String(), "getAvailableSeats(") {
					viol = append(viol, "joins seat "+arg.String()+", neither the requested id nor one of the available seats")
				}
				continue
			}
			ints, bools := tableVars([]*PathSum{ps})
			enumGridR(ints, func(name string) (int64, int64) {
				if name == id {
					return -4, 7
				}
				return 1, 4
			}, bools, nil, func(a Asg) bool {
				holds, ok := evalPath(ps, a)
				if !ok || !holds {
					return true
				}
				if a.I[id] < 0 || a.I[id] >= a.I["recv.max"] {
					if len(viol) < 3 {
						viol = append(viol, fmt.Sprintf("seat id %d is joined with max=%d: out of range", a.I[id], a.I["recv.max"]))
					}
				}
				return true
			})
		}
		c.check(len(viol) == 0 && n >= 3, "join-guards", fnKey(fn)+"#range", p.FnPos(fn), "a requested seat is joined only when 0 <= id < max; otherwise the id comes from the available seats", "Join can touch a seat outside the table", uniq(viol, 3)...)
		// ErrNoAvailableSeat exactly when both lists are empty; a seat is drawn from a list only when
		// that list is non-empty. Decided on a grid over the two list lengths, so the tests may be
		// written in any form (len == 0, len > 0, a pool chosen first, ...)
		var bad []string
		for _, ps := range paths {
			noSeat := false
			if len(ps.Ret) == 2 {
				if name, ok := c.sentinelError(ps.Ret[1]); ok && strings.HasSuffix(name, "ErrNoAvailableSeat") {
					noSeat = true
				}
			}
			drawn := ""
			if js := ps.Calls(".join"); len(js) > 0 && strings.Contains(js[0].Args[1].String(), "getAvailableSeats(") {
				drawn = "#0"
				if strings.Contains(js[0].Args[1].String(), "getAvailableSeats(recv)#1") {
					drawn = "#1"
				}
			}
			if !noSeat && drawn == "" {
				continue
			}
			ints, bools := tableVars([]*PathSum{ps})
			var l0, l1 string
			for _, t := range ints {
				if strings.HasPrefix(t, "len(") && strings.Contains(t, "getAvailableSeats(recv)#0") {
					l0 = t
				}
				if strings.HasPrefix(t, "len(") && strings.Contains(t, "getAvailableSeats(recv)#1") {
					l1 = t
				}
			}
			feasible := false
			enumGridR(ints, func(name string) (int64, int64) {
				if strings.HasPrefix(name, "len(") {
					return 0, 2
				}
				return -2, 3
			}, bools, nil, func(a Asg) bool {
				holds, ok := evalPath(ps, a)
				if !ok || !holds {
					return true
				}
				feasible = true
				if noSeat && (l0 == "" || l1 == "") {
					bad = append(bad, "no-seat error on path ["+ps.CondString()+"] without looking at both lists")
					return false
				}
				if noSeat && (a.I[l0] != 0 || a.I[l1] != 0) {
					bad = append(bad, fmt.Sprintf("no-seat error although the lists hold %d and %d seats", a.I[l0], a.I[l1]))
					return false
				}
				if drawn == "#0" && (l0 == "" || a.I[l0] < 1) || drawn == "#1" && (l1 == "" || a.I[l1] < 1) {
					bad = append(bad, "a seat is drawn from a list that may be empty")
					return false
				}
				return true
			})
			if !feasible && noSeat {
				// not decided on the grid: say so rather than pass
				c.Notes = append(c.Notes, "join-guards: a no-seat path was not feasible on the grid: ["+ps.CondString()+"]")
			}
		}
		// a random pick never asks for a number below one: rand.Intn(n) panics for n <= 0, so on every
		// path the argument is positive for all list lengths the path allows
		{
			var badR []string
			nPick := 0
			for _, ps := range paths {
				for _, e := range ps.Events {
					if e.Kind != "call" || e.Callee != "math/rand.Intn" || len(e.Args) != 1 {
						continue
					}
					nPick++
					arg := e.Args[0].asAff()
					ints, bools := tableVars([]*PathSum{ps})
					have := map[string]bool{}
					for _, t := range ints {
						have[t] = true
					}
					for t := range arg.T {
						if !have[t] {
							ints = append(ints, t)
						}
					}
					enumGridR(ints, func(name string) (int64, int64) {
						if strings.HasPrefix(name, "len(") {
							return 0, 3
						}
						return -2, 3
					}, bools, nil, func(a Asg) bool {
						holds, ok := evalPath(ps, a)
						if !ok || !holds {
							return true
						}
						if v, ok := evalAff(arg, a); !ok || v <= 0 {
							badR = append(badR, fmt.Sprintf("rand.Intn is asked for %s = %d on path [%s]: it panics", e.Args[0], v, ps.CondString()))
							return false
						}
						return true
					})
				}
			}
			c.check(len(badR) == 0, "join-guards", fnKey(fn)+"#random-pick", p.FnPos(fn), fmt.Sprintf("%d random pick(s), each over at least two candidates", nPick), "a random seat pick can panic", uniq(badR, 2)...)
		}
		c.check(len(bad) == 0, "join-guards", fnKey(fn)+"#no-seat", p.FnPos(fn), "no-available-seat is reported only when both lists are empty", "no-seat error reported wrongly", uniq(bad, 3)...)
	}
	// join
	if fn := p.Func(smPkg, "SeatManager", "join"); fn == nil {
		c.undecided("join-guards", "join", "-", "not found")
	} else {
		c.touch(fnKey(fn))
		s := newS(0)
		paths, _ := s.Function(fn)
		var bad []string
		nSeat := 0
		for _, ps := range paths {
			var pl, rs *Event
			for _, e := range ps.Events {
				if e.Kind == "store" && e.FKey == "seat_manager.Seat.Player" {
					pl = e
				}
				if e.Kind == "store" && e.FKey == "seat_manager.Seat.IsReserved" {
					rs = e
				}
			}
			if pl == nil {
				// refusing path: error and no effect
				if eff := c.pathEffects(ps); len(eff) > 0 {
					bad = append(bad, "refusal after effect "+eff[0])
				}
				if len(ps.Ret) == 2 {
					if _, ok := c.sentinelError(ps.Ret[1]); !ok {
						bad = append(bad, "a path neither seats the player nor returns an error")
					}
				}
				continue
			}
			nSeat++
			base, _ := splitLoc(pl.Loc)
			empty := hasCond(ps, func(v *Val) bool {
				return v.K == KAtom && v.At.Op == "is" && !v.Neg && strings.Contains(v.At.String(), base+".Player") && strings.Contains(v.At.String(), "nil")
			})
			if !empty {
				bad = append(bad, "a player is stored into a seat without testing that it is empty: double booking")
			}
			if pl.Val.String() != "param:"+fn.Params[2].Name() {
				bad = append(bad, "the seat receives "+pl.Val.String()+", not the joining player")
			}
			if rs == nil || rs.Val.String() != "true" || !strings.HasPrefix(rs.Loc, base+".") {
				bad = append(bad, "the seat is not marked reserved when a player joins: they would be dealt in before sitting in")
			}
			if len(ps.Ret) == 2 && ps.Ret[0].asAff().String() != base+".ID" {
				bad = append(bad, "returns seat "+ps.Ret[0].String()+", not the id of the seat taken")
			}
		}
		c.check(len(bad) == 0 && nSeat > 0, "join-guards", fnKey(fn), p.FnPos(fn), "seats a player only in an empty seat, marks it reserved, refuses otherwise without effect", "join guard broken", uniq(bad, 4)...)
	}
	// leave
	if fn := p.Func(smPkg, "SeatManager", "leave"); fn == nil {
		c.undecided("join-guards", "leave", "-", "not found")
	} else {
		c.touch(fnKey(fn))
		s := newS(0)
		paths, _ := s.Function(fn)
		var bad []string
		nFree := 0
		for _, ps := range paths {
			var pl, rs *Event
			for _, e := range ps.Events {
				if e.Kind == "store" && e.FKey == "seat_manager.Seat.Player" {
					pl = e
				}
				if e.Kind == "store" && e.FKey == "seat_manager.Seat.IsReserved" {
					rs = e
				}
			}
			if pl == nil && rs == nil {
				if eff := c.pathEffects(ps); len(eff) > 0 {
					bad = append(bad, "refusal after effect "+eff[0])
				}
				continue
			}
			nFree++
			if pl == nil || pl.Val.String() != "nil" || rs == nil || rs.Val.String() != "false" {
				bad = append(bad, "leaving does not clear both the player and the reservation")
				continue
			}
			b1, _ := splitLoc(pl.Loc)
			b2, _ := splitLoc(rs.Loc)
			if b1 != b2 || !strings.Contains(b1, "getSeat(recv, param:"+fn.Params[1].Name()+")") {
				bad = append(bad, "the seat freed ("+b1+") is not the seat looked up for the given id")
			}
		}
		c.check(len(bad) == 0 && nFree > 0, "join-guards", fnKey(fn), p.FnPos(fn), "frees exactly the seat with the given id", "leave frees the wrong seat", uniq(bad, 3)...)
	}
	// getAvailableSeats predicate
	if fn := p.Func(smPkg, "SeatManager", "getAvailableSeats"); fn == nil {
		c.undecided("join-guards", "getAvailableSeats", "-", "not found")
	} else {
		c.touch(fnKey(fn))
		s := newS(0)
		s.HelperInline = purePredicate(p, fn) // the vacancy test may be shared through a helper
		var bad []string
		found := false
		for _, l := range s.loops(fn) {
			ri := analyseRange(l)
			if ri.Kind != "map" {
				continue
			}
			found = true
			body, _ := s.LoopBody(fn, l)
			ints, bools := tableVars(body)
			_ = ints
			var bRes, bPl string
			for _, b := range bools {
				if strings.HasSuffix(b, ".IsReserved") {
					bRes = b
				}
				if strings.Contains(b, ".Player") {
					bPl = b
				}
			}
			enumGrid(nil, 0, 0, bools, nil, func(a Asg) bool {
				row, err := selectPath(body, a)
				if err != "" {
					bad = append(bad, "self-check: "+err)
					return false
				}
				offered := false
				for k, v := range row.Store {
					if strings.HasPrefix(k, "backedge:") && v.Op == "append" {
						offered = true
						if !strings.HasSuffix(v.Args[len(v.Args)-1].String(), ".ID)") {
							bad = append(bad, "the value offered is not the seat's own ID")
						}
					}
				}
				want := !a.B[bRes] && a.B[bPl] // Player == nil atom is "nil == x.Player"
				if bRes == "" || bPl == "" {
					bad = append(bad, "the predicate does not test both IsReserved and Player")
					return false
				}
				if offered != want {
					bad = append(bad, fmt.Sprintf("a seat with reserved=%v empty=%v is offered=%v", a.B[bRes], a.B[bPl], offered))
				}
				return true
			})
		}
		if !found {
			bad = append(bad, "no loop over the seat map")
		}
		c.check(len(bad) == 0, "join-guards", fnKey(fn), p.FnPos(fn), "offers exactly the seats that are empty and not reserved, by their own ID", "available-seat predicate wrong", uniq(bad, 3)...)
	}
}

// smHelperFilter: package-private, loop-free helpers of the seat manager are analysed where they
// are used, except the role anchors the rules look for as call events (the function that
// seats a player, the lookup, the list/count/search helpers behind the exported getters).
func smHelperFilter(p *Prog, owner *ssa.Function) func(*ssa.Function) bool {
	ix := p.Index()
	anchors := map[*ssa.Function]bool{}
	for _, fn := range p.MethodsOf(smPkg, "SeatManager") {
		fi := ix.Info[fn]
		if fi == nil {
			continue
		}
		for _, w := range fi.Writes {
			if guardedSeatFields[w.Key] || strings.HasPrefix(w.Key, "seat_manager.SeatManager.") {
				anchors[fn] = true // writes seat flags or position fields directly
			}
		}
		if len(findLoops(fn)) > 0 {
			anchors[fn] = true
		}
	}
	for _, sr := range findSentinels(p, smPkg) {
		anchors[sr.Fn] = true
	}
	return func(f *ssa.Function) bool {
		return privateHelper(owner, f) && !anchors[f]
	}
}

// runSentinels: C18/sentinels (also reported under C17/refusal for the dealer/blind search).
func runSentinels(c *Ctx, rule string) {
	p := c.P
	ix := p.Index()
	sents := findSentinels(p, smPkg)
	byFn := map[*ssa.Function][]sentinelRes{}
	for _, s := range sents {
		byFn[s.Fn] = append(byFn[s.Fn], s)
	}
	var names []string
	for f := range byFn {
		names = append(names, f.Name())
	}
	sort.Strings(names)
	c.role("sentinel-returning helpers", strings.Join(names, ","))
	c.floor(rule, "sentinel-returning helpers", len(byFn), 2)
	countFns := map[*ssa.Function]bool{}
	for _, n := range []string{"getPlayableSeatCount"} {
		if f := p.Func(smPkg, "SeatManager", n); f != nil {
			countFns[f] = true
		}
	}
	nSites := 0
	type agg struct {
		pos string
		ok  []string
		bad []string
	}
	aggs := map[string]*agg{}
	var aggOrder []string
	note := func(key, pos string, good bool, msg string) {
		a := aggs[key]
		if a == nil {
			a = &agg{pos: pos}
			aggs[key] = a
			aggOrder = append(aggOrder, key)
		}
		if good {
			a.ok = append(a.ok, msg+" ("+pos+")")
		} else {
			a.bad = append(a.bad, msg+" ("+pos+")")
			a.pos = pos
		}
	}
	defer func() {
		for _, k := range aggOrder {
			a := aggs[k]
			if len(a.bad) > 0 {
				c.bad(rule, k, a.pos, a.bad[0], a.bad[1:]...)
			} else {
				c.ok(rule, k, a.pos, fmt.Sprintf("%d use(s): %s", len(a.ok), a.ok[0]))
			}
		}
	}()
	for _, fn := range p.Funcs {
		for _, b := range fn.Blocks {
			for _, in := range b.Instrs {
				call, ok := in.(*ssa.Call)
				if !ok {
					continue
				}
				callee := call.Common().StaticCallee()
				srs := byFn[callee]
				if len(srs) == 0 {
					continue
				}
				nSites++
				c.Sites++
				c.touch(fnKey(fn))
				// result values per index
				var vals []ssa.Value
				var kinds []string
				if callee.Signature.Results().Len() == 1 {
					vals = append(vals, call)
					kinds = append(kinds, srs[0].Kind)
				} else {
					for _, ref := range *call.Referrers() {
						if ex, ok := ref.(*ssa.Extract); ok {
							for _, sr := range srs {
								if sr.Idx == ex.Index {
									vals = append(vals, ex)
									kinds = append(kinds, sr.Kind)
								}
							}
						}
					}
				}
				for i, v := range vals {
					for _, du := range dangerousUses(v, kinds[i]) {
						key := fmt.Sprintf("%s#%s->%s:%s", fnKey(fn), callee.Name(), kinds[i], du.What)
						pos := p.InstrPos(du.Instr)
						if checkedNonSentinel(du.Instr, vals, kinds) {
							note(key, pos, true, "result tested before use")
							continue
						}
						// idiom (b): dominating playable-count test in this function
						need := int64(1)
						if callee.Name() == "getPlayableSeat" && guardedUpTheChain(ix, fn, du.Instr, 0, func(in ssa.Instruction) bool { return dominatingCountTest(in, countFns, need) }) {
							note(key, pos, true, "dominated by a playable-count test that implies the search succeeds")
							continue
						}
						// idiom (b'): blind searches: every caller path is dominated by count >= 2, and no seat flag
						// is written between the test and the use
						if callee.Name() == "findActivePlayer" && callersGuardedByCount(ix, fn, du.Instr, countFns, 2) {
							note(key, pos, true, "every call path is dominated by playable count >= 2 and no seat flag changes before the search")
							continue
						}
						// idiom (a): all callers validated the argument
						if callee.Name() == "getSeat" {
							if ok, why := argValidatedByCallers(c, fn, call); ok {
								note(key, pos, true, "every caller passes a validated seat id ("+why+")")
								continue
							}
						}
						note(key, pos, false, fmt.Sprintf("the %s result of %s reaches a %s without a test: when the search fails this panics", kinds[i], callee.Name(), du.What))
					}
				}
			}
		}
	}
	c.floor(rule, "call sites of sentinel helpers", nSites, 5)

	// nil-able position fields of the manager
	posFields := map[string]bool{"seat_manager.SeatManager.dealer": true, "seat_manager.SeatManager.sb": true, "seat_manager.SeatManager.bb": true}
	nextDealer := p.Func(smPkg, "SeatManager", "nextDealer")
	for _, fn := range p.MethodsOf(smPkg, "SeatManager") {
		for _, b := range fn.Blocks {
			for _, in := range b.Instrs {
				load, ok := in.(*ssa.UnOp)
				if !ok || load.Op != token.MUL {
					continue
				}
				fa, ok := load.X.(*ssa.FieldAddr)
				if !ok || !posFields[fieldKeyOf(fa.X, fa.Field)] {
					continue
				}
				field := fieldKeyOf(fa.X, fa.Field)
				for _, du := range dangerousUses(load, "nil") {
					key := fmt.Sprintf("%s#%s:%s", fnKey(fn), strings.TrimPrefix(field, "seat_manager.SeatManager."), du.What)
					pos := p.InstrPos(du.Instr)
					c.Sites++
					// (1) dominating nil test of the same field in this function
					if fieldNilChecked(du.Instr, field) {
						note(key, pos, true, "dominated by a nil test of the field")
						continue
					}
					// (2) the field was just assigned from a checked / count-guarded search in this function
					if assignedFromGuardedSearch(ix, du.Instr, load, countFns) {
						note(key, pos, true, "the field was just set from a search guarded by a playable-count test")
						continue
					}
					// (3) documented fact for dealer: fn is called only after nextDealer() != nil
					if strings.HasSuffix(field, ".dealer") && nextDealer != nil && calledOnlyAfterDealerFound(ix, fn, nextDealer) && dealerSearchStoresResult(nextDealer) {
						note(key, pos, true, "reached only after nextDealer() returned non-nil, which returns the value it stored in dealer")
						continue
					}
					note(key, pos, false, "the position field may be nil here (no dealer yet / search failed) and is dereferenced: panic")
				}
			}
		}
	}
}

// fieldNilChecked: use is dominated by the non-nil edge of "sm.<field> == nil" / "!= nil".
func fieldNilChecked(use ssa.Instruction, field string) bool {
	fn := use.Parent()
	for _, b := range fn.Blocks {
		ifi, ok := b.Instrs[len(b.Instrs)-1].(*ssa.If)
		if !ok {
			continue
		}
		cmp, ok := ifi.Cond.(*ssa.BinOp)
		if !ok {
			continue
		}
		var other ssa.Value
		if isNilConst(cmp.Y) {
			other = cmp.X
		} else if isNilConst(cmp.X) {
			other = cmp.Y
		} else {
			continue
		}
		if !loadsField(other, field) {
			continue
		}
		var okSucc *ssa.BasicBlock
		if cmp.Op == token.EQL {
			okSucc = b.Succs[1]
		} else if cmp.Op == token.NEQ {
			okSucc = b.Succs[0]
		}
		if okSucc != nil && len(okSucc.Preds) == 1 && (okSucc == use.Block() || okSucc.Dominates(use.Block())) {
			// no store to the field between the test and the use
			return true
		}
	}
	return false
}

// assignedFromGuardedSearch: the loaded field value was stored earlier in the same block
// region from a sentinel search whose call is dominated by a count test (>= 1).
func assignedFromGuardedSearch(ix *Index, use ssa.Instruction, load *ssa.UnOp, countFns map[*ssa.Function]bool) bool {
	fa := load.X.(*ssa.FieldAddr)
	fn := use.Parent()
	for _, b := range fn.Blocks {
		for _, in := range b.Instrs {
			st, ok := in.(*ssa.Store)
			if !ok {
				continue
			}
			sfa, ok := st.Addr.(*ssa.FieldAddr)
			if !ok || sfa.X != fa.X || sfa.Field != fa.Field {
				continue
			}
			if !instrDominates(st, load) {
				continue
			}
			if call, ok := st.Val.(*ssa.Call); ok && call.Common().StaticCallee() != nil {
				if guardedUpTheChain(ix, fn, call, 0, func(in ssa.Instruction) bool { return dominatingCountTest(in, countFns, 1) }) {
					return true
				}
			}
		}
	}
	return false
}

// callersGuardedByCount: every caller of fn calls it on a path dominated by a count test
// implying count >= need, and inside fn no guarded store can precede the use.
func callersGuardedByCount(ix *Index, fn *ssa.Function, use ssa.Instruction, countFns map[*ssa.Function]bool, need int64) bool {
	return guardedUpTheChain(ix, fn, use, 0, func(in ssa.Instruction) bool { return dominatingCountTest(in, countFns, need) })
}

// guardedUpTheChain: the instruction is dominated by the wanted test in its own function, or no
// seat flag can be stored before it in its function and every call site of that function is
// guarded in the same way (package-private call chains of bounded depth). Splitting a function
// into helpers therefore keeps the guard visible.
func guardedUpTheChain(ix *Index, fn *ssa.Function, use ssa.Instruction, depth int, guarded func(ssa.Instruction) bool) bool {
	if guarded(use) {
		return true
	}
	if depth >= 4 {
		return false
	}
	// no seat-flag store before the use inside fn
	for _, b := range fn.Blocks {
		for _, in := range b.Instrs {
			if st, ok := in.(*ssa.Store); ok {
				if guardedSeatFields[accessKey(st.Addr)] && mayFollow(st, use) {
					return false
				}
			}
		}
	}
	callers := ix.Callers(fn)
	if len(callers) == 0 {
		return false
	}
	for _, cl := range callers {
		sites := ix.CallSites(cl, fn)
		if len(sites) == 0 {
			return false
		}
		for _, cs := range sites {
			if !guardedUpTheChain(ix, cl, cs.(ssa.Instruction), depth+1, guarded) {
				return false
			}
		}
	}
	return true
}

// calledOnlyAfterDealerFound: every call site of fn (within the package) is dominated by the
// non-nil edge of a test of nextDealer()'s result.
func calledOnlyAfterDealerFound(ix *Index, fn, nextDealer *ssa.Function) bool {
	return afterDealerFound(ix, fn, nextDealer, 0)
}

func afterDealerFound(ix *Index, fn, nextDealer *ssa.Function, depth int) bool {
	callers := ix.Callers(fn)
	if len(callers) == 0 || depth >= 4 {
		return false
	}
	for _, cl := range callers {
		for _, cs := range ix.CallSites(cl, fn) {
			ok := false
			// find a call of nextDealer in cl whose nil test dominates cs
			for _, b := range cl.Blocks {
				for _, in := range b.Instrs {
					if call, isCall := in.(*ssa.Call); isCall && call.Common().StaticCallee() == nextDealer {
						if checkedNonSentinel(cs.(ssa.Instruction), []ssa.Value{call}, []string{"nil"}) {
							ok = true
						}
					}
				}
			}
			// or the caller itself is only reached after the dealer was found
			if !ok && cl != nextDealer && afterDealerFound(ix, cl, nextDealer, depth+1) {
				ok = true
			}
			if !ok {
				return false
			}
		}
	}
	return true
}

// dealerSearchStoresResult: every non-nil return of nextDealer returns a value that was
// stored to (or is loaded from) the dealer field.
func dealerSearchStoresResult(nd *ssa.Function) bool {
	return dealerStoresResult(nd, 0)
}

func dealerStoresResult(nd *ssa.Function, depth int) bool {
	if depth > 3 || nd.Blocks == nil {
		return false
	}
	for _, b := range nd.Blocks {
		r, ok := b.Instrs[len(b.Instrs)-1].(*ssa.Return)
		if !ok || len(r.Results) != 1 {
			continue
		}
		var leaves []ssa.Value
		retLeaves(r.Results[0], map[ssa.Value]bool{}, &leaves)
		for _, l := range leaves {
			if isNilConst(l) {
				continue
			}
			if loadsField(l, "seat_manager.SeatManager.dealer") {
				continue
			}
			// the result of a package-private helper that itself returns what it stored
			if call, ok := l.(*ssa.Call); ok {
				if f := call.Common().StaticCallee(); f != nil && f.Pkg == nd.Pkg && dealerStoresResult(f, depth+1) {
					continue
				}
			}
			// stored to dealer somewhere dominating the return
			stored := false
			for _, b2 := range nd.Blocks {
				for _, in := range b2.Instrs {
					if st, ok := in.(*ssa.Store); ok && st.Val == l && accessKey(st.Addr) == "seat_manager.SeatManager.dealer" && instrDominates(st, r) {
						stored = true
					}
				}
			}
			if !stored {
				return false
			}
		}
	}
	return true
}

// argValidatedByCallers: idiom (a) for getSeat(id) called from an unexported helper with an
// id parameter: every caller passes either a range-checked id or one of the available seats.
func argValidatedByCallers(c *Ctx, fn *ssa.Function, call *ssa.Call) (bool, string) {
	p := c.P
	ix := p.Index()
	if len(call.Call.Args) < 2 {
		return false, ""
	}
	prm, ok := call.Call.Args[1].(*ssa.Parameter)
	if !ok || prm.Parent() != fn {
		return false, ""
	}
	pidx := -1
	for i, q := range fn.Params {
		if q == prm {
			pidx = i
		}
	}
	if pidx < 0 {
		return false, ""
	}
	// roots: exported methods from which fn is reachable; each is summarised with the
	// package-private helpers in between inlined, so that the argument is seen as the root passes it
	var roots []*ssa.Function
	for _, m := range p.MethodsOf(smPkg, "SeatManager") {
		if token.IsExported(m.Name()) && ix.Info[m] != nil && ix.Info[m].TCalls[fn] {
			roots = append(roots, m)
		}
	}
	if len(roots) == 0 {
		return false, ""
	}
	nCalls := 0
	for _, cl := range roots {
		s := newSumm(p, 0)
		s.EngineAliases = false
		s.HelperInline = smHelperFilterLoose(p, cl)
		paths, _ := s.Function(cl)
		for _, ps := range paths {
			for _, e := range ps.Events {
				if e.Kind != "call" || e.Fn != fn {
					continue
				}
				nCalls++
				arg := e.Args[pidx]
				if strings.Contains(arg.String(), "getAvailableSeats(") {
					continue
				}
				if !strings.HasPrefix(arg.String(), "param:") {
					return false, ""
				}
				okRange := true
				ints, bools := tableVars([]*PathSum{ps})
				seen := false
				enumGridR(ints, func(name string) (int64, int64) {
					if name == arg.String() {
						return -4, 7
					}
					return 1, 4
				}, bools, nil, func(a Asg) bool {
					holds, ok := evalPath(ps, a)
					if !ok || !holds {
						return true
					}
					seen = true
					mx, has := a.I["recv.max"]
					if !has || a.I[arg.String()] < 0 || a.I[arg.String()] >= mx {
						okRange = false
					}
					return okRange
				})
				if !okRange || !seen {
					return false, ""
				}
			}
		}
	}
	if nCalls == 0 {
		return false, ""
	}
	return true, "range-checked against max, or drawn from the available seats"
}

// findSentinelsOf: the sentinel results (nil / -1 on failure) of one function.
func findSentinelsOf(p *Prog, fn *ssa.Function) []sentinelRes {
	var out []sentinelRes
	for _, sr := range findSentinels(p, smPkg) {
		if sr.Fn == fn {
			out = append(out, sr)
		}
	}
	return out
}

// runC18PlayerCount: the number of seated players is the number of seats that hold a player: one
// pass over every seat of the table that counts a seat exactly when its Player is set. (A count
// derived from another list - total minus available, say - also counts seats that are reserved
// but empty.) Decides the shape of the counter, not joins minus leaves over histories.
func runC18PlayerCount(c *Ctx) {
	p := c.P
	ix := p.Index()
	const rule = "player-count"
	g := p.Func(smPkg, "SeatManager", "GetPlayerCount")
	if g == nil {
		c.undecided(rule, "GetPlayerCount", "-", "not found")
		return
	}
	// the function that holds the counting loop: the getter or a package function it returns
	var fn *ssa.Function
	cands := []*ssa.Function{g}
	for _, cc := range ix.Info[g].Calls {
		if f := cc.StaticCallee(); f != nil && f.Pkg == g.Pkg {
			cands = append(cands, f)
			if ix.Info[f] != nil {
				for _, c2 := range ix.Info[f].Calls {
					if f2 := c2.StaticCallee(); f2 != nil && f2.Pkg == g.Pkg {
						cands = append(cands, f2)
					}
				}
			}
		}
	}
	nLoops := 0
	for _, f := range cands {
		if n := len(findLoops(f)); n > 0 && isIntType(f.Signature.Results().At(0).Type()) {
			nLoops += n
			if fn == nil {
				fn = f
			}
		}
	}
	if fn == nil || nLoops != 1 {
		// no pass over the seats at all: the count is derived from something else
		if nLoops == 0 {
			c.undecided(rule, fnKey(g), p.FnPos(g), "the number of players is not counted by a pass over the seats; whether a derived count (total minus available, a running counter) equals the occupied seats is not decided by this rule")
		} else {
			c.undecided(rule, fnKey(g), p.FnPos(g), fmt.Sprintf("%d loops behind the getter; expected one counting pass", nLoops))
		}
		return
	}
	c.touch(fnKey(fn))
	s := newSumm(p, 0)
	s.EngineAliases = false
	s.HelperInline = purePredicate(p, fn)
	l := s.loops(fn)[0]
	// the returned value is a counter of the loop that starts at 0
	var counter *ssa.Phi
	for _, b := range fn.Blocks {
		if r, ok := b.Instrs[len(b.Instrs)-1].(*ssa.Return); ok && len(r.Results) == 1 {
			if ph, ok := r.Results[0].(*ssa.Phi); ok && ph.Block() == l.Header {
				counter = ph
			}
		}
	}
	if counter == nil {
		c.undecided(rule, fnKey(fn), p.FnPos(fn), "the result is not a counter of the loop")
		return
	}
	var bad []string
	if init, _ := phiInitStep(l, counter); init == nil {
		bad = append(bad, "counter without a start value")
	} else if k, ok := constInt(init); !ok || k != 0 {
		bad = append(bad, "the count does not start at 0")
	}
	// every seat is visited: a full range over the seats, or an index from 0 below max
	ri := analyseRange(l)
	full := ri.Full && loadsField(ri.Coll, "seat_manager.SeatManager.seats")
	body, cut := s.LoopBody(fn, l)
	if cut != "" {
		c.undecided(rule, fnKey(fn), p.FnPos(fn), "loop body summary cut: "+cut)
		return
	}
	iter := "iter:" + fn.Name() + "." + counter.Name()
	for _, bp := range body {
		if bp.End != "continue" {
			bad = append(bad, "the pass over the seats can stop early")
			continue
		}
		back := bp.Store["backedge:"+counter.Name()]
		if back == nil {
			bad = append(bad, "no next value for the counter")
			continue
		}
		d := back.asAff().add(affTerm(iter), -1)
		if !d.isConst() || (d.C != 0 && d.C != 1) {
			bad = append(bad, "the counter moves by "+d.String())
			continue
		}
		occupied, decided, other := false, false, ""
		for _, cd := range bp.Conds {
			if a, isLt := ltForm(cd.V); isLt {
				// the loop's own bound: index below max
				bound := false
				for t := range a.T {
					if strings.HasSuffix(t, ".max") || strings.HasPrefix(t, "len(") {
						bound = true
					}
				}
				if bound {
					if !full {
						for t := range a.T {
							if strings.HasSuffix(t, ".max") {
								full = true
							}
						}
					}
					continue
				}
			}
			if cd.V.K == KAtom && cd.V.At.Op == "is" && strings.HasSuffix(strings.TrimSuffix(cd.V.At.L, " "), ".Player") && cd.V.At.R == "nil" || cd.V.K == KAtom && cd.V.At.Op == "is" && cd.V.At.L == "nil" && strings.HasSuffix(cd.V.At.R, ".Player") {
				decided = true
				occupied = cd.V.Neg
				continue
			}
			other = cd.V.String()
		}
		if other != "" {
			bad = append(bad, "whether a seat counts depends on "+other+", not only on whether it holds a player")
			continue
		}
		if !decided {
			if d.C == 1 {
				bad = append(bad, "a seat is counted without testing that it holds a player")
			}
			continue
		}
		if occupied != (d.C == 1) {
			bad = append(bad, "an occupied seat is skipped or an empty one is counted")
		}
	}
	if !full {
		bad = append(bad, "the pass does not cover every seat of the table")
	}
	c.check(len(bad) == 0, rule, fnKey(fn), p.FnPos(fn), "the number of players is counted by one pass over every seat, a seat counting exactly when it holds a player", "the reported number of players is not the number of occupied seats", uniq(bad, 3)...)
}

// smHelperFilterLoose also reads in place the loop-free helpers that store nothing, even when
// they hand back a sentinel (a helper that picks a seat and says whether it found one).
func smHelperFilterLoose(p *Prog, owner *ssa.Function) func(*ssa.Function) bool {
	base := smHelperFilter(p, owner)
	ix := p.Index()
	return func(f *ssa.Function) bool {
		if base(f) {
			return true
		}
		if !privateHelper(owner, f) || len(findLoops(f)) > 0 {
			return false
		}
		fi := ix.Info[f]
		if fi == nil {
			return false
		}
		for _, w := range fi.Writes {
			if !w.Fresh {
				return false
			}
		}
		return true
	}
}
