package main

import (
	"bufio"
	"encoding/json"
	"fmt"
	"io"
	"io/fs"
	"os"
	"os/exec"
	"path/filepath"
	"sort"
	"strings"
	"sync"

	"golang.org/x/tools/go/ssa"
)

// Thorough tier: the quick obligations (with the larger grid where a rule enumerates one)
// plus
//   (1) build-variant agreement: the same property is decided again on the tree loaded for
//       GOARCH=386 and with -tags verif; any difference in the set of obligation verdicts is
//       an undecided obligation. Build-constrained and generated files are listed.
//   (2) call-resolution cross-check: for every interface call site in the module, the VTA
//       call graph's module-local callees must be contained in the callees the rules use
//       (class-hierarchy resolution restricted to module types): the rules never miss a
//       possible callee.
//   (3) corpus replay: every stored breaking change labelled with this property, and every
//       stored behaviour-preserving refactoring, is applied to a scratch copy of the current
//       tree (os.MkdirTemp, removed immediately) and the quick check is run on it in a
//       subprocess. Sensitivity and specificity are reported in the evidence; they do not
//       change the verdict on /repo itself.

type corpusEntry struct {
	Name     string `json:"name"`
	Property string `json:"property"`
	Patch    string `json:"patch,omitempty"`
	Edits    []struct {
		File string `json:"file"`
		Old  string `json:"old"`
		New  string `json:"new"`
	} `json:"edits,omitempty"`
}

func runThorough(pd *propDef, c *Ctx, repo, vdir string, extra map[string]interface{}) {
	// (1) variants
	variants := []loadOpts{{dir: repo, goarh: "386"}, {dir: repo, tags: "verif"}}
	base := verdictSet(c)
	var vres []string
	for _, vo := range variants {
		name := "GOARCH=" + vo.goarh
		if vo.tags != "" {
			name = "-tags " + vo.tags
		}
		vp, err := loadProg(vo)
		if err != nil {
			c.undecided("variants", "load:"+name, "-", "cannot load the tree for this build variant: "+err.Error())
			continue
		}
		vc := newCtx(vp, pd.ID, "quick")
		func() {
			defer func() {
				if r := recover(); r != nil {
					vc.undecided("meta", "internal-error", "-", fmt.Sprint(r))
				}
			}()
			pd.Run(vc)
		}()
		other := verdictSet(vc)
		var diff []string
		for k, v := range base {
			if other[k] != v {
				diff = append(diff, fmt.Sprintf("%s: %s here, %q under %s", k, v, other[k], name))
			}
		}
		for k, v := range other {
			if _, ok := base[k]; !ok {
				diff = append(diff, fmt.Sprintf("%s: only under %s (%s)", k, name, v))
			}
		}
		sort.Strings(diff)
		c.check(len(diff) == 0, "variants", "agreement:"+name, "-", fmt.Sprintf("%d obligations decided identically under %s (%d packages)", len(other), name, len(vp.Pkgs)), "the property is decided differently for another build variant", uniq(diff, 5)...)
		vres = append(vres, fmt.Sprintf("%s: %d packages, %d functions, %d obligations", name, len(vp.Pkgs), len(vp.Funcs), len(other)))
	}
	extra["build_variants"] = vres
	constrained := constrainedFiles(repo)
	extra["build_constrained_or_generated_files"] = constrained
	c.Notes = append(c.Notes, fmt.Sprintf("%d non-test Go files carry build constraints or a generated-code marker", len(constrained)))

	// (2) VTA cross-check
	n, missing := vtaCrossCheck(c.P)
	c.check(len(missing) == 0, "call-resolution", "vta-subset-of-cha", "-", fmt.Sprintf("at all %d interface call sites of the module the VTA callees are among the callees the rules consider", n), "a rule could miss a callee", uniq(missing, 5)...)

	// (3) corpus
	replayCorpus(pd, c, repo, vdir, extra)
}

func verdictSet(c *Ctx) map[string]string {
	out := map[string]string{}
	seen := map[string]int{}
	for _, o := range c.Obs {
		k := o.Key
		seen[k]++
		if seen[k] > 1 {
			k = fmt.Sprintf("%s~%d", k, seen[k])
		}
		out[k] = string(o.Status)
	}
	return out
}

func constrainedFiles(repo string) []string {
	var out []string
	filepath.WalkDir(repo, func(path string, d fs.DirEntry, err error) error {
		if err != nil {
			return nil
		}
		if d.IsDir() {
			if d.Name() == ".git" || d.Name() == "vendor" {
				return filepath.SkipDir
			}
			return nil
		}
		if !strings.HasSuffix(path, ".go") || strings.HasSuffix(path, "_test.go") {
			return nil
		}
		f, err := os.Open(path)
		if err != nil {
			return nil
		}
		defer f.Close()
		sc := bufio.NewScanner(f)
		for i := 0; i < 30 && sc.Scan(); i++ {
			l := sc.Text()
			if strings.HasPrefix(l, "//go:build") || strings.HasPrefix(l, "// +build") || strings.Contains(l, "Code generated") && strings.Contains(l, "DO NOT EDIT") {
				rel, _ := filepath.Rel(repo, path)
				out = append(out, rel)
				break
			}
			if strings.HasPrefix(l, "package ") {
				break
			}
		}
		return nil
	})
	sort.Strings(out)
	return out
}

func vtaCrossCheck(p *Prog) (int, []string) {
	g := p.CallGraph("vta")
	n := 0
	var missing []string
	for _, fn := range p.Funcs {
		node := g.Nodes[fn]
		if node == nil {
			continue
		}
		bySite := map[ssa.CallInstruction][]*ssa.Function{}
		for _, e := range node.Out {
			if e.Site == nil || !e.Site.Common().IsInvoke() {
				continue
			}
			if inModule(e.Callee.Func) {
				bySite[e.Site] = append(bySite[e.Site], e.Callee.Func)
			}
		}
		for site, callees := range bySite {
			n++
			mine := map[*ssa.Function]bool{}
			for _, t := range p.Callees(site.Common()) {
				mine[t] = true
			}
			for _, cal := range callees {
				if cal.Synthetic != "" {
					continue
				}
				if !mine[cal] {
					missing = append(missing, fmt.Sprintf("%s: %s is a VTA callee of the call at %s but not in the rules' resolution", fnKey(fn), fnKey(cal), p.InstrPos(site.(ssa.Instruction))))
				}
			}
		}
	}
	return n, missing
}

func copyTree(src, dst string) error {
	return filepath.WalkDir(src, func(path string, d fs.DirEntry, err error) error {
		if err != nil {
			return err
		}
		rel, _ := filepath.Rel(src, path)
		if d.IsDir() {
			if d.Name() == ".git" {
				return filepath.SkipDir
			}
			return os.MkdirAll(filepath.Join(dst, rel), 0o755)
		}
		if !d.Type().IsRegular() {
			return nil
		}
		in, err := os.Open(path)
		if err != nil {
			return err
		}
		defer in.Close()
		out, err := os.Create(filepath.Join(dst, rel))
		if err != nil {
			return err
		}
		defer out.Close()
		_, err = io.Copy(out, in)
		return err
	})
}

func applyEntry(e corpusEntry, dir, vdir string) (bool, string) {
	if e.Patch != "" {
		cmd := exec.Command("patch", "-p1", "-s", "-i", filepath.Join(vdir, e.Patch))
		cmd.Dir = dir
		if out, err := cmd.CombinedOutput(); err != nil {
			return false, "patch does not apply: " + strings.TrimSpace(string(out))
		}
		return true, ""
	}
	for _, ed := range e.Edits {
		p := filepath.Join(dir, ed.File)
		b, err := os.ReadFile(p)
		if err != nil {
			return false, err.Error()
		}
		s := string(b)
		if !strings.Contains(s, ed.Old) {
			return false, "old text not found in " + ed.File
		}
		s = strings.Replace(s, ed.Old, ed.New, 1)
		if err := os.WriteFile(p, []byte(s), 0o644); err != nil {
			return false, err.Error()
		}
	}
	return true, ""
}

func replayCorpus(pd *propDef, c *Ctx, repo, vdir string, extra map[string]interface{}) {
	var muts, refs []corpusEntry
	readJSON := func(name string, into *[]corpusEntry) {
		b, err := os.ReadFile(filepath.Join(vdir, "corpus", name))
		if err == nil {
			json.Unmarshal(b, into)
		}
	}
	readJSON("mutants.json", &muts)
	readJSON("refactors.json", &refs)
	var todo []corpusEntry
	kind := map[string]string{}
	for _, m := range muts {
		if m.Property == pd.ID {
			todo = append(todo, m)
			kind[m.Name] = "mutant"
		}
	}
	// the refactoring corpus has grown to a couple of hundred entries: a thorough run replays a
	// deterministic sample of at most 64 of them per property (every k-th in name order, the
	// offset depending on the property); tools/refrun.py replays all of them for all properties
	sort.Slice(refs, func(i, j int) bool { return refs[i].Name < refs[j].Name })
	step := (len(refs) + 63) / 64
	if step < 1 {
		step = 1
	}
	off := 0
	for _, ch := range pd.ID {
		off += int(ch)
	}
	nRefAll := len(refs)
	for i, r := range refs {
		if (i+off)%step != 0 {
			continue
		}
		todo = append(todo, r)
		kind[r.Name] = "refactor"
	}
	extra["corpus_refactorings_sampled"] = fmt.Sprintf("every %d-th of %d stored refactorings", step, nRefAll)
	if len(todo) == 0 {
		extra["corpus"] = "no corpus entries for this property"
		return
	}
	exe, _ := os.Executable()
	type res struct {
		name, kind, verdict, detail string
	}
	results := make([]res, len(todo))
	sem := make(chan struct{}, 8)
	var wg sync.WaitGroup
	for i, e := range todo {
		wg.Add(1)
		go func(i int, e corpusEntry) {
			defer wg.Done()
			sem <- struct{}{}
			defer func() { <-sem }()
			r := res{name: e.Name, kind: kind[e.Name]}
			tmp, err := os.MkdirTemp("", "pfcorpus_")
			if err != nil {
				r.verdict = "error"
				results[i] = r
				return
			}
			defer os.RemoveAll(tmp)
			rdir := filepath.Join(tmp, "repo")
			sv := filepath.Join(tmp, "verif")
			os.MkdirAll(sv, 0o755)
			if b, err := os.ReadFile(filepath.Join(vdir, "known_findings.txt")); err == nil {
				os.WriteFile(filepath.Join(sv, "known_findings.txt"), b, 0o644)
			}
			if err := copyTree(repo, rdir); err != nil {
				r.verdict = "error"
				r.detail = err.Error()
				results[i] = r
				return
			}
			if ok, why := applyEntry(e, rdir, vdir); !ok {
				r.verdict = "skipped"
				r.detail = why
				results[i] = r
				return
			}
			cmd := exec.Command(exe, "-repo", rdir, "-verif", sv, "-prop", pd.ID, "-tier", "quick")
			out, err := cmd.CombinedOutput()
			code := 0
			if ee, ok := err.(*exec.ExitError); ok {
				code = ee.ExitCode()
			} else if err != nil {
				code = -1
			}
			switch code {
			case 0:
				r.verdict = "silent"
			case 1:
				r.verdict = "reported"
				for _, l := range strings.Split(string(out), "\n") {
					l = strings.TrimSpace(l)
					if strings.HasPrefix(l, "[violated]") || strings.HasPrefix(l, "[undecided]") {
						r.detail = strings.SplitN(l, " at ", 2)[0]
						break
					}
				}
			default:
				r.verdict = "unusable"
				ls := strings.Split(strings.TrimSpace(string(out)), "\n")
				r.detail = ls[len(ls)-1]
			}
			results[i] = r
		}(i, e)
	}
	wg.Wait()
	nm, km, nr, kr, skipped := 0, 0, 0, 0, 0
	var rows []string
	var missed, alarms []string
	for _, r := range results {
		rows = append(rows, fmt.Sprintf("%s %s: %s %s", r.kind, r.name, r.verdict, r.detail))
		if r.verdict == "skipped" || r.verdict == "error" {
			skipped++
			continue
		}
		if r.kind == "mutant" {
			nm++
			if r.verdict == "reported" {
				km++
			} else {
				missed = append(missed, r.name+" ("+r.verdict+" "+r.detail+")")
			}
		} else {
			nr++
			if r.verdict == "silent" {
				kr++
			} else {
				alarms = append(alarms, r.name+" ("+r.verdict+" "+r.detail+")")
			}
		}
	}
	sort.Strings(rows)
	extra["corpus"] = map[string]interface{}{
		"sensitivity":               fmt.Sprintf("%d/%d stored breaking changes labelled %s are reported by this check", km, nm, pd.ID),
		"specificity":               fmt.Sprintf("%d/%d stored behaviour-preserving refactorings leave this check silent", kr, nr),
		"skipped_patch_not_applied": skipped,
		"not_reported":              missed,
		"false_alarms":              alarms,
		"results":                   rows,
	}
	fmt.Printf("  corpus: sensitivity %d/%d, specificity %d/%d, skipped %d\n", km, nm, kr, nr, skipped)
	for _, a := range alarms {
		fmt.Println("  corpus false alarm:", a)
	}
	for _, m := range missed {
		fmt.Println("  corpus not reported by this property's check:", m)
	}
}
