package main

// runThorough adds the thorough-tier work; filled in later (variants, corpus replay).
func runThorough(pd *propDef, c *Ctx, repo, vdir string, extra map[string]interface{}) {}
