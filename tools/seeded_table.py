#!/usr/bin/env python3
"""Development aid: print the DESIGN.md table rows for the seeded changes of waves 2-4 from
seeded/LAST_CHECK.json (which obligations reported each change) and the short descriptions below."""
import json, os
HERE = os.path.dirname(os.path.dirname(os.path.abspath(__file__)))
D = {
 # wave 2
 "C03-a": "score digits use base 12 instead of 13 (ace kicker vs deuce: two pair / full house / quads tie wrongly)",
 "C03-b": "`isFlush` stops one card short (4+1 suits named a flush)",
 "C08-a": "heads-up: a seated newcomer between SB and BB is not re-activated when the button passes",
 "C08-b": "`Leave` re-activates the seat it empties (re-joined seat is dealt in early)",
 "C10-a": "mask generator loop bound `cur < last` drops the highest selection (board-only straight / flush on the river)",
 "C10-b": "hands are not re-evaluated on flop/turn when at most one player can act",
 "C13-a": "dealer blind not posted by a seat that also holds SB/BB with a zero blind",
 "C13-b": "all-in branch of `pay` adds the requested amount (stack below the ante)",
 "C14-a": "the turn deal re-uses the flop's cursor arithmetic (burn skipped / card repeated from the turn on)",
 "C14-b": "`Deal` refuses when the deck is consumed *exactly* (36-card deck, 7 players, 4 hole cards)",
 "C15-a": "`AsPlayer` keeps `Combination` of folded seats after close",
 "C15-b": "`AsObserver` adds a status field listing folded players' cards",
 "C17-a": "ring not wrapped when the dealer sits on the last seat",
 "C17-b": "search starts at the dealer's own seat when that seat is no longer playable",
 "C19-a": "`ReleasePlayers` drains the queue while the competition is still pending",
 "C19-b": "`Required` set before the top-up and never reduced (queue non-empty at sync)",
 "C20-a": "top-up target rounded up, surplus/stop level rounded down (fractional water level ≥ .5)",
 # wave 3
 "C01-c": "round pot credited with the announced amount in the all-in branch (bet above the stack, stack below ante)",
 "C01-d": "only one odd chip handed out (3-way tie, remainder ≥ 2)",
 "C01-e": "`onRoundClosed` skips the pot rebuild when at most one player can act (stale pots published)",
 "C02-c": "all odd chips to the first winner",
 "C02-d": "incremental `AddContributor`: a new level starts from the next level's slice without copying (7 players, specific order)",
 "C02-e": "run-out shortcut moved before the hand re-evaluation (stale strengths decide the pot)",
 "C04-c": "preflop opening walk replaced by an index loop that does not wrap (big blind on a lower seat than the dealer)",
 "C04-d": "`onRoundClosed` returns early (no chips in) before clearing offers: actions accepted after the round closed",
 "C04-e": "`Pass` guarded by the seat's own status instead of its offers (folded / all-in seat passes out of turn)",
 "C05-c": "tiny all-in raise (< half a raise) does not reset acted flags although the wager went up",
 "C05-d": "shared `isBettingOver()` helper turns `<= 1` movable into `== 0` in `PrepareRound`",
 "C05-e": "`nextRound` keeps dealing after a fold-out on the turn (guard copied to preflop/flop only)",
 "C06-c": "`Start` tests `Deck == nil` (empty non-nil deck starts a hand that panics on the first deal)",
 "C06-d": "offer reset moved from `RequestReady` to `Prepare` (dealer keeps offers during post-flop ReadyRequested)",
 "C06-e": "`CalculateGameResults` returns early without a result when every pot is empty",
 "C07-c": "settlement rebuilds pots only if none exist (`Levels` is `json:\"-\"`: lost after a JSON hop)",
 "C07-d": "hand-written `cloneState` shares `Status.LastAction`",
 "C07-e": "shuffle moved from `Start` to the preflop deal (deck stored at the first wait points is not the one played)",
 "C09-c": "deadline refusal only when a table exists",
 "C09-d": "`allocateTables` caps the popped players at max: the tail is in no place",
 "C09-e": "top-up returns early when the queue covers the need, skipping `PlayerCount +=`",
 "C11-c": "call offered on `StackSize > CurrentWager` instead of the round-start stack",
 "C11-d": "call below a BB pays a full BB on top of the own wager",
 "C11-e": "pot-limit clamp silently reduces a bet",
 "C12-c": "`Raise` refuses against the player's own wager instead of the wager to match",
 "C12-d": "opening minimum raise = what was actually posted (short big blind)",
 "C12-e": "short big blind overwrites a larger dealer blind as wager to match",
 "C13-c": "blind cascade without the `> 0` guards (dealer+sb seat with SB 0 posts nothing)",
 "C13-d": "minimum raise = `MiniBet` (= max(dealer, BB)) instead of the big blind",
 "C13-e": "ante not capped for a stack below the ante",
 # wave 4
 "C03-c": "Horner arithmetic with `rankSpan = 14 - 2`",
 "C03-d": "\"display order\" rotation of A-5-x-x-x after the sort (ace becomes lowest kicker of pairs/trips)",
 "C03-e": "flush by AND-ing suit masks that share bits (S=1,H=2,D=3,C=4)",
 "C08-c": "re-activation walk stops at the old dealer field: every seat re-activated on every move",
 "C08-d": "`Next` counts playable seats before the dealer move (stale heads-up decision)",
 "C08-e": "fallback `getPlayableSeat` drops the reserved test",
 "C10-c": "any five of hole+board also when the board is short (4 hole cards, exactly two, flop)",
 "C10-d": "lazy re-ranking: only with > 1 movable player or on the river",
 "C10-e": "selections sorted by category enum first (short deck: flush vs full house)",
 "C14-c": "burn inside the `movable > 1` condition (no burn on all-in run-outs)",
 "C14-d": "heads-up: the button is dealt twice (dealer appended unconditionally to the dealing order)",
 "C14-e": "memoised deck: `append(cached[:0], cached...)` shares one array between games",
 "C15-c": "merged loops: closed arm forgets the viewer test (folded viewer loses own cards)",
 "C15-d": "`AsObserver` returns before clearing the deck while no round has started",
 "C15-e": "shared helper returns from inside the player loop in the closed phase",
 "C17-c": "`getNormalizeSeats(dealer.ID + 1)` instead of `[1:]` (no wrap from the last seat)",
 "C17-d": "`findActivePlayer` no longer skips reserved seats",
 "C17-e": "`leave` clears the dealer when the dealer leaves (button jumps back to seat 0)",
 "C18-c": "`getAvailableSeats` hands out reserved empty seats",
 "C18-d": "specific-seat `Join` under `RLock`",
 "C18-e": "heads-up test counts non-empty instead of playable seats (`seats[-1:]` panic)",
 "C19-c": "rest-of-queue shortcut without the capacity test (batch of 12 onto one table)",
 "C19-d": "`Required` set before the top-up, never reduced",
 "C19-e": "pending gate moved out of the shared `enterWaitingQueue`",
 "C20-c": "after the deadline a table below the minimum is broken even if it is the last one",
 "C20-d": "stop level subtracts `maxPlayersPerTable` instead of the table's own count",
 "C20-e": "`requestPlayers` pops a local copy and never stores the shortened queue back",
}
lc = json.load(open(os.path.join(HERE, "seeded", "LAST_CHECK.json")))
def fmt(k):
    v = lc.get(k, [])
    own = k.split("-")[0]
    seen, out = set(), []
    for x in sorted(v, key=lambda x: (not x.lstrip("?").startswith(own), x)):
        x = x.lstrip("?")
        parts = x.split("/")
        short = parts[0] + "/" + parts[1]
        if short not in seen:
            seen.add(short); out.append(short)
    return ", ".join(out[:4]) if out else "**not reported** (see below)"
for k in D:
    print("| %s | %s | %s |" % (k, D[k], fmt(k)))
