#!/usr/bin/env python3
"""Development aid: apply every independent refactoring patch (corpus/refactor_patches/*.diff) to a
scratch copy of /repo, check it builds and the stable tests pass, and run every check: all must be silent."""
import os, shutil, subprocess, sys, tempfile
HERE = os.path.dirname(os.path.dirname(os.path.abspath(__file__)))
ENV = dict(os.environ, GOFLAGS="-mod=readonly", GOPROXY="off", GOSUMDB="off", GOTOOLCHAIN="local", GOWORK="off")
STABLE = [".", "./testcases", "./pot", "./settlement", "./combination", "./regulator"]
impl = sorted("C" + f[1:3] for f in os.listdir(os.path.join(HERE, "analyzer")) if f.startswith("c") and f.endswith(".go") and f[1:3].isdigit())
if os.environ.get("PFVERIFY_PROPS"):
    impl = [x for x in impl if x in os.environ["PFVERIFY_PROPS"].split(",")]
sub = sys.argv[1] if len(sys.argv) > 1 and not sys.argv[1].startswith("--") else ""
tests = "--tests" in sys.argv
base = tempfile.mkdtemp(prefix="pfref_")
vdir = os.path.join(base, "verif"); os.makedirs(vdir)
shutil.copy(os.path.join(HERE, "known_findings.txt"), vdir)
bad = 0
try:
    for name in sorted(os.listdir(os.path.join(HERE, "corpus", "refactor_patches"))):
        if sub not in name or not name.endswith(".diff"):
            continue
        d = os.path.join(base, "repo")
        if os.path.exists(d): shutil.rmtree(d)
        subprocess.run(["rsync", "-a", "--exclude", ".git", "/repo/", d + "/"], check=True)
        r = subprocess.run(["patch", "-p1", "-s", "-i", os.path.join(HERE, "corpus", "refactor_patches", name)], cwd=d, capture_output=True, text=True)
        if r.returncode != 0:
            print("!!", name, "PATCH DOES NOT APPLY"); bad += 1; continue
        b = subprocess.run(["go", "build", "./..."], cwd=d, env=ENV, capture_output=True, text=True)
        if b.returncode != 0:
            print("!!", name, "NOBUILD", b.stderr[-200:]); bad += 1; continue
        t = ""
        if tests:
            tr = subprocess.run(["go", "test", "-vet=off", "-count=1"] + STABLE, cwd=d, env=ENV, capture_output=True, text=True)
            t = " tests=" + ("pass" if tr.returncode == 0 else "FAIL")
        fired = []
        for prop in impl:
            r = subprocess.run([os.environ.get("PFVERIFY_BIN", os.path.join(HERE, "bin", "pfverify")), "-repo", d, "-verif", vdir, "-prop", prop], capture_output=True, text=True)
            if r.returncode == 2: fired.append(prop + ":ERROR " + r.stderr[-200:])
            for line in r.stdout.splitlines():
                line = line.strip()
                if line.startswith("[violated]") or line.startswith("[undecided]"):
                    fired.append(line[:400])
        print(("!!" if fired else "  "), name, ("FIRED" if fired else "silent") + t)
        for f in fired[:6]: print("        ", f)
        if fired: bad += 1
finally:
    shutil.rmtree(base, ignore_errors=True)
print(bad, "refactorings raise an alarm")
