#!/usr/bin/env python3
"""Development aid (not a registered check): apply candidate mutants / refactors to a
scratch copy of /repo under a temp dir, check that the copy still builds, run the
analyzer on it for the named properties and report which obligations fire.

  tools/mutrun.py [-k substring] [-p C04,C05 | -p all] [--tests] [--file notes/mutant_candidates.py]
"""
import argparse, importlib.util, json, os, shutil, subprocess, sys, tempfile

HERE = os.path.dirname(os.path.dirname(os.path.abspath(__file__)))
ENV = dict(os.environ, GOFLAGS="-mod=readonly", GOPROXY="off", GOSUMDB="off", GOTOOLCHAIN="local", GOWORK="off")
STABLE = [".", "./testcases", "./pot", "./settlement", "./combination", "./regulator"]

def load(path):
    spec = importlib.util.spec_from_file_location("m", path)
    m = importlib.util.module_from_spec(spec)
    spec.loader.exec_module(m)
    return m.MUTS

def implemented():
    out = []
    for f in sorted(os.listdir(os.path.join(HERE, "analyzer"))):
        if f.startswith("c") and f.endswith(".go") and f[1:3].isdigit():
            out.append("C" + f[1:3])
    return out

def main():
    ap = argparse.ArgumentParser()
    ap.add_argument("-k", default="")
    ap.add_argument("-p", default="")
    ap.add_argument("--tests", action="store_true")
    ap.add_argument("--file", default=os.path.join(HERE, "notes", "mutant_candidates.py"))
    ap.add_argument("--expect", default="fire", choices=["fire", "silent"])
    a = ap.parse_args()
    muts = [m for m in load(a.file) if a.k in m[0]]
    impl = implemented()
    base = tempfile.mkdtemp(prefix="pfmut_")
    vdir = os.path.join(base, "verif")
    os.makedirs(vdir)
    shutil.copy(os.path.join(HERE, "known_findings.txt"), vdir)
    summary = []
    try:
        for m in muts:
            name = m[0]
            edits = m[1] if isinstance(m[1], list) else [tuple(m[1:4])]
            d = os.path.join(base, "repo")
            if os.path.exists(d):
                shutil.rmtree(d)
            subprocess.run(["rsync", "-a", "--exclude", ".git", "/repo/", d + "/"], check=True)
            missing = False
            for (file, old, new) in edits:
                p = os.path.join(d, file)
                s = open(p).read()
                if old not in s:
                    missing = True
                    break
                open(p, "w").write(s.replace(old, new, 1))
            if missing:
                summary.append((name, "SKIP(old text not found)", []))
                continue
            b = subprocess.run(["go", "build", "./..."], cwd=d, env=ENV, capture_output=True, text=True)
            if b.returncode != 0:
                summary.append((name, "NOBUILD " + b.stderr.strip().splitlines()[-1][:100], []))
                continue
            tests = ""
            if a.tests:
                t = subprocess.run(["go", "test", "-vet=off", "-count=1"] + STABLE, cwd=d, env=ENV, capture_output=True, text=True)
                tests = " tests=" + ("pass" if t.returncode == 0 else "FAIL")
            if a.p == "all":
                plist = impl
            elif a.p:
                plist = a.p.split(",")
            else:
                plist = [x for x in [name.split("-")[0]] if x in impl] or impl
            fired = []
            for prop in plist:
                r = subprocess.run([os.environ.get("PFVERIFY_BIN", os.path.join(HERE, "bin", "pfverify")), "-repo", d, "-verif", vdir, "-prop", prop],
                                   capture_output=True, text=True)
                if r.returncode == 2:
                    fired.append(prop + ":ERROR " + (r.stderr.strip().splitlines() or [""])[-1][:120])
                for line in r.stdout.splitlines():
                    line = line.strip()
                    if line.startswith("[violated]") or line.startswith("[undecided]"):
                        fired.append(line.split(" at ")[0].replace("[violated] ", "").replace("[undecided] ", "?"))
            verdict = "FIRED" if fired else "silent"
            summary.append((name, verdict + tests, fired))
    finally:
        shutil.rmtree(base, ignore_errors=True)
    bad = 0
    for name, verdict, fired in summary:
        ok = (verdict.startswith("FIRED") and a.expect == "fire") or (verdict.startswith("silent") and a.expect == "silent")
        if not ok:
            bad += 1
        print(("  " if ok else "!!"), name, verdict)
        for f in fired[:4]:
            print("        ", f)
    print(f"{len(summary)} candidates, {bad} not as expected ({a.expect})")

if __name__ == "__main__":
    main()
