#!/usr/bin/env python3
"""Development aid (not a registered check).

  tools/seedrun.py import <agent_out_dir> <PROP> <a|b>   verify an independently written breaking change and
                                                         store it as seeded/<PROP>-<x>/ (patch.diff, demo, meta.json)
  tools/seedrun.py check [name-substring]                run every check against each seeded change (scratch copy)

Verification (import): on a scratch copy of /repo under a temp dir
  1. the patch applies, `go build ./...` succeeds and the stable test packages pass with it;
  2. the demonstration fails with the patch and passes without it.
The scratch copy is removed afterwards. Nothing is ever applied to /repo here.
"""
import json, os, re, shutil, subprocess, sys, tempfile

HERE = os.path.dirname(os.path.dirname(os.path.abspath(__file__)))
ENV = dict(os.environ, GOFLAGS="-mod=readonly", GOPROXY="off", GOSUMDB="off", GOTOOLCHAIN="local", GOWORK="off")
STABLE = [".", "./testcases", "./pot", "./settlement", "./combination", "./regulator"]


def run(cmd, cwd, env=ENV, timeout=900):
    r = subprocess.run(cmd, cwd=cwd, env=env, capture_output=True, text=True, timeout=timeout)
    return r.returncode, (r.stdout + r.stderr)


def demo_dir_of(path):
    first = open(path).readline()
    for d in ["settlement", "regulator", "pot", "combination", "seat_manager", "table", "testcases"]:
        if re.search(r"\b%s/" % d, first) or re.search(r"package %s\b" % d, first):
            return d
    return "testcases"


def fresh_copy(base):
    d = os.path.join(base, "repo")
    if os.path.exists(d):
        shutil.rmtree(d)
    subprocess.run(["rsync", "-a", "--exclude", ".git", "/repo/", d + "/"], check=True)
    return d


def apply_patch(d, patch):
    return run(["patch", "-p1", "-s", "-i", patch], d)


def run_demo(base, d, demos, main_go):
    """returns (failed: bool, output)"""
    if main_go:
        dd = os.path.join(base, "demo")
        if os.path.exists(dd):
            shutil.rmtree(dd)
        os.makedirs(dd)
        shutil.copy(main_go, os.path.join(dd, "main.go"))
        open(os.path.join(dd, "go.mod"), "w").write(
            "module demo\n\ngo 1.19\n\nrequire github.com/weedbox/pokerface v0.0.0\n\nreplace github.com/weedbox/pokerface => %s\n" % d)
        shutil.copy(os.path.join(d, "go.sum"), dd)
        env = dict(ENV, GOFLAGS="-mod=mod")
        race = "-race" in open(main_go).readline()
        cmd = ["go", "run"] + (["-race"] if race else []) + ["."]
        rc, out = run(cmd, dd, env=env)
        return rc != 0, out
    failed = False
    outs = []
    placed = []
    for demo in demos:
        sub = demo_dir_of(demo)
        dst = os.path.join(d, sub, "zz_seed_" + os.path.basename(demo))
        shutil.copy(demo, dst)
        placed.append((sub, dst))
    for sub in sorted(set(s for s, _ in placed)):
        names = []
        for s2, dst in placed:
            if s2 == sub:
                names += re.findall(r"^func (Test\w+)\(", open(dst).read(), re.M)
        pat = "^(" + "|".join(names) + ")$" if names else "Demo|C0|C1|C2|Test_Demo|TestC"
        rc, out = run(["go", "test", "-vet=off", "-count=1", "-run", pat, "./" + sub], d)
        outs.append(out[-1500:])
        if rc != 0:
            failed = True
    for _, dst in placed:
        os.remove(dst)
    return failed, "\n".join(outs)


def do_import(src_root, prop, which):
    src = os.path.join(src_root, prop, which)
    patch = os.path.join(src, "patch.diff")
    demos = sorted(os.path.join(src, f) for f in os.listdir(src) if f.endswith("_test.go"))
    main_go = os.path.join(src, "main.go") if os.path.exists(os.path.join(src, "main.go")) else None
    base = tempfile.mkdtemp(prefix="pfseed_")
    meta = {"property": prop, "id": "%s-%s" % (prop, which), "source": "independent sub-agent given only the property text and a scratch worktree"}
    try:
        d = fresh_copy(base)
        rc, out = apply_patch(d, patch)
        meta["patch_applies"] = rc == 0
        if rc != 0:
            print("patch does not apply:", out[-400:])
            return False
        rc, out = run(["go", "build", "./..."], d)
        meta["builds"] = rc == 0
        rc2, out2 = run(["go", "test", "-vet=off", "-count=1"] + STABLE, d)
        meta["stable_tests_pass_with_change"] = rc2 == 0
        f1, o1 = run_demo(base, d, demos, main_go)
        meta["demo_fails_with_change"] = f1
        d = fresh_copy(base)
        f2, o2 = run_demo(base, d, demos, main_go)
        meta["demo_passes_without_change"] = not f2
        ok = meta["builds"] and meta["stable_tests_pass_with_change"] and f1 and not f2
        meta["confirmed"] = ok
        meta["ran"] = ["patch -p1 < patch.diff on a scratch copy of /repo", "go build ./...", "go test -vet=off -count=1 " + " ".join(STABLE),
                       "demonstration with the change (must fail)", "demonstration without the change (must pass)"]
        readme = os.path.join(src, "README.md")
        if os.path.exists(readme):
            txt = open(readme).read()
            meta["needs_to_manifest"] = extract_needs(txt)
        print(json.dumps(meta, indent=1))
        if not ok:
            print("NOT CONFIRMED; demo-with-change output tail:\n", o1[-800:], "\n--- without:\n", o2[-800:])
            return False
        dst = os.path.join(HERE, "seeded", "%s-%s" % (prop, which))
        os.makedirs(dst, exist_ok=True)
        shutil.copy(patch, os.path.join(dst, "patch.diff"))
        for demo in demos:
            shutil.copy(demo, os.path.join(dst, os.path.basename(demo)))
        if main_go:
            shutil.copy(main_go, os.path.join(dst, "main.go"))
        if os.path.exists(readme):
            shutil.copy(readme, os.path.join(dst, "README.md"))
        json.dump(meta, open(os.path.join(dst, "meta.json"), "w"), indent=1)
        return True
    finally:
        shutil.rmtree(base, ignore_errors=True)


def extract_needs(txt):
    m = re.search(r"(?is)(what it needs[^\n]*\n)(.*?)(\n#|\n\*\*|\Z)", txt)
    if m:
        return re.sub(r"\s+", " ", m.group(2)).strip()[:600]
    m = re.search(r"(?is)needs?[^\n]*manifest[^\n]*\n(.*?)(\n#|\Z)", txt)
    if m:
        return re.sub(r"\s+", " ", m.group(1)).strip()[:600]
    return ""


def implemented():
    return sorted("C" + f[1:3] for f in os.listdir(os.path.join(HERE, "analyzer")) if f.startswith("c") and f.endswith(".go") and f[1:3].isdigit())


def do_check(sub=""):
    base = tempfile.mkdtemp(prefix="pfseedchk_")
    vdir = os.path.join(base, "verif")
    os.makedirs(vdir)
    shutil.copy(os.path.join(HERE, "known_findings.txt"), vdir)
    res = {}
    try:
        for name in sorted(os.listdir(os.path.join(HERE, "seeded"))):
            if sub and not any(x in name for x in sub.split(",")):
                continue
            sd = os.path.join(HERE, "seeded", name)
            if not os.path.exists(os.path.join(sd, "patch.diff")):
                continue
            d = fresh_copy(base)
            rc, out = apply_patch(d, os.path.join(sd, "patch.diff"))
            if rc != 0:
                res[name] = ["PATCH DOES NOT APPLY"]
                continue
            fired = []
            for prop in implemented():
                r = subprocess.run([os.environ.get("PFVERIFY_BIN", os.path.join(HERE, "bin", "pfverify")), "-repo", d, "-verif", vdir, "-prop", prop], capture_output=True, text=True)
                if r.returncode == 2:
                    fired.append(prop + ":ERROR")
                for line in r.stdout.splitlines():
                    line = line.strip()
                    if line.startswith("[violated]") or line.startswith("[undecided]"):
                        fired.append(line.split(" at ")[0].replace("[violated] ", "").replace("[undecided] ", "?"))
            res[name] = fired
            print(("  " if fired else "!!"), name, "FIRED" if fired else "MISSED")
            for f in fired[:5]:
                print("        ", f)
    finally:
        shutil.rmtree(base, ignore_errors=True)
    caught = sum(1 for v in res.values() if v)
    print("%d/%d seeded changes reported" % (caught, len(res)))
    # merge into the stored results (a partial run must not forget the others)
    path = os.path.join(HERE, "seeded", "LAST_CHECK.json")
    allres = {}
    if sub and os.path.exists(path):
        try:
            allres = json.load(open(path))
        except Exception:
            allres = {}
    allres.update(res)
    json.dump(allres, open(path, "w"), indent=1, sort_keys=True)


if __name__ == "__main__":
    if len(sys.argv) >= 5 and sys.argv[1] == "import":
        sys.exit(0 if do_import(sys.argv[2], sys.argv[3], sys.argv[4]) else 1)
    elif len(sys.argv) >= 2 and sys.argv[1] == "check":
        do_check(sys.argv[2] if len(sys.argv) > 2 else "")
    else:
        print(__doc__)
