#!/usr/bin/env python3
"""Generates /verif/MANIFEST.json from the table below (kept next to the analyzer so that
claims, levels and not-applicable reasons are edited in one place)."""
import json, os, sys

HERE = os.path.dirname(os.path.dirname(os.path.abspath(__file__)))

SETUP = ("cd analyzer && GOFLAGS=-mod=mod GOPROXY=off GOSUMDB=off GOTOOLCHAIN=local GOWORK=off "
         "go build -o ../bin/pfverify . ")

TRUST = ("Trusted: Go type checker + go/ssa (x/tools v0.29.0), the analyzer's transfer functions and rule tables, "
         "heap abstraction by (named struct type, field), one implementation per engine interface (asserted as a floor). "
         "Static analysis only: nothing is executed, no solver. ")

# id -> (level, design section, text, note, technique)
CLAIMS = {
 "C01": ("other", "4/C01", "Structural necessary conditions of chip conservation, decided on every path of every writer of a chip account: the accounting identities InitialStackSize+Pot=Bankroll, StackSize+Wager=InitialStackSize and dCurrentRoundPot=dWager are inductive over all writers (path-partitioned affine dataflow), round-boundary sweeps are paired, result Final/Changed move together, the pot feed passes Pot+Wager of every player. Not the numeric content of pots/settlement. Also: a handler that republishes the pots does so on every non-failing path; the layers behind the pots are built in the nested-side-pot shape (rule shared with C02: distinct sorted levels, members = every contribution at or above the level, step = level minus previous level, total = members x step); winner shares of a level add up to its total.",
         "Does not decide non-negativity in general, pots-sum-to-contributions, zero-sum or loss bounds (arithmetic over loops).", "affine-relation dataflow over SSA + call-graph write sets"),
 "C02": ("other", "4/C02", "Structural necessary conditions of a fair showdown: folded players are scored 0 and live players with their published strength, a player is ranked in a level only under a membership test, every pot/level/player is forwarded and visited (full ranges, both winner and loser routines), winners are the top group of a descending sort. Also: winner shares are Total/len(winners) plus one chip for exactly remainder-many winners (grid over up to 5 winners); a level's contributor list never shares a backing array with another level; layer shape (layer-arith); hands are re-evaluated on every dealing path before they are compared (shared with C10). Equal scores join one group: the group is found by a scan of all existing groups (rank-grouping).",
         "Split arithmetic, remainders, ties and uncalled excess are values and not decided.", "provenance + decision-table extraction over SSA paths"),
 "C03": ("other", "4/C03", "Well-formedness of the constant tables the hand score is built from: ranking tables are permutations in the poker order of the property, each category span exceeds the largest in-category score computed from the code's radix/calibration constants, symbol table total/injective, multiples ladder order. Also: every pattern detector scans its whole input; the slice sorted by descending rank is, unchanged, what the detectors, the grouping and the result see. Inside a category the score is positional over all five cards; only the straight categories have a special case (score-cases). No function of the evaluator compares addresses of table elements (a ranking table is recognised by value).",
         "Category detection and kicker weighting over 2.6M hands are values and not decided.", "typed-AST constant-table evaluation + SSA constant extraction"),
 "C04": ("other", "4/C04", "Refusal without effect for every path of every action and table operation (guard dominance, sentinel-error returns effect-free), agreement of offered action names with guards across packages, offers attached to the current seat only, wrappers dispatch to the current player, NextPlayer is the clockwise successor. Also: where a betting round opens (current seat parked on the dealer on later streets, walked along the seat successor from the dealer to the big blind before the flop, first offer to the successor of the parked seat); along every chain of events that rests outside the action wait, all offers were cleared after the last grant. The action guard itself is a membership test of the offers stored for the seat; grants are found by role (any function storing a non-empty offer list).",
         "The seat walk over histories is index arithmetic on runtime state and not decided; of the first-to-act clause the shape of the opening walk is decided, not the resulting seat as a value.", "guard/refusal dominance over path summaries + protocol-constant agreement"),
 "C05": ("other", "4/C05", "Typestate rules of round closing: every offered action marks the actor acted before re-entering the chain, every in-round wager increase resets the other seats' acted flags, the raiser stays acted, walkover and nobody-can-move short-cuts dominate the street entries, the two counters count exactly the stated predicates.",
         "Closing within one lap and never early for all interleavings is a history property and not decided.", "must-pass-through / dominance rules over path summaries"),
 "C06": ("other", "4/C06", "The lifecycle machine extracted from the code: event tables total and mutually inverse, every handler emits or is a wait point with a guarded resuming operation, emits are tail calls, streets chain preflop-flop-turn-river, Start validation dominates the first emit, result stored before close. Also (shared with C04): no seat keeps offers while the hand rests outside the action wait, the terminal event included. Start's dealer test is effective: nothing stores a possibly-nil typed pointer into the interface field it tests.",
         "Bounded number of steps inside a betting round and absence of panics in handlers are not decided.", "event-graph extraction (emit summaries) + constant tables"),
 "C07": ("other", "4/C07", "Structural conditions under which a game rebuilt from JSON is indistinguishable: operations write only *GameState (no hidden wrapper/global state), the state type closure is fully serialised except a derived set that is recomputed before every read, Resume re-enters the recorded event, backend methods clone in and out, no clock/random source reachable from operations except the timestamp. Nothing reachable from an operation starts a goroutine; no foreign function is handed a wrapper field; the loader rebuilds the wiring on every normal path.",
         "Equality of all continuations and map-iteration order-insensitivity are not decided.", "write-set / type-closure / provenance analysis"),
 "C08": ("other", "4/C08", "All implementations of the seat-can-play predicate agree with occupied AND active AND not reserved; dealer/sb/bb are stored only from playable searches that start strictly after the previous position; position strings agree between table and engine. Also: Seat.IsActive is written only by the hand-boundary functions; the dealer-move rules of C17 (search after the dealer, passed seats re-activated up to the seat just found) are reported here too. The big blind is stored before the closing walk that stops at it; the unconditional re-opening pass starts after the big blind. Every path of Next that does not refuse assigns the blinds.",
         "Which seat is first clockwise and the dealt-in timing after a mid-hand join are history-dependent and not decided.", "sibling decision-table agreement + provenance"),
 "C09": ("other", "4/C09", "Refusals of SyncState (unknown table) and AddPlayers (after deadline) are effect-free; counters move in lock-step with every hand-out, elimination, release and break (affine relations with len() symbols); the waiting queue is written only by append, pop-front and the undispatched remainder. A table requirement is assigned or reduced, never added to; the remainder of the queue is stored back before tables are opened.",
         "No loss/duplication across unbounded histories and callback-error paths are not decided.", "guard/refusal + affine lock-step relations"),
 "C10": ("other", "4/C10", "The published Type/Cards/Power derive from one evaluation of that player's own hole cards and the board with the configured required-hole-card count and ranking table, the published element is the first of a descending sort by score, and every street that deals cards re-evaluates before the next event. Also: the enumeration is complete in shape: full nested product of (hole, required) x (board, 5-required) or every 5 of hole+board exactly when no count is required; every generated mask decoded over all positions; the mask generator's start/test/step and the scanner's bit test agree with the increasing enumeration of k-subsets on the grid 1<=k<=n<=9 of closed-form SSA expressions (no loop executed).",
         "Truth of the scores compared is C03's subject and not decided here; the enumeration claim is for at most 9 cards to choose from.", "provenance over path summaries + ordering"),
 "C11": ("other", "4/C11", "The offer table of GetAvailableActions is extracted as path conditions and compared exactly, for all orderings of its terms on a bounded grid, with the property's sentence; passive actions move no chips; Allin/Bet/Call pass the stated amounts to the chip mover whose per-branch affine summary gives the stated new wager.",
         "Reachability of each situation is not decided.", "decision-table extraction + exhaustive ordering enumeration (no solver)"),
 "C12": ("other", "4/C12", "Raise(x) decision table compared with the rule (refused / call / all-in / carried out with PreviousRaiseSize'=x-CurrentWager and pay(x-Wager)); every caller-supplied amount reaching the chip mover is bounded below by a refusing test; the wager to match is only stored under old<new. Also: a recorded minimum raise never shrinks on the grid; the opening minimum raise is the big blind (shared with C13). What an action records as the new minimum is the lift of the wager to match.",
         "Pot-limit branch outside the property; numeric bounds beyond the amount guard not decided.", "decision-table extraction + guard dominance"),
 "C13": ("other", "4/C13", "PayBlinds pairs each blind amount with the position of the same name (decision table), the table layer waits on the same seats, the blinds wait point is bypassed only when every blind is zero, the ante is paid as non-wager and swept before preflop, minimum raise initialised from the big blind. Also (shared with C01): the chip mover's all-in branch keeps the account identities, i.e. a short stack is charged what it has. The list the forced-bet loops range over holds every seat once from the dealer on (player-ring: wrapping cursor, two segments with one split point, or modulo).",
         "Cap arithmetic at the boundaries as values not decided.", "decision-table extraction + sibling agreement"),
 "C14": ("other", "4/C14", "Deal appends Deck[cursor] and advances the cursor by one per card in lock-step, cards reach HoleCards/Board/Burned only from Deal, no element store into dealt slices, each street deals exactly the property's numbers with the burn first, the shuffle only swaps elements of its argument. Also: a function whose result becomes GameOptions.Deck returns a newly allocated slice on every call (no two hands share a deck array).",
         "That the configured deck has no duplicates and enough cards is input content, not decided.", "lock-step loop rule + provenance + street table"),
 "C15": ("proof", "4/C15", "Complete static argument for both view functions, for every input state: the secret set is derived by card-identity taint from the deck; on every path of AsPlayer/AsObserver each table-level secret is overwritten with a fresh empty value and each per-player secret is overwritten unless the path condition contains the viewer test or (closed AND not folded); loops are full ranges without early exit; the write set is contained in the secret set. A seat's secrets are wiped only on paths that carry seat != viewer, in the closed phase too (the viewer's own cards stay).",
         "Assumes views are produced by these two functions and that only explicit flows matter.", "taint-derived secret set + all-paths redaction proof over SSA path conditions"),
 "C17": ("other", "4/C17", "The dealer search starts strictly after the current dealer (never stays put), findActivePlayer returns the first accepted element in order, Next refuses with the insufficient-players error, and blind assignment is reached only with checked search results. Also: the ring the search walks is clockwise with wrap (shared with C08); the re-activation walk stops at the seat just found; the dealer field is stored only while moving to the next hand or by an API that receives the button as an argument.",
         "Never-backwards, re-activation and waiting players being let in first are history-dependent and not decided.", "provenance + sentinel-use dominance"),
 "C18": ("other", "4/C18", "Lock typestate of every exported SeatManager method touching seat flags, guarded access only under the lock, no self-deadlock; join guards (range test, occupied test, reserved-until-sit-in, leave frees the same seat); every sentinel result (nil / -1) is checked before it reaches a dereference, slice bound or index. Also (shared with C08): the heads-up shortcut is taken exactly under the playable-count == 2 test, which is what keeps the second blind search from failing. The number of players is one pass over every seat counting a seat exactly when it holds a player.",
         "seated = joins - leaves over histories and panics via ApplyStates/SetDealer are not decided.", "lock typestate + sentinel-to-use dominance"),
 "C19": ("other", "4/C19", "Thin: table opening is gated by status and minimum-players tests on every call chain, hand-outs are bounded by the table's outstanding requirement in lock-step, top-ups pop at most the computed count. Also: after a top-up Required is the unmet remainder (count minus handed out) and counters move in lock-step (shared with C09); the slice popped for a new table is handed over whole.",
         "The capacity bound itself (water-level arithmetic over settings) is NOT decided; only the gating clauses are.", "call-chain gating + lock-step relations"),
 "C20": ("other", "4/C20", "Thin: a broken table's full PlayerCount is returned as release count after breakTable succeeded, and released players are appended to the waiting queue and drained. Also: every break path carries the test that more tables exist than are needed; top-up target, surplus threshold and release stop use one rounding of the water level; the stop level is computed by one full pass in which a table is counted under PlayerCount<=level or has its own count taken off the total.",
         "Convergence within bounded sweeps is a liveness property of a numeric fixed point and is NOT decided.", "provenance over path summaries"),
}

NOT_APPLICABLE = {
 "C16": "The statement is entirely about the numeric content of the collections pot.LevelList builds (strictly increasing levels, per-layer totals, nesting of eligible sets, grand total) for every contribution/fold vector: values produced by nested loops over maps with sorting and merging. No dominance, write-set or table argument decides it and evaluating the package on inputs would be execution, not static analysis. The engine-side conditions around it (pot feed, rebuild before read) are decided under C01/C07.",
}

def main():
    built = set(sys.argv[1:]) if len(sys.argv) > 1 else None
    # properties whose check is implemented (file analyzer/cXX.go exists)
    impl = set()
    for f in os.listdir(os.path.join(HERE, "analyzer")):
        if f.startswith("c") and f.endswith(".go") and f[1:3].isdigit():
            impl.add("C" + f[1:3])
    checks = []
    na = []
    for pid in sorted(set(CLAIMS) | set(NOT_APPLICABLE)):
        if pid in NOT_APPLICABLE:
            na.append({"property_id": pid, "reason": NOT_APPLICABLE[pid]})
            continue
        if pid not in impl:
            na.append({"property_id": pid, "reason": "check not built yet in this round (design in DESIGN.md section " + CLAIMS[pid][1] + "); not claimed until the analyzer decides it"})
            continue
        level, ref, text, note, tech = CLAIMS[pid]
        checks.append({
            "property_id": pid,
            "quick_cmd": f"bin/pfverify -prop {pid} -tier quick",
            "thorough_cmd": f"bin/pfverify -prop {pid} -tier thorough",
            "evidence_file": f"evidence/{pid}.json",
            "replay_cmd_template": "bin/pfverify -explain {path}",
            "engine": "pfverify",
            "level_claimed": {"category": level, "text": text, "design_ref": "DESIGN.md section " + ref},
            "level_note": TRUST + note,
            "technique": "static analysis: " + tech,
        })
    m = {
        "version": 1,
        "setup_cmd": SETUP,
        "hooks": {
            "guard": "verif",
            "enable": "no source hooks are needed: the analyzer reads /repo's working tree (go/packages, Tests=false, default build tags)",
            "baseline_off_cmd": "cd /repo && go test -vet=off -count=1 -timeout 25m ./...",
            "source_commits": [],
            "add_only": True,
        },
        "engines": [{
            "name": "pfverify",
            "path": "analyzer/",
            "serves_properties": [c["property_id"] for c in checks],
            "kind_free_text": "repository-specific static analyzer over go/packages + go/ssa: write-set index, protocol-constant tables, guard/refusal dominance, decision-table extraction, affine-relation dataflow, provenance, event-graph extraction, ordering rules, lock typestate and sentinel-use rules",
        }],
        "checks": checks,
        "not_applicable": na,
        "notes": "All checks are static: each run re-loads /repo's current working tree, decides the property's obligations and writes evidence/<id>.json. Genuine defects found are repaired by fix: commits in /repo and recorded in known_findings.txt.",
    }
    with open(os.path.join(HERE, "MANIFEST.json"), "w") as f:
        json.dump(m, f, indent=1)
        f.write("\n")
    print("claimed:", [c["property_id"] for c in checks])
    print("not_applicable:", [n["property_id"] for n in na])

if __name__ == "__main__":
    main()
