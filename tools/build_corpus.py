#!/usr/bin/env python3
"""Builds /verif/corpus/{mutants,refactors}.json from the candidate lists under notes/ and the
confirmed independent changes under seeded/. The thorough tier replays them on a scratch copy
of the current /repo tree (sensitivity / specificity figures in the evidence)."""
import importlib.util, json, os, re

HERE = os.path.dirname(os.path.dirname(os.path.abspath(__file__)))


def load(path):
    spec = importlib.util.spec_from_file_location("m", path)
    m = importlib.util.module_from_spec(spec)
    spec.loader.exec_module(m)
    return m.MUTS


def norm(m):
    name = m[0]
    edits = m[1] if isinstance(m[1], list) else [tuple(m[1:4])]
    return {"name": name, "property": name.split("-")[0], "edits": [{"file": f, "old": o, "new": n} for (f, o, n) in edits]}


def main():
    muts = []
    for f in ["mutant_candidates.py", "mutants_seat.py", "mutants_reg.py", "mutants_enum.py", "mutants_layers.py"]:
        p = os.path.join(HERE, "notes", f)
        if os.path.exists(p):
            muts += [norm(m) for m in load(p)]
    seen = set()
    out = []
    for m in muts:
        if m["name"] in seen:
            continue
        seen.add(m["name"])
        out.append(m)
    sd = os.path.join(HERE, "seeded")
    if os.path.isdir(sd):
        for name in sorted(os.listdir(sd)):
            pf = os.path.join(sd, name, "patch.diff")
            if os.path.exists(pf):
                out.append({"name": "seeded-" + name, "property": name.split("-")[0], "patch": os.path.join("seeded", name, "patch.diff")})
    refs = [norm(m) for m in load(os.path.join(HERE, "notes", "refactors.py"))]
    rd = os.path.join(HERE, "corpus", "refactor_patches")
    if os.path.isdir(rd):
        for name in sorted(os.listdir(rd)):
            if name.endswith(".diff"):
                refs.append({"name": "indep-" + name[:-5], "property": "*", "patch": os.path.join("corpus", "refactor_patches", name)})
    for r in refs:
        r["property"] = "*"
    os.makedirs(os.path.join(HERE, "corpus"), exist_ok=True)
    json.dump(out, open(os.path.join(HERE, "corpus", "mutants.json"), "w"), indent=1)
    json.dump(refs, open(os.path.join(HERE, "corpus", "refactors.json"), "w"), indent=1)
    print(len(out), "mutants,", len(refs), "refactors")


if __name__ == "__main__":
    main()
