# Development aid: candidate mutants / equivalent rewrites for C10/enumeration-complete.
MUTS = [
 ("C10-enum-limit-half","combination/combination.go","\tlimit := 1 << n\n","\tlimit := 1 << (n - 1)\n"),
 ("C10-enum-start-off","combination/combination.go","\tcur := (1 << k) - 1\n","\tcur := (1 << k)\n"),
 ("C10-enum-step-shift1","combination/combination.go","cur = (((r ^ cur) >> 2) / lb) | r","cur = (((r ^ cur) >> 1) / lb) | r"),
 ("C10-scan-short","combination/combination.go","\tfor i := 0; i < n; i++ {\n\t\tif (value>>i)&1 == 1 {","\tfor i := 0; i < n-1; i++ {\n\t\tif (value>>i)&1 == 1 {"),
 ("C10-scan-from-one","combination/combination.go","\tfor i := 0; i < n; i++ {\n\t\tif (value>>i)&1 == 1 {","\tfor i := 1; i < n; i++ {\n\t\tif (value>>i)&1 == 1 {"),
 ("C10-args-swapped-total","combination/combination.go","\tposBins := gospersHack(n, total)","\tposBins := gospersHack(n, total-1)"),
 ("C10-product-skips-first-board","combination/combination.go","\t\tfor _, bCards := range boardCardCombinations {","\t\tfor _, bCards := range boardCardCombinations[1:] {"),
 ("C10-board-count-wrong","combination/combination.go","GetPossibleCombinations(boardCards, 5-holeCardsCount)","GetPossibleCombinations(boardCards, 4-holeCardsCount)"),
 ("C10-zero-only-board","combination/combination.go","\t\tallCards = append(allCards, holeCards...)\n\t\tallCards = append(allCards, boardCards...)\n\t\treturn GetPossibleCombinations(allCards, 5)","\t\tallCards = append(allCards, boardCards...)\n\t\treturn GetPossibleCombinations(allCards, 5)"),
]
