# Development aid: behaviour-preserving rewrites of the enumerator (C10 must stay silent).
MUTS = [
 ("C10-enum-le-last","combination/combination.go","\tlimit := 1 << n\n\tfor cur < limit {","\tlimit := cur << (n - k)\n\tfor cur <= limit {"),
 ("C10-enum-flip","combination/combination.go","\tfor cur < limit {","\tfor limit > cur {"),
 ("C10-scan-bit-mask","combination/combination.go","\t\tif (value>>i)&1 == 1 {","\t\tif value&(1<<i) != 0 {"),
 ("C10-scan-le","combination/combination.go","\tfor i := 0; i < n; i++ {\n\t\tif (value>>i)&1 == 1 {","\tfor i := 0; i <= n-1; i++ {\n\t\tif (value>>i)&1 == 1 {"),
]
