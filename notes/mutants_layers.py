# Development aid: candidate mutants for C02/layer-arith (shared with C01).
MUTS = [
 ("C02-layer-member-strict","pot/level_list.go","\t\t\tif pot.Level <= wager {","\t\t\tif pot.Level < wager {"),
 ("C02-layer-total-level","pot/level_list.go","\t\tl.Total = int64(len(l.Contributors)) * l.Wager","\t\tl.Total = int64(len(l.Contributors)) * l.Level"),
 ("C02-layer-prev-stuck","pot/level_list.go","\t\tl.Total = int64(len(l.Contributors)) * l.Wager\n\t\tprevLevel = l.Level\n","\t\tl.Total = int64(len(l.Contributors)) * l.Wager\n"),
 ("C02-layer-sort-desc","pot/level_list.go","\t\treturn ll.levels[i].Level < ll.levels[j].Level","\t\treturn ll.levels[i].Level > ll.levels[j].Level"),
 ("C02-layer-no-reset","pot/level_list.go","\t\t// Reset contributor list\n\t\tpot.Contributors = make([]int, 0)\n","\t\t// Reset contributor list\n"),
 ("C02-layer-dup-level","pot/level_list.go","\t\tif pot.Level == level {\n\t\t\treturn pot\n\t\t}","\t\tif pot.Level == level && pot.Total > 0 {\n\t\t\treturn pot\n\t\t}"),
 ("C02-layer-skip-first-level","pot/level_list.go","\t// Calculate total wagers for each levels\n\tprevLevel := int64(0)\n\tfor _, l := range ll.levels {","\t// Calculate total wagers for each levels\n\tprevLevel := int64(0)\n\tfor _, l := range ll.levels[1:] {"),
]
